package main

import (
	"fmt"
	"unicode/utf8"

	"verif/internal/evidence"
	"verif/internal/hc"
	"verif/internal/oracle/lexref"
	"verif/internal/rng"
	"verif/internal/specgen"
)

func init() { register("C08", checkC08) }

func checkC08(c *Ctx) error {
	c.Ev = evidence.New("C08", c.Tier, c.Seed, "exploration",
		"specifications with one or two token rules P B*? T or P B+? T (P literal or class sequence; B a class, '.', an alternation of classes or ~[\\n]; T a literal of 1-3 characters, self-overlapping ones included, whose characters B can match) next to greedy rules (keyword, word, whitespace); in half of the specifications further greedy rules share the non-greedy rule's prefix (a token that is exactly the prefix, the prefix plus one character, the prefix followed by a greedy run over the body's characters) or the prefix is a letter of the word rule; inputs over the tiny alphabet of P, B, T (terminators are frequent): every string up to a bound, random long ones, unterminated ones. The token stream of the real state machine under the real driver must equal the reference: consume while the rule is viable and stop at the first prefix matching the whole rule (at least one repetition for +?), ERROR if viability is lost first; greedy rules keep longest match. Non-trivial: inputs in which a non-greedy token is produced and the body could have matched the terminator (token shorter than the longest match), or several tokens; distinct by spec+input.")
	c.Ev.Assumptions = []string{
		"rule shape restricted as in the statement",
		"inputs on which a non-greedy rule is complete while another rule of the mode is still alive (could accept the same or a longer text) are not judged: the statement fixes where the non-greedy token ends and that greedy rules keep their longest match, not which of the two gives way (counted as inputs_outside_the_property); a greedy rule accepting earlier, inside the run of the non-greedy rule, is judged",
	}
	return runLexCheck(c, &lexCheckSpec{
		id: "C08",
		draw: func(d *lexDrawer, r *rng.R) *LCase {
			for try := 0; try < 200; try++ {
				inter := r.Chance(1, 2)
				s, a := specgen.NonGreedyLexerWith(r, inter)
				origin := "non-greedy"
				if inter {
					origin = "non-greedy-with-rules-sharing-the-prefix"
				}
				lc := newLCase(s, a, origin, false)
				d.mu.Lock()
				d.drawn++
				d.mu.Unlock()
				if !noNullableRule(lc) {
					continue
				}
				return lc // duplicates are harmless here: inputs differ per case
			}
			return nil
		},
		nBatches: [2]int{2, 30}, nCLI: [2]int{1, 4}, per: 30,
		nInputs: [2]int{300, 1500}, exhLen: [2]int{6, 8},
		// a non-greedy rule complete while another rule is still alive: the
		// statement fixes where the non-greedy rule ends and that greedy rules
		// keep their longest match, not which of the two gives way
		skipCase: func(ref *lexref.Result) bool { return ref.NGInterplay },
		// whatever gives way on such inputs, a token of a non-greedy rule
		// never runs past the first complete match of its own rule
		always: ngTokensShortest,
		nontrivial: func(lc *LCase, in []byte, ref *lexref.Result) bool {
			return len(ref.Toks) >= 3
		},
	})
}

// ngTokensShortest checks every observed token (up to the first ERROR) whose
// type is emitted by a non-greedy rule of the default mode: no proper prefix
// of its text may already match the whole rule.
func ngTokensShortest(c *Ctx, lc *LCase, in []byte, obs *hc.LexRun) string {
	rules := lc.Ref.Modes[0].Rules
	for _, t := range obs.Toks {
		typ, off, n := t[0], t[1], t[2]
		if typ == 1 {
			break
		}
		if typ == 0 || off < 0 || off+n > len(in) {
			continue
		}
		for ri := range rules {
			ru := &rules[ri]
			if !ru.NonGreedy || ru.Act.Emit != typ {
				continue
			}
			d := ru.Re
			text := in[off : off+n]
			for p := 0; p < len(text); {
				if p > 0 && lc.Ref.Ctx.Nullable(d) {
					c.Ev.Count("non_greedy_tokens_checked_on_unjudged_inputs", 1)
					return fmt.Sprintf("token of type %d at %d+%d (%q) comes from a non-greedy rule and runs past the first complete match of that rule (%q)", typ, off, n, text, text[:p])
				}
				ch, w := utf8.DecodeRune(text[p:])
				d = lc.Ref.Ctx.Deriv(d, ch)
				p += w
			}
			c.Ev.Count("non_greedy_tokens_checked_on_unjudged_inputs", 1)
		}
	}
	return ""
}
