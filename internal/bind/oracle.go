package bind

import (
	"fmt"
	"go/ast"
	"go/importer"
	"go/parser"
	"go/token"
	"go/types"
	"strings"
	"sync"
)

// Oracle answers assignability questions by type-checking the harness
// prelude once (with verif/internal/hc standing in for batch/hc: the same
// source) and evaluating the spelled types inside that package.
type Oracle struct {
	mu    sync.Mutex
	fset  *token.FileSet
	pkg   *types.Package
	pos   token.Pos
	cache map[string]types.Type
}

func NewOracle() (*Oracle, error) {
	src := "package probe\n\nimport (\n\t\"fmt\"\n\t\"math/big\"\n\t\"reflect\"\n\t\"sort\"\n\t\"strconv\"\n\t\"time\"\n\n\thc \"verif/internal/hc\"\n)\n" + Prelude +
		"\ntype Error struct {\n\tToken    Token\n\tExpected []int\n}\n\nvar _ = reflect.TypeOf\nvar _ = strconv.Itoa\nvar _ = big.NewInt\nvar _ time.Duration\n"
	fset := token.NewFileSet()
	f, err := parser.ParseFile(fset, "probe.go", src, 0)
	if err != nil {
		return nil, err
	}
	conf := types.Config{Importer: importer.ForCompiler(fset, "source", nil)}
	pkg, err := conf.Check("probe", fset, []*ast.File{f}, nil)
	if err != nil {
		return nil, fmt.Errorf("prelude does not type-check: %v", err)
	}
	// a position inside the file, so that the file's imports are in scope
	return &Oracle{fset: fset, pkg: pkg, pos: f.Decls[len(f.Decls)-1].Pos(), cache: map[string]types.Type{}}, nil
}

func (o *Oracle) typeOf(expr string) types.Type {
	if t, ok := o.cache[expr]; ok {
		return t
	}
	tv, err := types.Eval(o.fset, o.pkg, o.pos, "(*"+expr+")(nil)")
	var t types.Type
	if err == nil {
		if p, ok := tv.Type.(*types.Pointer); ok {
			t = p.Elem()
		}
	}
	if t == nil && strings.HasPrefix(expr, "[]") {
		if el := o.typeOf(strings.TrimPrefix(expr, "[]")); el != nil {
			t = types.NewSlice(el)
		}
	}
	o.cache[expr] = t
	return t
}

// Assignable: is a value of (spelled) type vt assignable to pt?
func (o *Oracle) Assignable(vt, pt string) bool {
	o.mu.Lock()
	defer o.mu.Unlock()
	v, p := o.typeOf(vt), o.typeOf(pt)
	if v == nil || p == nil {
		panic(fmt.Sprintf("bind oracle: cannot evaluate type %q or %q", vt, pt))
	}
	return types.AssignableTo(v, p)
}
