// Package rx is a reference regular-expression engine over Unicode code
// points, based on Brzozowski derivatives. It is used as a test oracle; it
// favours obviously-correct code and canonical forms over speed.
//
// set.go: code-point sets as canonical sorted range lists.
package rx

import (
	"sort"
	"strconv"
)

// MaxRune is the largest code point. Surrogates (0xD800..0xDFFF) are ordinary
// code points as far as this package is concerned.
const MaxRune = 0x10FFFF

// Range is a closed interval of code points, Lo <= Hi.
type Range struct{ Lo, Hi rune }

// Set is a set of code points in canonical form: ranges sorted by Lo,
// pairwise disjoint AND non-adjacent (r[i].Hi+1 < r[i+1].Lo), every range
// inside 0..MaxRune. The empty set is the nil (or zero-length) slice.
//
// All methods assume canonical receivers/arguments and return canonical
// results that do not alias their inputs. Sets are treated as immutable.
type Set []Range

// NewSet canonicalises arbitrary input: ranges may overlap, touch, be
// unsorted. Ranges with Lo > Hi are dropped; ranges are clipped to
// 0..MaxRune (a range entirely outside is dropped).
func NewSet(rs ...Range) Set {
	tmp := make([]Range, 0, len(rs))
	for _, r := range rs {
		if r.Lo > r.Hi {
			continue
		}
		if r.Lo < 0 {
			r.Lo = 0
		}
		if r.Hi > MaxRune {
			r.Hi = MaxRune
		}
		if r.Lo > r.Hi {
			continue
		}
		tmp = append(tmp, r)
	}
	sort.Slice(tmp, func(i, j int) bool {
		if tmp[i].Lo != tmp[j].Lo {
			return tmp[i].Lo < tmp[j].Lo
		}
		return tmp[i].Hi < tmp[j].Hi
	})
	return coalesce(tmp)
}

// coalesce merges a list sorted by Lo into canonical form.
func coalesce(sorted []Range) Set {
	var out Set
	for _, r := range sorted {
		if n := len(out); n > 0 && r.Lo <= out[n-1].Hi+1 {
			if r.Hi > out[n-1].Hi {
				out[n-1].Hi = r.Hi
			}
			continue
		}
		out = append(out, r)
	}
	return out
}

// Any is the full set {0..MaxRune}.
func Any() Set { return Set{{0, MaxRune}} }

// Union returns s ∪ o.
func (s Set) Union(o Set) Set {
	merged := make([]Range, 0, len(s)+len(o))
	i, j := 0, 0
	for i < len(s) || j < len(o) {
		if j >= len(o) || (i < len(s) && s[i].Lo <= o[j].Lo) {
			merged = append(merged, s[i])
			i++
		} else {
			merged = append(merged, o[j])
			j++
		}
	}
	return coalesce(merged)
}

// Intersect returns s ∩ o.
func (s Set) Intersect(o Set) Set {
	var out Set
	i, j := 0, 0
	for i < len(s) && j < len(o) {
		lo, hi := s[i].Lo, s[i].Hi
		if o[j].Lo > lo {
			lo = o[j].Lo
		}
		if o[j].Hi < hi {
			hi = o[j].Hi
		}
		if lo <= hi {
			out = append(out, Range{lo, hi})
		}
		// Advance whichever range ends first.
		if s[i].Hi < o[j].Hi {
			i++
		} else {
			j++
		}
	}
	// Pieces are disjoint and sorted; two pieces can only be adjacent if the
	// inputs had adjacent ranges, which canonical inputs do not. Coalesce
	// anyway so that the result is canonical by construction.
	return coalesce(out)
}

// Diff returns s \ o.
func (s Set) Diff(o Set) Set {
	var out Set
	j := 0
	for _, r := range s {
		lo := r.Lo // invariant: [lo, r.Hi] is the part of r not yet decided
		for j < len(o) && o[j].Hi < lo {
			j++
		}
		k := j
		done := false
		for k < len(o) && o[k].Lo <= r.Hi {
			if o[k].Lo > lo {
				out = append(out, Range{lo, o[k].Lo - 1})
			}
			if o[k].Hi >= r.Hi {
				done = true
				break
			}
			lo = o[k].Hi + 1
			k++
		}
		if !done && lo <= r.Hi {
			out = append(out, Range{lo, r.Hi})
		}
	}
	return coalesce(out)
}

// Complement returns {0..MaxRune} \ s.
func (s Set) Complement() Set {
	var out Set
	next := rune(0) // smallest code point not yet accounted for
	for _, r := range s {
		if r.Lo > next {
			out = append(out, Range{next, r.Lo - 1})
		}
		next = r.Hi + 1
	}
	if next <= MaxRune {
		out = append(out, Range{next, MaxRune})
	}
	return out
}

// Contains reports whether r ∈ s.
func (s Set) Contains(r rune) bool {
	// First range with Hi >= r.
	i := sort.Search(len(s), func(i int) bool { return s[i].Hi >= r })
	return i < len(s) && s[i].Lo <= r
}

// Empty reports whether s has no code points.
func (s Set) Empty() bool { return len(s) == 0 }

// Equal reports whether s and o contain the same code points (both must be
// canonical).
func (s Set) Equal(o Set) bool {
	if len(s) != len(o) {
		return false
	}
	for i := range s {
		if s[i] != o[i] {
			return false
		}
	}
	return true
}

// Count returns the number of code points in s.
func (s Set) Count() int {
	n := 0
	for _, r := range s {
		n += int(r.Hi) - int(r.Lo) + 1
	}
	return n
}

// Key returns a canonical string: equal sets have equal keys and vice versa.
func (s Set) Key() string {
	buf := make([]byte, 0, len(s)*8)
	for _, r := range s {
		buf = strconv.AppendInt(buf, int64(r.Lo), 16)
		if r.Hi != r.Lo {
			buf = append(buf, '-')
			buf = strconv.AppendInt(buf, int64(r.Hi), 16)
		}
		buf = append(buf, ',')
	}
	return string(buf)
}

// Valid reports whether s is in canonical form (used by tests and assertions).
func (s Set) Valid() bool {
	for i, r := range s {
		if r.Lo < 0 || r.Hi > MaxRune || r.Lo > r.Hi {
			return false
		}
		if i > 0 && !(s[i-1].Hi+1 < r.Lo) {
			return false
		}
	}
	return true
}
