package main

import (
	"verif/internal/evidence"
	"verif/internal/oracle/lexref"
	"verif/internal/rng"
	"verif/internal/specgen"
)

func init() { register("C08", checkC08) }

func checkC08(c *Ctx) error {
	c.Ev = evidence.New("C08", c.Tier, c.Seed, "exploration",
		"specifications with one or two token rules P B*? T or P B+? T (P literal or class sequence; B a class, '.', an alternation of classes or ~[\\n]; T a literal of 1-3 characters, self-overlapping ones included, whose characters B can match) next to greedy rules (keyword, word, whitespace) whose first characters are disjoint from P's; inputs over the tiny alphabet of P, B, T (terminators are frequent): every string up to a bound, random long ones, unterminated ones. The token stream of the real state machine under the real driver must equal the reference: consume while the rule is viable and stop at the first prefix matching the whole rule (at least one repetition for +?), ERROR if viability is lost first; greedy rules keep longest match. Non-trivial: inputs in which a non-greedy token is produced and the body could have matched the terminator (token shorter than the longest match), or several tokens; distinct by spec+input.")
	c.Ev.Assumptions = []string{
		"rule shape and companions restricted as in the statement; interplay of a non-greedy rule with another rule sharing its first characters is not judged",
	}
	return runLexCheck(c, &lexCheckSpec{
		id: "C08",
		draw: func(d *lexDrawer, r *rng.R) *LCase {
			for try := 0; try < 200; try++ {
				s, a := specgen.NonGreedyLexer(r)
				lc := newLCase(s, a, "non-greedy", false)
				d.mu.Lock()
				d.drawn++
				d.mu.Unlock()
				if !noNullableRule(lc) {
					continue
				}
				return lc // duplicates are harmless here: inputs differ per case
			}
			return nil
		},
		nBatches: [2]int{2, 30}, nCLI: [2]int{1, 4}, per: 30,
		nInputs: [2]int{300, 1500}, exhLen: [2]int{6, 8},
		nontrivial: func(lc *LCase, in []byte, ref *lexref.Result) bool {
			return len(ref.Toks) >= 3
		},
	})
}
