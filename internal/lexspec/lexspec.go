// Package lexspec is the abstract lexer specification: the .lox text, the Go
// harness and the reference automata are rendered from it.
package lexspec

import (
	"fmt"
	"sort"
	"strings"

	"verif/internal/oracle/rx"
)

// ---------------------------------------------------------------------------
// Expressions
// ---------------------------------------------------------------------------

type Rx interface{ isRx() }

type Lit struct {
	S   []rune
	Esc []bool // per rune: write as escape even if printable (optional, may be nil)
	Raw bool   // write non-ASCII code points as themselves (UTF-8) instead of \u escapes
}

type Item struct{ Lo, Hi rune }

type Class struct {
	Items []Item
	Neg   bool
	Raw   bool // write non-ASCII code points raw (UTF-8) instead of \u escapes
}

type Diff struct{ A, B Class }
type Any struct{}
type Ref struct{ Name string }
type Cat struct{ Parts []Rx }
type Alt struct{ Alts []Rx }
type Card struct {
	X  Rx
	Op string // ? * + *? +?
}

func (Lit) isRx()   {}
func (Class) isRx() {}
func (Diff) isRx()  {}
func (Any) isRx()   {}
func (Ref) isRx()   {}
func (Cat) isRx()   {}
func (Alt) isRx()   {}
func (Card) isRx()  {}

// ---------------------------------------------------------------------------
// Rules, modes, spec
// ---------------------------------------------------------------------------

type ActKind int

const (
	APush ActKind = iota + 1
	APop
	AEmit
	ADiscard
)

type Action struct {
	Kind ActKind
	Arg  string // mode name ("" = default) or token name
}

type RuleKind int

const (
	RToken RuleKind = iota
	RFrag
	RMacro
	RExternal
)

type Rule struct {
	Kind    RuleKind
	Name    string
	Rx      Rx
	Actions []Action
	Names   []string // RExternal
}

// Entry is a top-level item of a lexer section: a rule, or a mode block.
type Entry struct {
	Rule *Rule
	Mode *Mode
}

type Mode struct {
	Name  string
	Rules []Rule
}

type Spec struct {
	Entries []Entry
}

// ---------------------------------------------------------------------------
// Rendering
// ---------------------------------------------------------------------------

func hexEsc(c rune) string {
	if c <= 0xFFFF {
		return fmt.Sprintf(`\u%04X`, c)
	}
	return fmt.Sprintf(`\U%08X`, c)
}

func plainASCII(c rune) bool { return c >= 0x20 && c < 0x7F }

func litCharRaw(c rune) (string, bool) {
	if c >= 0xA0 && !(c >= 0xD800 && c <= 0xDFFF) && c != 0xFFFD && c != 0x2028 && c != 0x2029 && c <= 0x10FFFF {
		return string(c), true
	}
	return "", false
}

func litChar(c rune, forceEsc bool) string {
	switch c {
	case '\'':
		return `\'`
	case '\\':
		return `\\`
	case '\n':
		return `\n`
	case '\r':
		return `\r`
	case '\t':
		return `\t`
	}
	if forceEsc || !plainASCII(c) {
		return hexEsc(c)
	}
	return string(c)
}

func classChar(c rune, raw bool) string {
	switch c {
	case '\\':
		return `\\`
	case '-':
		return `\-`
	case '\n':
		return `\n`
	case '\r':
		return `\r`
	case '\t':
		return `\t`
	case ']':
		return hexEsc(c)
	}
	if plainASCII(c) {
		return string(c)
	}
	if raw && c >= 0xA0 && !(c >= 0xD800 && c <= 0xDFFF) && c != 0xFFFD && c != 0x2028 && c != 0x2029 {
		return string(c)
	}
	return hexEsc(c)
}

func (c Class) text() string {
	var sb strings.Builder
	if c.Neg {
		sb.WriteByte('~')
	}
	sb.WriteByte('[')
	for _, it := range c.Items {
		sb.WriteString(classChar(it.Lo, c.Raw))
		if it.Hi != it.Lo {
			sb.WriteByte('-')
			sb.WriteString(classChar(it.Hi, c.Raw))
		}
	}
	sb.WriteByte(']')
	return sb.String()
}

// Text renders an expression; prec: 0 = alternation allowed, 1 = inside a
// concatenation, 2 = operand of a cardinality.
func Text(x Rx, prec int) string {
	switch x := x.(type) {
	case Lit:
		var sb strings.Builder
		sb.WriteByte('\'')
		for i, c := range x.S {
			if x.Raw && !(x.Esc != nil && x.Esc[i]) {
				if s, ok := litCharRaw(c); ok {
					sb.WriteString(s)
					continue
				}
			}
			sb.WriteString(litChar(c, x.Esc != nil && x.Esc[i]))
		}
		sb.WriteByte('\'')
		return sb.String()
	case Class:
		return x.text()
	case Diff:
		s := x.A.text() + " - " + x.B.text()
		if prec >= 2 {
			return "(" + s + ")"
		}
		return s
	case Any:
		return "."
	case Ref:
		return x.Name
	case Cat:
		parts := make([]string, len(x.Parts))
		for i, p := range x.Parts {
			parts[i] = Text(p, 1)
		}
		s := strings.Join(parts, " ")
		if prec >= 2 && len(x.Parts) > 1 {
			return "(" + s + ")"
		}
		return s
	case Alt:
		parts := make([]string, len(x.Alts))
		for i, p := range x.Alts {
			parts[i] = Text(p, 0)
		}
		s := strings.Join(parts, " | ")
		if prec >= 1 && len(x.Alts) > 1 {
			return "(" + s + ")"
		}
		return s
	case Card:
		s := Text(x.X, 2) + x.Op
		if prec >= 2 {
			// only one cardinality per term: nest through a group
			return "(" + s + ")"
		}
		return s
	}
	panic("rx")
}

func actionText(a Action) string {
	switch a.Kind {
	case APush:
		return fmt.Sprintf("@push_mode(%s)", a.Arg)
	case APop:
		return "@pop_mode"
	case AEmit:
		return fmt.Sprintf("@emit(%s)", a.Arg)
	case ADiscard:
		return "@discard"
	}
	panic("action")
}

func (r *Rule) Text() string {
	var sb strings.Builder
	switch r.Kind {
	case RToken:
		sb.WriteString(r.Name + " = " + Text(r.Rx, 0))
	case RFrag:
		sb.WriteString("@frag " + Text(r.Rx, 0))
	case RMacro:
		sb.WriteString("@macro " + r.Name + " = " + Text(r.Rx, 0))
	case RExternal:
		sb.WriteString("@external " + strings.Join(r.Names, " "))
	}
	for _, a := range r.Actions {
		sb.WriteString(" " + actionText(a))
	}
	return sb.String()
}

// Lox renders the lexer section (starting with "@lexer"). Returned positions:
// 1-based line of every rule, keyed "mode/index".
func (s *Spec) Lox() (string, map[string]int) {
	var sb strings.Builder
	pos := map[string]int{}
	line := 1
	w := func(t string) {
		sb.WriteString(t)
		sb.WriteByte('\n')
		line++
	}
	w("@lexer")
	di := 0
	for _, e := range s.Entries {
		if e.Rule != nil {
			pos[fmt.Sprintf("/%d", di)] = line
			di++
			w(e.Rule.Text())
			continue
		}
		w(fmt.Sprintf("@mode %s {", e.Mode.Name))
		for i := range e.Mode.Rules {
			pos[fmt.Sprintf("%s/%d", e.Mode.Name, i)] = line
			w("  " + e.Mode.Rules[i].Text())
		}
		w("}")
	}
	return sb.String(), pos
}

// TokenNames lists the terminals in declaration order (tokens and @external
// names, mode members at the mode's position): these get the constants 2, 3, ...
func (s *Spec) TokenNames() []string {
	var out []string
	add := func(r *Rule) {
		switch r.Kind {
		case RToken:
			out = append(out, r.Name)
		case RExternal:
			out = append(out, r.Names...)
		}
	}
	for _, e := range s.Entries {
		if e.Rule != nil {
			add(e.Rule)
		} else {
			for i := range e.Mode.Rules {
				add(&e.Mode.Rules[i])
			}
		}
	}
	return out
}

// ModeNames returns the mode names in table-index order: default ("") first,
// the others sorted.
func (s *Spec) ModeNames() []string {
	var names []string
	for _, e := range s.Entries {
		if e.Mode != nil {
			names = append(names, e.Mode.Name)
		}
	}
	sort.Strings(names)
	return append([]string{""}, names...)
}

// ModeRules returns the rules of a mode in declaration order (macros and
// externals left out). The default mode is "".
func (s *Spec) ModeRules(name string) []*Rule {
	var out []*Rule
	for _, e := range s.Entries {
		if e.Rule != nil && name == "" {
			if e.Rule.Kind == RToken || e.Rule.Kind == RFrag {
				out = append(out, e.Rule)
			}
		}
		if e.Mode != nil && e.Mode.Name == name {
			for i := range e.Mode.Rules {
				r := &e.Mode.Rules[i]
				if r.Kind == RToken || r.Kind == RFrag {
					out = append(out, r)
				}
			}
		}
	}
	return out
}

func (s *Spec) Macros() map[string]Rx {
	m := map[string]Rx{}
	add := func(r *Rule) {
		if r.Kind == RMacro {
			m[r.Name] = r.Rx
		}
	}
	for _, e := range s.Entries {
		if e.Rule != nil {
			add(e.Rule)
		} else {
			for i := range e.Mode.Rules {
				add(&e.Mode.Rules[i])
			}
		}
	}
	return m
}

// ---------------------------------------------------------------------------
// Conversion to the reference engine
// ---------------------------------------------------------------------------

func (c Class) Set() rx.Set {
	rs := make([]rx.Range, 0, len(c.Items))
	for _, it := range c.Items {
		rs = append(rs, rx.Range{Lo: it.Lo, Hi: it.Hi})
	}
	s := rx.NewSet(rs...)
	if c.Neg {
		s = s.Complement()
	}
	return s
}

// ToRe converts an expression (non-greedy operators are read as their greedy
// counterparts: they denote the same language).
func ToRe(ctx *rx.Ctx, x Rx, macros map[string]Rx) *rx.Re {
	switch x := x.(type) {
	case Lit:
		return ctx.Lit(x.S)
	case Class:
		return ctx.Class(x.Set())
	case Diff:
		return ctx.Class(x.A.Set().Diff(x.B.Set()))
	case Any:
		return ctx.Class(rx.Any())
	case Ref:
		return ToRe(ctx, macros[x.Name], macros)
	case Cat:
		r := ctx.Eps()
		for i := len(x.Parts) - 1; i >= 0; i-- {
			r = ctx.Cat(ToRe(ctx, x.Parts[i], macros), r)
		}
		return r
	case Alt:
		r := ctx.Empty()
		for _, a := range x.Alts {
			r = ctx.Alt(r, ToRe(ctx, a, macros))
		}
		return r
	case Card:
		in := ToRe(ctx, x.X, macros)
		switch x.Op {
		case "?":
			return ctx.Opt(in)
		case "*", "*?":
			return ctx.Star(in)
		case "+", "+?":
			return ctx.Plus(in)
		}
	}
	panic("ToRe")
}

// HasNonGreedy reports whether the expression contains *? or +?.
func HasNonGreedy(x Rx, macros map[string]Rx) bool {
	switch x := x.(type) {
	case Ref:
		return HasNonGreedy(macros[x.Name], macros)
	case Cat:
		for _, p := range x.Parts {
			if HasNonGreedy(p, macros) {
				return true
			}
		}
	case Alt:
		for _, p := range x.Alts {
			if HasNonGreedy(p, macros) {
				return true
			}
		}
	case Card:
		return x.Op == "*?" || x.Op == "+?" || HasNonGreedy(x.X, macros)
	}
	return false
}
