package lexspec

import (
	"fmt"
	"sort"
	"strings"

	"verif/internal/oracle/lexref"
	"verif/internal/oracle/rx"
)

// Compile builds the reference tokenizer. Token types follow the documented
// numbering: EOF 0, ERROR 1, then tokens and @external names in declaration
// order. Mode indices: default 0, then the other modes sorted by name.
func (s *Spec) Compile(ctx *rx.Ctx) *lexref.Lexer {
	tokType := map[string]int{}
	for i, n := range s.TokenNames() {
		tokType[n] = i + 2
	}
	modeIdx := map[string]int{}
	names := s.ModeNames()
	for i, n := range names {
		modeIdx[n] = i
	}
	macros := s.Macros()
	lx := &lexref.Lexer{Ctx: ctx}
	for _, mn := range names {
		var m lexref.Mode
		for _, r := range s.ModeRules(mn) {
			act := lexref.Act{Push: -1, Emit: -1}
			for _, a := range r.Actions {
				switch a.Kind {
				case APush:
					if act.Push < 0 {
						act.Push = modeIdx[a.Arg]
					}
					act.Ops = append(act.Ops, lexref.ModeOp{Push: modeIdx[a.Arg]})
				case APop:
					act.Pop = true
					act.Ops = append(act.Ops, lexref.ModeOp{Push: -1})
				case AEmit:
					act.Emit = tokType[a.Arg]
				case ADiscard:
					act.Discard = true
				}
			}
			if r.Kind == RToken {
				act.Emit = tokType[r.Name]
			}
			m.Rules = append(m.Rules, lexref.Rule{
				Re:        ToRe(ctx, r.Rx, macros),
				NonGreedy: HasNonGreedy(r.Rx, macros),
				Act:       act,
			})
		}
		lx.Modes = append(lx.Modes, m)
	}
	return lx
}

// Files renders the package files for the lexer harness: the specification
// (lexer section plus a minimal parser section) and harness.go.
func (s *Spec) Files() (files map[string]string, internals, stub string) {
	lox, _ := s.Lox()
	lox += "\n@parser\n@start s = @empty\n"
	names := append([]string{"EOF", "ERROR"}, s.TokenNames()...)
	sorted := append([]string(nil), names...)
	sort.Strings(sorted)
	var sb strings.Builder
	sb.WriteString("package PKGNAME\n\nimport (\n\t\"batch/hc\"\n\n\t\"github.com/dcaiafa/loxlex/simplelexer\"\n)\n\n")
	sb.WriteString("type Token = simplelexer.Token\n\ntype P struct{ lox }\n\nfunc (p *P) on_s() int { return 0 }\n\n")
	sb.WriteString("var Entry = &hc.Entry{\n\tConsts: map[string]int{")
	for i, n := range sorted {
		if i > 0 {
			sb.WriteString(", ")
		}
		fmt.Fprintf(&sb, "%q: %s", n, n)
	}
	sb.WriteString("},\n\tTokStr: _TokenToString,\n")
	sb.WriteString("\tLex: &hc.LexEntry{New: func() (simplelexer.StateMachine, func() hc.LexCfg) {\n\t\tsm := new(_LexerStateMachine)\n\t\treturn sm, lexTap(sm)\n\t}},\n}\n")
	files = map[string]string{"l.lox": lox, "harness.go": sb.String()}
	internals = `package PKGNAME

import "batch/hc"

// lexTap reads the unexported state of the generated state machine. Written
// after lox has run.
func lexTap(sm *_LexerStateMachine) func() hc.LexCfg {
	idx := func(m []uint32) int {
		if m == nil {
			return 0
		}
		for i, t := range _lexerModes {
			if len(t) > 0 && len(m) > 0 && &t[0] == &m[0] {
				return i
			}
		}
		return -1
	}
	return func() hc.LexCfg {
		c := hc.LexCfg{State: sm.state, Mode: idx(sm.mode)}
		for _, m := range sm.modeStack {
			c.Stack = append(c.Stack, idx(m))
		}
		return c
	}
}
`
	stub = `package PKGNAME

import "batch/hc"

func lexTap(sm *_LexerStateMachine) func() hc.LexCfg { return nil }
`
	return files, internals, stub
}
