package lalr

import (
	"errors"
	"fmt"
	"math/rand"
	"reflect"
	"sort"
	"strings"
	"testing"
)

// ---------------------------------------------------------------------------
// Helpers to write grammars down.

type named struct {
	g    Grammar
	sym  map[string]int // name -> encoded symbol
	name []string       // encoded symbol -> name
}

// gram builds a grammar from names. terms are the terminals 1..; nts the
// nonterminals, the first one being the start symbol. A rule is
// "lhs: sym sym ..." (nothing after the colon for epsilon).
func gram(t testing.TB, terms, nts string, rules ...string) *named {
	t.Helper()
	n := &named{sym: map[string]int{}}
	n.name = append(n.name, "$")
	n.name = append(n.name, strings.Fields(terms)...)
	n.g.NumT = len(n.name)
	n.name = append(n.name, strings.Fields(nts)...)
	n.g.NumN = len(n.name) - n.g.NumT
	for i, s := range n.name {
		if _, dup := n.sym[s]; dup {
			t.Fatalf("duplicate symbol %q", s)
		}
		n.sym[s] = i
	}
	for _, r := range rules {
		lhs, rhs, ok := strings.Cut(r, ":")
		if !ok {
			t.Fatalf("bad rule %q", r)
		}
		l, ok := n.sym[strings.TrimSpace(lhs)]
		if !ok || l < n.g.NumT {
			t.Fatalf("bad LHS in rule %q", r)
		}
		n.g.Prods = append(n.g.Prods, Prod{LHS: l - n.g.NumT, RHS: n.word(t, rhs)})
	}
	return n
}

func (n *named) word(t testing.TB, s string) []int {
	t.Helper()
	w := []int{}
	for _, f := range strings.Fields(s) {
		x, ok := n.sym[f]
		if !ok {
			t.Fatalf("unknown symbol %q", f)
		}
		w = append(w, x)
	}
	return w
}

func mustBuild(t testing.TB, g Grammar) *Table {
	t.Helper()
	tab, err := Build(g, 0)
	if err != nil {
		t.Fatalf("Build: %v", err)
	}
	checkTable(t, tab, false)
	return tab
}

func findState(t testing.TB, tab *Table, kernel ...Item) int {
	t.Helper()
	found := -1
	for i, s := range tab.States {
		if reflect.DeepEqual(s.Kernel, kernel) {
			if found >= 0 {
				t.Fatalf("kernel %v appears twice", kernel)
			}
			found = i
		}
	}
	if found < 0 {
		t.Fatalf("no state with kernel %v", kernel)
	}
	return found
}

func expectParse(t testing.TB, n *named, tab *Table, w string, want bool) []int {
	t.Helper()
	acc, reds, err := tab.ParseErr(n.word(t, w), DefaultPick)
	if err != nil {
		t.Fatalf("parse %q: %v", w, err)
	}
	if acc != want {
		t.Fatalf("parse %q: accepted = %v, want %v", w, acc, want)
	}
	if acc {
		if err := checkRightmost(n.g, n.word(t, w), reds); err != nil {
			t.Fatalf("parse %q: %v", w, err)
		}
	}
	return reds
}

// checkTable checks the structural invariants of a table. If canonical is set
// the table comes from BuildCanonical (kernels need not be distinct).
func checkTable(t testing.TB, tab *Table, canonical bool) {
	t.Helper()
	g := tab.G
	rhs := func(p int) []int {
		if p == -1 {
			return []int{g.NumT + g.Start}
		}
		return g.Prods[p].RHS
	}
	if len(tab.States) == 0 {
		t.Fatalf("no states")
	}
	if !reflect.DeepEqual(tab.States[0].Kernel, []Item{{-1, 0}}) {
		t.Fatalf("state 0 kernel = %v", tab.States[0].Kernel)
	}
	if !reflect.DeepEqual(tab.States[0].KernelLA, [][]int{{0}}) {
		t.Fatalf("state 0 kernel lookahead = %v", tab.States[0].KernelLA)
	}
	if canonical && tab.LR1States != len(tab.States) {
		t.Fatalf("LR1States = %d, states = %d", tab.LR1States, len(tab.States))
	}
	if tab.LR1States < len(tab.States) {
		t.Fatalf("LR1States = %d < %d states", tab.LR1States, len(tab.States))
	}
	seen := map[string]bool{}
	nconf := 0
	for i, s := range tab.States {
		if len(s.Kernel) == 0 || len(s.Kernel) != len(s.KernelLA) {
			t.Fatalf("state %d: bad kernel %v / %v", i, s.Kernel, s.KernelLA)
		}
		for j, it := range s.Kernel {
			if j > 0 {
				prev := s.Kernel[j-1]
				if prev.Prod > it.Prod || prev.Prod == it.Prod && prev.Dot >= it.Dot {
					t.Fatalf("state %d: kernel not sorted: %v", i, s.Kernel)
				}
			}
			if it.Prod < -1 || it.Prod >= len(g.Prods) || it.Dot < 0 || it.Dot > len(rhs(it.Prod)) {
				t.Fatalf("state %d: bad item %v", i, it)
			}
			if i > 0 && it.Dot == 0 {
				t.Fatalf("state %d: non-kernel item %v in kernel", i, it)
			}
			if len(s.KernelLA[j]) == 0 || !sort.IntsAreSorted(s.KernelLA[j]) {
				t.Fatalf("state %d: bad lookahead %v", i, s.KernelLA[j])
			}
		}
		key := fmt.Sprint(s.Kernel)
		if canonical {
			key += fmt.Sprint(s.KernelLA)
		}
		if seen[key] {
			t.Fatalf("state %d: duplicate state %s", i, key)
		}
		seen[key] = true
		// every transition leads to a state whose kernel items have the
		// symbol just before the dot
		checkTarget := func(sym, to int) {
			if to <= 0 || to >= len(tab.States) {
				t.Fatalf("state %d: bad target %d on %d", i, to, sym)
			}
			for _, it := range tab.States[to].Kernel {
				if it.Dot == 0 || rhs(it.Prod)[it.Dot-1] != sym {
					t.Fatalf("state %d --%d--> %d: kernel item %v", i, sym, to, it)
				}
			}
		}
		for term, c := range s.Cells {
			if term < 0 || term >= g.NumT || c == nil || c.Count() == 0 {
				t.Fatalf("state %d: bad cell on %d: %+v", i, term, c)
			}
			if (c.Shift >= 0) != (len(c.ShiftProds) > 0) {
				t.Fatalf("state %d on %d: Shift = %d, ShiftProds = %v", i, term, c.Shift, c.ShiftProds)
			}
			if c.Shift < -1 {
				t.Fatalf("state %d on %d: Shift = %d", i, term, c.Shift)
			}
			if c.Shift >= 0 {
				checkTarget(term, c.Shift)
			}
			for _, l := range [][]int{c.ShiftProds, c.Reduces} {
				for k, p := range l {
					if p < 0 || p >= len(g.Prods) || k > 0 && l[k-1] >= p {
						t.Fatalf("state %d on %d: bad production list %v", i, term, l)
					}
				}
			}
			for _, p := range c.ShiftProds {
				ok := false
				for _, x := range g.Prods[p].RHS {
					ok = ok || x == term
				}
				if !ok {
					t.Fatalf("state %d on %d: ShiftProds %v: production %d has no such terminal", i, term, c.ShiftProds, p)
				}
			}
			if c.Accept && (term != 0 || !reflect.DeepEqual(s.Kernel[0], Item{-1, 1})) {
				t.Fatalf("state %d on %d: unexpected accept", i, term)
			}
			if term == 0 && c.Shift >= 0 {
				t.Fatalf("state %d: shift on EOF", i)
			}
			if c.Count() > 1 {
				nconf++
			}
		}
		for nt, to := range s.Goto {
			if nt < 0 || nt >= g.NumN {
				t.Fatalf("state %d: goto on %d", i, nt)
			}
			checkTarget(g.NumT+nt, to)
		}
	}
	conf := tab.Conflicts()
	if len(conf) != nconf {
		t.Fatalf("Conflicts() has %d entries, counted %d", len(conf), nconf)
	}
	for k, c := range conf {
		if tab.States[c[0]].Cells[c[1]].Count() < 2 {
			t.Fatalf("Conflicts()[%d] = %v is not a conflict", k, c)
		}
		if k > 0 && (conf[k-1][0] > c[0] || conf[k-1][0] == c[0] && conf[k-1][1] >= c[1]) {
			t.Fatalf("Conflicts() not sorted: %v", conf)
		}
	}
	// BFS numbering, symbols in increasing encoded order; all states reachable.
	next := 1
	for i := 0; i < len(tab.States); i++ {
		if i >= next {
			t.Fatalf("state %d is not reachable", i)
		}
		s := tab.States[i]
		for sym := 0; sym < g.NumT+g.NumN; sym++ {
			to := -1
			if sym < g.NumT {
				if c := s.Cells[sym]; c != nil {
					to = c.Shift
				}
			} else if x, ok := s.Goto[sym-g.NumT]; ok {
				to = x
			}
			if to < 0 {
				continue
			}
			if to > next {
				t.Fatalf("numbering is not BFS: state %d --%d--> %d, next unused number is %d", i, sym, to, next)
			}
			if to == next {
				next++
			}
		}
	}
}

// checkRightmost checks that the reversed reduction sequence is a rightmost
// derivation of w from the start symbol.
func checkRightmost(g Grammar, w []int, reds []int) error {
	form := []int{g.NumT + g.Start}
	for i := len(reds) - 1; i >= 0; i-- {
		p := g.Prods[reds[i]]
		j := len(form) - 1
		for j >= 0 && form[j] < g.NumT {
			j--
		}
		if j < 0 {
			return fmt.Errorf("reductions %v: step %d: no nonterminal left in %v", reds, i, form)
		}
		if form[j]-g.NumT != p.LHS {
			return fmt.Errorf("reductions %v: step %d: rightmost nonterminal of %v is not %d", reds, i, form, p.LHS)
		}
		nf := append([]int{}, form[:j]...)
		nf = append(nf, p.RHS...)
		nf = append(nf, form[j+1:]...)
		form = nf
	}
	if len(form) != len(w) {
		return fmt.Errorf("reductions %v derive %v, want %v", reds, form, w)
	}
	for i := range w {
		if form[i] != w[i] {
			return fmt.Errorf("reductions %v derive %v, want %v", reds, form, w)
		}
	}
	return nil
}

// ---------------------------------------------------------------------------
// Textbook examples.

func TestDragon455(t *testing.T) {
	n := gram(t, "c d", "S C",
		"S: C C", // 0
		"C: c C", // 1
		"C: d",   // 2
	)
	tab := mustBuild(t, n.g)
	if tab.LR1States != 10 || len(tab.States) != 7 {
		t.Fatalf("got %d LR(1) states, %d LALR states; want 10, 7", tab.LR1States, len(tab.States))
	}
	if c := tab.Conflicts(); len(c) != 0 {
		t.Fatalf("conflicts: %v", c)
	}
	ok, err := IsLR1(n.g, 0)
	if err != nil || !ok {
		t.Fatalf("IsLR1 = %v, %v", ok, err)
	}
	// I47 of the book: C -> d . with lookaheads c, d, $.
	s := tab.States[findState(t, tab, Item{2, 1})]
	if !reflect.DeepEqual(s.KernelLA, [][]int{{0, 1, 2}}) {
		t.Errorf("lookaheads of [C -> d .] = %v, want [[0 1 2]]", s.KernelLA)
	}
	for term := 0; term < 3; term++ {
		if c := s.Cells[term]; c == nil || !reflect.DeepEqual(*c, Cell{Shift: -1, Reduces: []int{2}}) {
			t.Errorf("cell of [C -> d .] on %d = %+v", term, c)
		}
	}
	// I36: C -> c . C, lookaheads c, d, $.
	s = tab.States[findState(t, tab, Item{1, 1})]
	if !reflect.DeepEqual(s.KernelLA, [][]int{{0, 1, 2}}) {
		t.Errorf("lookaheads of [C -> c . C] = %v", s.KernelLA)
	}
	// I5: S -> C C . on $ only.
	s = tab.States[findState(t, tab, Item{0, 2})]
	if len(s.Cells) != 1 || !reflect.DeepEqual(s.Cells[0], &Cell{Shift: -1, Reduces: []int{0}}) {
		t.Errorf("cells of [S -> C C .] = %v", s.Cells)
	}
	// accept
	s = tab.States[findState(t, tab, Item{-1, 1})]
	if len(s.Cells) != 1 || !reflect.DeepEqual(s.Cells[0], &Cell{Shift: -1, Accept: true}) {
		t.Errorf("cells of [S' -> S .] = %v", s.Cells)
	}
	// BFS numbering: 0 --c--> 1, 0 --d--> 2, 0 --S--> 3, 0 --C--> 4.
	s0 := tab.States[0]
	if s0.Cells[1].Shift != 1 || s0.Cells[2].Shift != 2 || s0.Goto[0] != 3 || s0.Goto[1] != 4 {
		t.Errorf("numbering of the successors of state 0: %+v %+v %v", s0.Cells[1], s0.Cells[2], s0.Goto)
	}
	if got := expectParse(t, n, tab, "c d d", true); !reflect.DeepEqual(got, []int{2, 1, 2, 0}) {
		t.Errorf("reductions of cdd = %v", got)
	}
	expectParse(t, n, tab, "d d", true)
	expectParse(t, n, tab, "c c c d c d", true)
	expectParse(t, n, tab, "", false)
	expectParse(t, n, tab, "d", false)
	expectParse(t, n, tab, "c d", false)
	expectParse(t, n, tab, "d d d", false)
	expectParse(t, n, tab, "d d c", false)

	can, err := BuildCanonical(n.g, 0)
	if err != nil {
		t.Fatal(err)
	}
	checkTable(t, can, true)
	if len(can.States) != 10 {
		t.Fatalf("canonical table has %d states", len(can.States))
	}
	expectParse(t, n, can, "c d d", true)
	expectParse(t, n, can, "c d", false)
}

func TestLALRNotSLR(t *testing.T) {
	// Dragon book example 4.48 / 4.61.
	n := gram(t, "= * id", "S L R",
		"S: L = R", // 0
		"S: R",     // 1
		"L: * R",   // 2
		"L: id",    // 3
		"R: L",     // 4
	)
	tab := mustBuild(t, n.g)
	if len(tab.States) != 10 || tab.LR1States != 14 {
		t.Fatalf("got %d LALR states, %d LR(1) states; want 10, 14", len(tab.States), tab.LR1States)
	}
	if c := tab.Conflicts(); len(c) != 0 {
		t.Fatalf("conflicts: %v", c)
	}
	// I2 = {S -> L . = R, R -> L .}: SLR has a shift/reduce conflict on '='
	// because '=' is in FOLLOW(R); LALR reduces R -> L on $ only.
	eq := n.sym["="]
	f := newFF(n.g)
	if !f.follow[2][eq] {
		t.Fatalf("'=' should be in FOLLOW(R) = %v", f.follow[2])
	}
	s := tab.States[findState(t, tab, Item{0, 1}, Item{4, 1})]
	if !reflect.DeepEqual(s.KernelLA, [][]int{{0}, {0}}) {
		t.Errorf("lookaheads of I2 = %v", s.KernelLA)
	}
	if c := s.Cells[eq]; c == nil || c.Shift < 0 || len(c.Reduces) != 0 || !reflect.DeepEqual(c.ShiftProds, []int{0}) {
		t.Errorf("I2 on '=': %+v", c)
	}
	if c := s.Cells[0]; c == nil || !reflect.DeepEqual(*c, Cell{Shift: -1, Reduces: []int{4}}) {
		t.Errorf("I2 on $: %+v", c)
	}
	if len(s.Cells) != 2 {
		t.Errorf("I2 cells: %v", s.Cells)
	}
	// Figure 4.47: L -> id . has lookaheads = and $.
	s = tab.States[findState(t, tab, Item{3, 1})]
	if !reflect.DeepEqual(s.KernelLA, [][]int{{0, eq}}) {
		t.Errorf("lookaheads of [L -> id .] = %v", s.KernelLA)
	}
	expectParse(t, n, tab, "id", true)
	expectParse(t, n, tab, "* id = * * id", true)
	expectParse(t, n, tab, "id = id", true)
	expectParse(t, n, tab, "id = id = id", false)
	expectParse(t, n, tab, "= id", false)
	expectParse(t, n, tab, "id =", false)
}

func TestLR1NotLALR(t *testing.T) {
	// Dragon book example 4.58.
	n := gram(t, "a b c d e", "S A B",
		"S: a A d", // 0
		"S: b B d", // 1
		"S: a B e", // 2
		"S: b A e", // 3
		"A: c",     // 4
		"B: c",     // 5
	)
	ok, err := IsLR1(n.g, 0)
	if err != nil || !ok {
		t.Fatalf("IsLR1 = %v, %v; want true", ok, err)
	}
	tab := mustBuild(t, n.g)
	if tab.LR1States != len(tab.States)+1 {
		t.Errorf("LR(1) states = %d, LALR states = %d", tab.LR1States, len(tab.States))
	}
	st := findState(t, tab, Item{4, 1}, Item{5, 1})
	d, e := n.sym["d"], n.sym["e"]
	if got, want := tab.Conflicts(), [][2]int{{st, d}, {st, e}}; !reflect.DeepEqual(got, want) {
		t.Fatalf("conflicts = %v, want %v", got, want)
	}
	for _, term := range []int{d, e} {
		if c := tab.States[st].Cells[term]; !reflect.DeepEqual(*c, Cell{Shift: -1, Reduces: []int{4, 5}}) {
			t.Errorf("cell on %d = %+v", term, c)
		}
	}
	if !reflect.DeepEqual(tab.States[st].KernelLA, [][]int{{d, e}, {d, e}}) {
		t.Errorf("lookaheads = %v", tab.States[st].KernelLA)
	}
	// DefaultPick refuses the conflict ...
	acc, _, err := tab.ParseErr(n.word(t, "a c d"), DefaultPick)
	if acc || err == nil {
		t.Errorf("parse through a conflict with DefaultPick: accepted = %v, err = %v", acc, err)
	}
	if acc, _ := tab.Parse(n.word(t, "a c d"), DefaultPick); acc {
		t.Errorf("Parse accepted through a conflict")
	}
	// ... the canonical table has none.
	can, err := BuildCanonical(n.g, 0)
	if err != nil {
		t.Fatal(err)
	}
	checkTable(t, can, true)
	for _, w := range []string{"a c d", "b c d", "a c e", "b c e"} {
		expectParse(t, n, can, w, true)
	}
	if got := expectParse(t, n, can, "b c e", true); !reflect.DeepEqual(got, []int{4, 3}) {
		t.Errorf("reductions = %v", got)
	}
	expectParse(t, n, can, "a c", false)
	expectParse(t, n, can, "c d", false)
}

func TestAmbiguousExpr(t *testing.T) {
	n := gram(t, "+ * id", "E",
		"E: E + E", // 0
		"E: E * E", // 1
		"E: id",    // 2
	)
	tab := mustBuild(t, n.g)
	plus, star := n.sym["+"], n.sym["*"]
	afterPlus := findState(t, tab, Item{0, 1}, Item{0, 3}, Item{1, 1})
	afterStar := findState(t, tab, Item{0, 1}, Item{1, 1}, Item{1, 3})
	want := [][2]int{{afterPlus, plus}, {afterPlus, star}, {afterStar, plus}, {afterStar, star}}
	if afterPlus > afterStar {
		want = [][2]int{want[2], want[3], want[0], want[1]}
	}
	if got := tab.Conflicts(); !reflect.DeepEqual(got, want) {
		t.Fatalf("conflicts = %v, want %v", got, want)
	}
	for _, tc := range []struct {
		state, term, shiftProd, reduce int
	}{
		{afterPlus, plus, 0, 0},
		{afterPlus, star, 1, 0},
		{afterStar, plus, 0, 1},
		{afterStar, star, 1, 1},
	} {
		c := tab.States[tc.state].Cells[tc.term]
		if c.Shift < 0 || c.Accept || c.Count() != 2 ||
			!reflect.DeepEqual(c.ShiftProds, []int{tc.shiftProd}) ||
			!reflect.DeepEqual(c.Reduces, []int{tc.reduce}) {
			t.Errorf("state %d on %d: %+v, want shift prods [%d], reduces [%d]", tc.state, tc.term, c, tc.shiftProd, tc.reduce)
		}
	}
	if ok, _ := IsLR1(n.g, 0); ok {
		t.Errorf("ambiguous grammar reported LR(1)")
	}
	// Usual precedences: * binds tighter, both left associative.
	pick := func(state, term int, c *Cell) (bool, int, bool) {
		if c.Count() == 1 {
			return DefaultPick(state, term, c)
		}
		if c.Reduces[0] == 0 && term == star {
			return true, -1, true
		}
		return false, c.Reduces[0], true
	}
	w := n.word(t, "id + id * id + id")
	acc, reds, err := tab.ParseErr(w, pick)
	if !acc || err != nil {
		t.Fatalf("parse: %v %v", acc, err)
	}
	if want := []int{2, 2, 2, 1, 0, 2, 0}; !reflect.DeepEqual(reds, want) {
		t.Errorf("reductions = %v, want %v", reds, want)
	}
	if err := checkRightmost(n.g, w, reds); err != nil {
		t.Error(err)
	}
}

func TestDanglingElse(t *testing.T) {
	n := gram(t, "i e a", "S",
		"S: i S",     // 0
		"S: i S e S", // 1
		"S: a",       // 2
	)
	tab := mustBuild(t, n.g)
	st := findState(t, tab, Item{0, 2}, Item{1, 2})
	e := n.sym["e"]
	if got, want := tab.Conflicts(), [][2]int{{st, e}}; !reflect.DeepEqual(got, want) {
		t.Fatalf("conflicts = %v, want %v", got, want)
	}
	c := tab.States[st].Cells[e]
	if c.Shift < 0 || !reflect.DeepEqual(c.ShiftProds, []int{1}) || !reflect.DeepEqual(c.Reduces, []int{0}) || c.Accept {
		t.Fatalf("cell = %+v", c)
	}
	if c := tab.States[st].Cells[0]; !reflect.DeepEqual(*c, Cell{Shift: -1, Reduces: []int{0}}) {
		t.Fatalf("cell on $ = %+v", c)
	}
	preferShift := func(state, term int, c *Cell) (bool, int, bool) {
		if c.Shift >= 0 {
			return true, -1, true
		}
		return DefaultPick(state, term, c)
	}
	// The other reading (else belongs to the outer if): reduce at the first
	// conflict, shift at the second. Always reducing is a syntax error.
	nconf := 0
	reduceFirst := func(state, term int, c *Cell) (bool, int, bool) {
		if c.Count() > 1 {
			nconf++
			if nconf == 1 {
				return false, c.Reduces[0], true
			}
			return true, -1, true
		}
		return DefaultPick(state, term, c)
	}
	alwaysReduce := func(state, term int, c *Cell) (bool, int, bool) {
		if len(c.Reduces) > 0 {
			return false, c.Reduces[0], true
		}
		return DefaultPick(state, term, c)
	}
	w := n.word(t, "i i a e a")
	acc, reds := tab.Parse(w, preferShift)
	if !acc || !reflect.DeepEqual(reds, []int{2, 2, 1, 0}) {
		t.Errorf("prefer shift: %v %v", acc, reds)
	}
	if err := checkRightmost(n.g, w, reds); err != nil {
		t.Error(err)
	}
	acc, reds = tab.Parse(w, reduceFirst)
	if !acc || nconf != 2 || !reflect.DeepEqual(reds, []int{2, 0, 2, 1}) {
		t.Errorf("reduce first: %v %v (%d conflicts met)", acc, reds, nconf)
	}
	if err := checkRightmost(n.g, w, reds); err != nil {
		t.Error(err)
	}
	if acc, reds, err := tab.ParseErr(w, alwaysReduce); acc || err != nil || !reflect.DeepEqual(reds, []int{2, 0, 0}) {
		t.Errorf("always reduce: %v %v %v", acc, reds, err)
	}
	if acc, _ := tab.Parse(n.word(t, "i a e"), preferShift); acc {
		t.Errorf("accepted 'i a e'")
	}
}

func TestNullableAB(t *testing.T) {
	n := gram(t, "a b", "S A B",
		"S: A B", // 0
		"A: a",   // 1
		"A:",     // 2
		"B: b",   // 3
		"B:",     // 4
	)
	tab := mustBuild(t, n.g)
	if c := tab.Conflicts(); len(c) != 0 {
		t.Fatalf("conflicts: %v", c)
	}
	// state 0: A -> . reduced on b and $, shift on a
	s0 := tab.States[0]
	a, b := n.sym["a"], n.sym["b"]
	if !reflect.DeepEqual(*s0.Cells[0], Cell{Shift: -1, Reduces: []int{2}}) ||
		!reflect.DeepEqual(*s0.Cells[b], Cell{Shift: -1, Reduces: []int{2}}) ||
		s0.Cells[a].Shift < 0 || !reflect.DeepEqual(s0.Cells[a].ShiftProds, []int{1}) || len(s0.Cells) != 3 {
		t.Errorf("state 0 cells: %+v", s0.Cells)
	}
	for w, reds := range map[string][]int{
		"":    {2, 4, 0},
		"a":   {1, 4, 0},
		"b":   {2, 3, 0},
		"a b": {1, 3, 0},
	} {
		if got := expectParse(t, n, tab, w, true); !reflect.DeepEqual(got, reds) {
			t.Errorf("reductions of %q = %v, want %v", w, got, reds)
		}
	}
	for _, w := range []string{"b a", "a a", "b b", "a b a", "a b b"} {
		expectParse(t, n, tab, w, false)
	}
}

func TestOptGrammar(t *testing.T) {
	n := gram(t, "A K J O", "s a m opt",
		"s: a m",   // 0
		"a: A",     // 1
		"m: opt K", // 2
		"m: opt J", // 3
		"opt: O",   // 4
		"opt:",     // 5
	)
	tab := mustBuild(t, n.g)
	if c := tab.Conflicts(); len(c) != 0 {
		t.Fatalf("conflicts: %v", c)
	}
	if ok, err := IsLR1(n.g, 0); !ok || err != nil {
		t.Fatalf("IsLR1 = %v, %v", ok, err)
	}
	for w, reds := range map[string][]int{
		"A J":   {1, 5, 3, 0},
		"A K":   {1, 5, 2, 0},
		"A O J": {1, 4, 3, 0},
		"A O K": {1, 4, 2, 0},
	} {
		if got := expectParse(t, n, tab, w, true); !reflect.DeepEqual(got, reds) {
			t.Errorf("reductions of %q = %v, want %v", w, got, reds)
		}
	}
	for _, w := range []string{"", "A", "A O", "J", "O J", "A O O J", "A J K", "A K J", "A A J"} {
		expectParse(t, n, tab, w, false)
	}
	// The state after "a": opt -> . is reduced on K and J only.
	s := tab.States[findState(t, tab, Item{0, 1})]
	K, J, O := n.sym["K"], n.sym["J"], n.sym["O"]
	if len(s.Cells) != 3 ||
		!reflect.DeepEqual(*s.Cells[K], Cell{Shift: -1, Reduces: []int{5}}) ||
		!reflect.DeepEqual(*s.Cells[J], Cell{Shift: -1, Reduces: []int{5}}) ||
		s.Cells[O].Shift < 0 {
		t.Errorf("cells after 'a': %+v", s.Cells)
	}
}

func TestLeftRecursiveNullable(t *testing.T) {
	n := gram(t, "x", "L",
		"L: L x", // 0
		"L:",     // 1
	)
	tab := mustBuild(t, n.g)
	if c := tab.Conflicts(); len(c) != 0 {
		t.Fatalf("conflicts: %v", c)
	}
	if len(tab.States) != 3 {
		t.Errorf("%d states, want 3", len(tab.States))
	}
	// state 1 = {S' -> L ., L -> L . x}
	s := tab.States[findState(t, tab, Item{-1, 1}, Item{0, 1})]
	if !reflect.DeepEqual(s.KernelLA, [][]int{{0}, {0, 1}}) {
		t.Errorf("lookaheads = %v", s.KernelLA)
	}
	for k := 0; k < 8; k++ {
		w := strings.Repeat("x ", k)
		reds := expectParse(t, n, tab, w, true)
		want := []int{1}
		for i := 0; i < k; i++ {
			want = append(want, 0)
		}
		if !reflect.DeepEqual(reds, want) {
			t.Errorf("reductions of x^%d = %v", k, reds)
		}
	}
}

func TestNullableMisc(t *testing.T) {
	// Everything nullable, right recursion, epsilon in the middle.
	n := gram(t, "a b c", "S A B C",
		"S: A B C", // 0
		"A: a A",   // 1
		"A:",       // 2
		"B: b",     // 3
		"B: C",     // 4  (conflicts: B -> C with C nullable vs. B C)
		"C: c",     // 5
		"C:",       // 6
	)
	tab := mustBuild(t, n.g)
	// "" can be derived with B -> C -> eps: grammar is unambiguous? No:
	// "c" = B->C->c, C->eps  or B->C->eps, C->c. So there must be conflicts.
	if len(tab.Conflicts()) == 0 {
		t.Errorf("ambiguous nullable grammar without conflicts")
	}
	n = gram(t, "a b c", "S A B C",
		"S: A B C", // 0
		"A: a A",   // 1
		"A:",       // 2
		"B: b B",   // 3
		"B:",       // 4
		"C: c",     // 5
		"C:",       // 6
	)
	tab = mustBuild(t, n.g)
	if c := tab.Conflicts(); len(c) != 0 {
		t.Fatalf("conflicts: %v", c)
	}
	for _, w := range []string{"", "a", "b", "c", "a a b c", "a c", "b b", "a a a b b b c"} {
		expectParse(t, n, tab, w, true)
	}
	for _, w := range []string{"c c", "b a", "c a", "c b", "a b c a"} {
		expectParse(t, n, tab, w, false)
	}
	if got := expectParse(t, n, tab, "", true); !reflect.DeepEqual(got, []int{2, 4, 6, 0}) {
		t.Errorf("reductions of the empty word = %v", got)
	}
}

func TestUselessSymbols(t *testing.T) {
	// U has no productions, V is unproductive (V -> V a), W is unreachable.
	n := gram(t, "a b", "S U V W",
		"S: a",     // 0
		"S: U b",   // 1
		"S: V",     // 2
		"V: V a",   // 3
		"W: b W a", // 4
		"S: a U b", // 5
	)
	tab := mustBuild(t, n.g)
	if c := tab.Conflicts(); len(c) != 0 {
		t.Fatalf("conflicts: %v", c)
	}
	expectParse(t, n, tab, "a", true)
	for _, w := range []string{"", "b", "a b", "a a", "b a"} {
		expectParse(t, n, tab, w, false)
	}
}

func TestFirst(t *testing.T) {
	// Dragon book grammar (4.28).
	n := gram(t, "+ * ( ) id", "E E' T T' F",
		"E: T E'",
		"E': + T E'",
		"E':",
		"T: F T'",
		"T': * F T'",
		"T':",
		"F: ( E )",
		"F: id",
	)
	for _, tc := range []struct {
		syms     string
		first    string
		nullable bool
	}{
		{"", "", true},
		{"F", "( id", false},
		{"T", "( id", false},
		{"E", "( id", false},
		{"E'", "+", true},
		{"T'", "*", true},
		{"T' E'", "+ *", true},
		{"T' E' )", "+ * )", false},
		{"E' T' $", "$ + *", false},
		{"id E", "id", false},
		{"E' E' E'", "+", true},
	} {
		got, nullable := First(n.g, n.word(t, tc.syms))
		want := n.word(t, tc.first)
		sort.Ints(want)
		if !reflect.DeepEqual(got, want) || nullable != tc.nullable {
			t.Errorf("First(%q) = %v, %v; want %v, %v", tc.syms, got, nullable, want, tc.nullable)
		}
	}
	tab := mustBuild(t, n.g)
	if c := tab.Conflicts(); len(c) != 0 {
		t.Fatalf("conflicts: %v", c)
	}
	expectParse(t, n, tab, "id + id * ( id + id )", true)
	expectParse(t, n, tab, "id + * id", false)
}

func TestStateLimit(t *testing.T) {
	n := gram(t, "c d", "S C", "S: C C", "C: c C", "C: d")
	for limit := 1; limit < 10; limit++ {
		if _, err := Build(n.g, limit); !errors.Is(err, ErrStateLimit) {
			t.Errorf("Build with limit %d: err = %v", limit, err)
		}
		if _, err := IsLR1(n.g, limit); !errors.Is(err, ErrStateLimit) {
			t.Errorf("IsLR1 with limit %d: err = %v", limit, err)
		}
	}
	for _, limit := range []int{-1, 0, 10, 11} {
		if _, err := Build(n.g, limit); err != nil {
			t.Errorf("Build with limit %d: %v", limit, err)
		}
		if ok, err := IsLR1(n.g, limit); err != nil || !ok {
			t.Errorf("IsLR1 with limit %d: %v, %v", limit, ok, err)
		}
	}
}

func TestValidation(t *testing.T) {
	bad := []Grammar{
		{NumT: 0, NumN: 1},
		{NumT: 1, NumN: 0},
		{NumT: 65, NumN: 1},
		{NumT: 2, NumN: 1, Start: 1},
		{NumT: 2, NumN: 1, Start: -1},
		{NumT: 2, NumN: 1, Prods: []Prod{{LHS: 1}}},
		{NumT: 2, NumN: 1, Prods: []Prod{{LHS: -1}}},
		{NumT: 2, NumN: 1, Prods: []Prod{{LHS: 0, RHS: []int{0}}}},
		{NumT: 2, NumN: 1, Prods: []Prod{{LHS: 0, RHS: []int{3}}}},
		{NumT: 2, NumN: 1, Prods: []Prod{{LHS: 0, RHS: []int{-1}}}},
	}
	for i, g := range bad {
		if _, err := Build(g, 0); err == nil {
			t.Errorf("bad grammar %d accepted by Build", i)
		}
		if _, err := IsLR1(g, 0); err == nil {
			t.Errorf("bad grammar %d accepted by IsLR1", i)
		}
	}
	// A grammar without productions is fine: empty language.
	tab := mustBuild(t, Grammar{NumT: 2, NumN: 1})
	if acc, _ := tab.Parse(nil, DefaultPick); acc {
		t.Errorf("empty grammar accepts the empty word")
	}
	// 64 terminals work: S -> A t63; A -> t A (t = 1..62) | eps, so that
	// A -> eps is reduced on the lookahead with the highest bit.
	g := Grammar{NumT: 64, NumN: 2, Prods: []Prod{{0, []int{65, 63}}, {1, nil}}}
	for term := 1; term < 63; term++ {
		g.Prods = append(g.Prods, Prod{1, []int{term, 65}})
	}
	tab = mustBuild(t, g)
	if len(tab.Conflicts()) != 0 {
		t.Errorf("conflicts in the 64-terminal grammar")
	}
	if c := tab.States[0].Cells[63]; c == nil || !reflect.DeepEqual(c.Reduces, []int{1}) {
		t.Errorf("state 0 on terminal 63: %+v", c)
	}
	for _, w := range [][]int{{63}, {5, 62, 1, 63}} {
		if acc, _ := tab.Parse(w, DefaultPick); !acc {
			t.Errorf("rejected %v", w)
		}
	}
	for _, w := range [][]int{{}, {5}, {63, 63}, {63, 5}} {
		if acc, _ := tab.Parse(w, DefaultPick); acc {
			t.Errorf("accepted %v", w)
		}
	}
}

func TestParseErrors(t *testing.T) {
	n := gram(t, "a", "S", "S: S S", "S: a", "S:")
	tab := mustBuild(t, n.g)
	if len(tab.Conflicts()) == 0 {
		t.Fatalf("no conflicts")
	}
	if _, _, err := tab.ParseErr([]int{1}, DefaultPick); err == nil {
		t.Errorf("DefaultPick went through a conflict")
	}
	if _, _, err := tab.ParseErr([]int{2}, DefaultPick); err == nil {
		t.Errorf("invalid terminal not reported")
	}
	if _, _, err := tab.ParseErr([]int{0}, DefaultPick); err == nil {
		t.Errorf("EOF inside the input not reported")
	}
	// Always reducing S -> eps loops for ever.
	old := MaxParseSteps
	MaxParseSteps = 1000
	defer func() { MaxParseSteps = old }()
	_, reds, err := tab.ParseErr([]int{1}, func(state, term int, c *Cell) (bool, int, bool) {
		for _, p := range c.Reduces {
			if p == 2 {
				return false, 2, true
			}
		}
		return DefaultPick(state, term, c)
	})
	if !errors.Is(err, ErrStepLimit) || len(reds) == 0 {
		t.Errorf("epsilon loop: err = %v, %d reductions", err, len(reds))
	}
	// Illegal picks.
	for i, pick := range []PickFunc{
		func(int, int, *Cell) (bool, int, bool) { return false, 99, true },
		func(s, term int, c *Cell) (bool, int, bool) { return c.Shift < 0, -1, true },
		func(s, term int, c *Cell) (bool, int, bool) {
			if c.Accept {
				return false, c.Reduces[0], true
			}
			return false, -1, true
		},
	} {
		if acc, _, err := tab.ParseErr([]int{1}, pick); err == nil || acc {
			t.Errorf("illegal pick %d not reported", i)
		}
	}
}

// ---------------------------------------------------------------------------
// Independent FIRST / FOLLOW (map based, written separately from the package).

type ff struct {
	g          Grammar
	productive []bool
	nullable   []bool
	first      []map[int]bool
	follow     []map[int]bool
}

func newFF(g Grammar) *ff {
	f := &ff{g: g, productive: make([]bool, g.NumN), nullable: make([]bool, g.NumN)}
	for i := 0; i < g.NumN; i++ {
		f.first = append(f.first, map[int]bool{})
		f.follow = append(f.follow, map[int]bool{})
	}
	isN := func(x int) bool { return x >= g.NumT }
	for again := true; again; {
		again = false
		for _, p := range g.Prods {
			allNullable, allProductive := true, true
			for _, x := range p.RHS {
				allNullable = allNullable && isN(x) && f.nullable[x-g.NumT]
				allProductive = allProductive && (!isN(x) || f.productive[x-g.NumT])
			}
			if allNullable && !f.nullable[p.LHS] {
				f.nullable[p.LHS], again = true, true
			}
			if allProductive && !f.productive[p.LHS] {
				f.productive[p.LHS], again = true, true
			}
		}
	}
	for again := true; again; {
		again = false
		for _, p := range g.Prods {
			for _, x := range p.RHS {
				if !isN(x) {
					if !f.first[p.LHS][x] {
						f.first[p.LHS][x], again = true, true
					}
					break
				}
				for a := range f.first[x-g.NumT] {
					if !f.first[p.LHS][a] {
						f.first[p.LHS][a], again = true, true
					}
				}
				if !f.nullable[x-g.NumT] {
					break
				}
			}
		}
	}
	f.follow[g.Start][0] = true
	for again := true; again; {
		again = false
		for _, p := range g.Prods {
			for i, x := range p.RHS {
				if !isN(x) {
					continue
				}
				fs, nullable := f.firstOf(p.RHS[i+1:])
				if nullable {
					for a := range f.follow[p.LHS] {
						fs[a] = true
					}
				}
				for a := range fs {
					if !f.follow[x-g.NumT][a] {
						f.follow[x-g.NumT][a], again = true, true
					}
				}
			}
		}
	}
	return f
}

func (f *ff) firstOf(syms []int) (map[int]bool, bool) {
	out := map[int]bool{}
	for _, x := range syms {
		if x < f.g.NumT {
			out[x] = true
			return out, false
		}
		for a := range f.first[x-f.g.NumT] {
			out[a] = true
		}
		if !f.nullable[x-f.g.NumT] {
			return out, false
		}
	}
	return out, true
}

func (f *ff) allProductive() bool {
	for _, p := range f.productive {
		if !p {
			return false
		}
	}
	return true
}

func keys(m map[int]bool) []int {
	out := []int{}
	for k := range m {
		out = append(out, k)
	}
	sort.Ints(out)
	return out
}

// ---------------------------------------------------------------------------
// Independent LALR construction: LR(0) kernels + determination and
// propagation of lookaheads (Dragon book Algorithms 4.62 and 4.63), map based.

type tItem struct{ p, d int } // p == -1: augmented production

type altState struct {
	kernel []tItem
	trans  map[int]int            // encoded symbol -> state
	la     map[tItem]map[int]bool // kernel item -> lookaheads
}

type alt struct {
	g      Grammar
	f      *ff
	states []*altState
}

func (a *alt) rhs(p int) []int {
	if p == -1 {
		return []int{a.g.NumT + a.g.Start}
	}
	return a.g.Prods[p].RHS
}

func (a *alt) next(it tItem) int {
	r := a.rhs(it.p)
	if it.d == len(r) {
		return -1
	}
	return r[it.d]
}

func sortItems(l []tItem) {
	sort.Slice(l, func(i, j int) bool {
		if l[i].p != l[j].p {
			return l[i].p < l[j].p
		}
		return l[i].d < l[j].d
	})
}

func (a *alt) closure0(kernel []tItem) []tItem {
	in := map[tItem]bool{}
	out := append([]tItem{}, kernel...)
	for _, it := range kernel {
		in[it] = true
	}
	for i := 0; i < len(out); i++ {
		x := a.next(out[i])
		if x < a.g.NumT {
			continue
		}
		for p, pr := range a.g.Prods {
			if it := (tItem{p, 0}); pr.LHS == x-a.g.NumT && !in[it] {
				in[it] = true
				out = append(out, it)
			}
		}
	}
	return out
}

// closure1 is the LR(1) closure; hash is a dummy lookahead symbol (or -1).
func (a *alt) closure1(seed map[tItem]map[int]bool) map[tItem]map[int]bool {
	out := map[tItem]map[int]bool{}
	for it, las := range seed {
		out[it] = map[int]bool{}
		for l := range las {
			out[it][l] = true
		}
	}
	for again := true; again; {
		again = false
		for it, las := range out {
			x := a.next(it)
			if x < a.g.NumT {
				continue
			}
			fs, nullable := a.f.firstOf(a.rhs(it.p)[it.d+1:])
			if nullable {
				for l := range las {
					fs[l] = true
				}
			}
			for p, pr := range a.g.Prods {
				if pr.LHS != x-a.g.NumT {
					continue
				}
				ni := tItem{p, 0}
				for l := range fs {
					if out[ni] == nil {
						out[ni] = map[int]bool{}
					}
					if !out[ni][l] {
						out[ni][l], again = true, true
					}
				}
			}
		}
	}
	return out
}

func buildAlt(g Grammar, f *ff) *alt {
	a := &alt{g: g, f: f}
	index := map[string]int{}
	intern := func(kernel []tItem) int {
		sortItems(kernel)
		k := fmt.Sprint(kernel)
		if id, ok := index[k]; ok {
			return id
		}
		index[k] = len(a.states)
		la := map[tItem]map[int]bool{}
		for _, it := range kernel {
			la[it] = map[int]bool{}
		}
		a.states = append(a.states, &altState{kernel: kernel, trans: map[int]int{}, la: la})
		return len(a.states) - 1
	}
	intern([]tItem{{-1, 0}})
	for i := 0; i < len(a.states); i++ {
		cl := a.closure0(a.states[i].kernel)
		for x := 1; x < g.NumT+g.NumN; x++ {
			var kernel []tItem
			for _, it := range cl {
				if a.next(it) == x {
					kernel = append(kernel, tItem{it.p, it.d + 1})
				}
			}
			if kernel != nil {
				a.states[i].trans[x] = intern(kernel)
			}
		}
	}
	// Algorithm 4.62 for every kernel item of every state.
	const hash = -7
	type link struct {
		from   int
		fromIt tItem
		to     int
		toIt   tItem
	}
	var links []link
	for i, s := range a.states {
		for _, k := range s.kernel {
			j := a.closure1(map[tItem]map[int]bool{k: {hash: true}})
			for it, las := range j {
				x := a.next(it)
				if x < 0 {
					continue
				}
				to := s.trans[x]
				toIt := tItem{it.p, it.d + 1}
				for l := range las {
					if l == hash {
						links = append(links, link{i, k, to, toIt})
					} else {
						a.states[to].la[toIt][l] = true
					}
				}
			}
		}
	}
	// Algorithm 4.63: propagate until nothing changes.
	a.states[0].la[tItem{-1, 0}][0] = true
	for again := true; again; {
		again = false
		for _, l := range links {
			for x := range a.states[l.from].la[l.fromIt] {
				if !a.states[l.to].la[l.toIt][x] {
					a.states[l.to].la[l.toIt][x], again = true, true
				}
			}
		}
	}
	return a
}

// compareAlt compares the table with the propagation-based construction.
func compareAlt(tab *Table, a *alt) error {
	if len(tab.States) != len(a.states) {
		return fmt.Errorf("%d states, propagation gives %d", len(tab.States), len(a.states))
	}
	for i, s := range a.states {
		st := tab.States[i]
		if len(st.Kernel) != len(s.kernel) {
			return fmt.Errorf("state %d: kernel %v vs %v", i, st.Kernel, s.kernel)
		}
		for j, it := range s.kernel {
			if st.Kernel[j] != (Item{it.p, it.d}) {
				return fmt.Errorf("state %d: kernel %v vs %v", i, st.Kernel, s.kernel)
			}
			if want := keys(s.la[it]); !reflect.DeepEqual(st.KernelLA[j], want) {
				return fmt.Errorf("state %d item %v: lookaheads %v, propagation gives %v", i, it, st.KernelLA[j], want)
			}
		}
		// expected cells and gotos
		cells := map[int]*Cell{}
		gotos := map[int]int{}
		cell := func(term int) *Cell {
			if cells[term] == nil {
				cells[term] = &Cell{Shift: -1}
			}
			return cells[term]
		}
		for x, to := range s.trans {
			if x >= a.g.NumT {
				gotos[x-a.g.NumT] = to
			}
		}
		shiftProds := map[int]map[int]bool{}
		reduces := map[int]map[int]bool{}
		for it, las := range a.closure1(s.la) {
			x := a.next(it)
			switch {
			case x >= a.g.NumT:
			case x >= 0:
				cell(x).Shift = s.trans[x]
				if shiftProds[x] == nil {
					shiftProds[x] = map[int]bool{}
				}
				shiftProds[x][it.p] = true
			case it.p == -1:
				cell(0).Accept = true
			default:
				for l := range las {
					cell(l)
					if reduces[l] == nil {
						reduces[l] = map[int]bool{}
					}
					reduces[l][it.p] = true
				}
			}
		}
		for term, c := range cells {
			if shiftProds[term] != nil {
				c.ShiftProds = keys(shiftProds[term])
			}
			if reduces[term] != nil {
				c.Reduces = keys(reduces[term])
			}
		}
		if !reflect.DeepEqual(st.Goto, gotos) {
			return fmt.Errorf("state %d: goto %v, want %v", i, st.Goto, gotos)
		}
		if len(st.Cells) != len(cells) {
			return fmt.Errorf("state %d: %d cells, want %d", i, len(st.Cells), len(cells))
		}
		for term, want := range cells {
			got := st.Cells[term]
			if got == nil || !reflect.DeepEqual(*got, *want) {
				return fmt.Errorf("state %d on %d: cell %+v, want %+v", i, term, got, want)
			}
		}
	}
	return nil
}

// ---------------------------------------------------------------------------
// Brute-force language enumeration.

// bruteLang returns, for every nonterminal, the set of terminal strings of
// length <= maxLen it derives (one byte per terminal). It is the least
// fixpoint of "L(A) contains L(X1)...L(Xn) for A -> X1...Xn", restricted to
// short strings (which is exact, since lengths only add up).
func bruteLang(g Grammar, maxLen int) []map[string]bool {
	lang := make([]map[string]bool, g.NumN)
	byLen := make([][][]string, g.NumN)
	for i := range lang {
		lang[i] = map[string]bool{}
		byLen[i] = make([][]string, maxLen+1)
	}
	for again := true; again; {
		again = false
		for _, p := range g.Prods {
			cur := []string{""}
			for _, x := range p.RHS {
				var nxt []string
				for _, u := range cur {
					if x < g.NumT {
						if len(u) < maxLen {
							nxt = append(nxt, u+string(rune(x)))
						}
						continue
					}
					for l := 0; l+len(u) <= maxLen; l++ {
						for _, v := range byLen[x-g.NumT][l] {
							nxt = append(nxt, u+v)
						}
					}
				}
				// dedupe
				seen := map[string]bool{}
				cur = cur[:0]
				for _, u := range nxt {
					if !seen[u] {
						seen[u] = true
						cur = append(cur, u)
					}
				}
			}
			for _, u := range cur {
				if !lang[p.LHS][u] {
					lang[p.LHS][u] = true
					byLen[p.LHS][len(u)] = append(byLen[p.LHS][len(u)], u)
					again = true
				}
			}
		}
	}
	return lang
}

func TestBruteLang(t *testing.T) {
	// sanity check of the brute-force generator itself: balanced parentheses
	n := gram(t, "( )", "S", "S: ( S ) S", "S:")
	lang := bruteLang(n.g, 6)[0]
	want := []string{"", "()", "()()", "(())", "()()()", "()(())", "(())()", "(()())", "((()))"}
	if len(lang) != len(want) {
		t.Fatalf("got %d strings", len(lang))
	}
	for _, w := range want {
		w = strings.NewReplacer("(", "\x01", ")", "\x02").Replace(w)
		if !lang[w] {
			t.Errorf("missing %q", w)
		}
	}
}

// allStrings calls f with every string over the terminals 1..numT-1 of length
// <= maxLen.
func allStrings(numT, maxLen int, f func(w []int)) {
	var rec func(w []int)
	rec = func(w []int) {
		f(w)
		if len(w) == maxLen {
			return
		}
		for a := 1; a < numT; a++ {
			rec(append(w, a))
		}
	}
	rec(make([]int, 0, maxLen))
}

func wordKey(w []int) string {
	b := make([]byte, len(w))
	for i, x := range w {
		b[i] = byte(x)
	}
	return string(b)
}

// ---------------------------------------------------------------------------
// Random grammars.

// randGrammar makes a random grammar with 1..maxT terminals besides EOF,
// 1..maxN nonterminals, at most maxAlt alternatives per nonterminal and
// right-hand sides of length <= maxLen. Half of the grammars are completely
// random (most of those with recursion are ambiguous); the other half is
// biased towards deterministic grammars with infinite languages: the
// alternatives of a nonterminal mostly start with distinct terminals.
func randGrammar(r *rand.Rand, maxT, maxN, maxAlt, maxLen int) Grammar {
	g := Grammar{NumT: 2 + r.Intn(maxT), NumN: 1 + r.Intn(maxN)}
	g.Start = r.Intn(g.NumN)
	if r.Intn(2) == 0 {
		sym := func() int {
			if r.Intn(2) == 0 {
				return 1 + r.Intn(g.NumT-1)
			}
			return g.NumT + r.Intn(g.NumN)
		}
		for n := 0; n < g.NumN; n++ {
			leads := r.Perm(g.NumT - 1)
			k := 1 + r.Intn(maxAlt)
			if k > len(leads) {
				k = len(leads)
			}
			eps := r.Intn(3) == 0
			if eps {
				g.Prods = append(g.Prods, Prod{LHS: n, RHS: []int{}})
			}
			for i, lead := range leads[:k] {
				rhs := []int{1 + lead}
				for l := r.Intn(maxLen); l > 0; l-- {
					if i == 0 && !eps && r.Intn(8) != 0 {
						// one alternative without nonterminals (usually),
						// so that the nonterminal is productive
						rhs = append(rhs, 1+r.Intn(g.NumT-1))
					} else {
						rhs = append(rhs, sym())
					}
				}
				if r.Intn(8) == 0 { // left recursion, unit productions, ...
					rhs[0] = g.NumT + r.Intn(g.NumN)
				}
				g.Prods = append(g.Prods, Prod{LHS: n, RHS: rhs})
			}
		}
		r.Shuffle(len(g.Prods), func(i, j int) { g.Prods[i], g.Prods[j] = g.Prods[j], g.Prods[i] })
		return g
	}
	for n := 0; n < g.NumN; n++ {
		k := 1 + r.Intn(maxAlt)
		if n != g.Start && r.Intn(20) == 0 {
			k = 0 // a nonterminal without productions
		}
		for ; k > 0; k-- {
			l := 0
			switch x := r.Intn(100); {
			case x < 15:
				l = 0
			case x < 45:
				l = 1
			case x < 80:
				l = 2
			default:
				l = 2 + r.Intn(maxLen-1)
			}
			// Most nonterminals get a production without nonterminals, so that
			// they are productive and the languages are not all trivial.
			termOnly := k == 1 && r.Intn(4) != 0
			rhs := []int{}
			for i := 0; i < l; i++ {
				if termOnly || r.Intn(100) < 55 {
					rhs = append(rhs, 1+r.Intn(g.NumT-1))
				} else {
					rhs = append(rhs, g.NumT+r.Intn(g.NumN))
				}
			}
			g.Prods = append(g.Prods, Prod{LHS: n, RHS: rhs})
		}
	}
	// shuffle so that productions of a nonterminal are not contiguous
	r.Shuffle(len(g.Prods), func(i, j int) { g.Prods[i], g.Prods[j] = g.Prods[j], g.Prods[i] })
	return g
}

// checkFollow: every reduce A -> alpha on a requires a in FOLLOW(A); accept
// only in the state reached by the start symbol from state 0.
func checkFollow(tab *Table, f *ff) error {
	for i, s := range tab.States {
		for term, c := range s.Cells {
			for _, p := range c.Reduces {
				if !f.follow[tab.G.Prods[p].LHS][term] {
					return fmt.Errorf("state %d: reduce %d on %d, which is not in FOLLOW(%d) = %v",
						i, p, term, tab.G.Prods[p].LHS, keys(f.follow[tab.G.Prods[p].LHS]))
				}
			}
			if c.Accept && tab.States[0].Goto[tab.G.Start] != i {
				return fmt.Errorf("state %d: accept outside goto(0, start)", i)
			}
		}
	}
	return nil
}

func TestRandomDifferential(t *testing.T) {
	const (
		numGrammars = 4000
		genLen      = 6
		checkLen    = 5
	)
	r := rand.New(rand.NewSource(20260923))
	var nClean, nCleanNonEmpty, nCleanRich, nLR1notLALR, nAlt, nSentences, nStrings, nUnproductive int
	for iter := 0; iter < numGrammars; iter++ {
		g := randGrammar(r, 3, 4, 3, 3)
		desc := fmt.Sprintf("grammar #%d %+v", iter, g)
		tab, err := Build(g, 5000)
		if err != nil {
			t.Fatalf("%s: %v", desc, err)
		}
		checkTable(t, tab, false)
		if t.Failed() {
			t.Fatalf("%s", desc)
		}
		f := newFF(g)

		// FIRST of the package against the independent one.
		for k := 0; k < 5; k++ {
			syms := make([]int, r.Intn(4))
			for i := range syms {
				syms[i] = r.Intn(g.NumT + g.NumN)
			}
			got, gotN := First(g, syms)
			want, wantN := f.firstOf(syms)
			if !reflect.DeepEqual(got, keys(want)) || gotN != wantN {
				t.Fatalf("%s: First(%v) = %v, %v; want %v, %v", desc, syms, got, gotN, keys(want), wantN)
			}
		}

		// LALR lookaheads are within FOLLOW.
		if err := checkFollow(tab, f); err != nil {
			t.Fatalf("%s: %v", desc, err)
		}

		// Second construction path (needs all nonterminals productive, see
		// TestRandomAlt for the reason).
		if f.allProductive() {
			nAlt++
			if err := compareAlt(tab, buildAlt(g, f)); err != nil {
				t.Fatalf("%s: %v", desc, err)
			}
		} else {
			nUnproductive++
		}

		// Canonical LR(1).
		can, err := BuildCanonical(g, 5000)
		if err != nil {
			t.Fatalf("%s: %v", desc, err)
		}
		checkTable(t, can, true)
		if err := checkFollow(can, f); err != nil {
			t.Fatalf("%s: canonical: %v", desc, err)
		}
		if can.LR1States != tab.LR1States {
			t.Fatalf("%s: LR1States %d vs %d", desc, can.LR1States, tab.LR1States)
		}
		lr1, err := IsLR1(g, 5000)
		if err != nil || lr1 != (len(can.Conflicts()) == 0) {
			t.Fatalf("%s: IsLR1 = %v, %v", desc, lr1, err)
		}
		clean := len(tab.Conflicts()) == 0
		if clean && !lr1 {
			t.Fatalf("%s: LALR(1) but not LR(1)", desc)
		}
		if lr1 && !clean {
			nLR1notLALR++
			// merging can only introduce reduce/reduce conflicts
			for _, c := range tab.Conflicts() {
				cell := tab.States[c[0]].Cells[c[1]]
				if cell.Shift >= 0 || cell.Accept {
					t.Fatalf("%s: LR(1) grammar with LALR conflict %+v in state %d on %d", desc, cell, c[0], c[1])
				}
			}
		}
		if !lr1 {
			continue
		}

		// Language check against brute force.
		lang := bruteLang(g, genLen)[g.Start]
		tables := []*Table{can}
		if clean {
			tables = append(tables, tab)
			nClean++
			if len(lang) > 0 {
				nCleanNonEmpty++
			}
			if len(lang) >= 10 {
				nCleanRich++
			}
		}
		for _, tb := range tables {
			allStrings(g.NumT, checkLen, func(w []int) {
				nStrings++
				acc, reds, err := tb.ParseErr(w, DefaultPick)
				if err != nil {
					t.Fatalf("%s: parse %v: %v", desc, w, err)
				}
				if acc != lang[wordKey(w)] {
					t.Fatalf("%s: parse %v: accepted = %v, brute force says %v", desc, w, acc, lang[wordKey(w)])
				}
				if acc {
					if err := checkRightmost(g, w, reds); err != nil {
						t.Fatalf("%s: parse %v: %v", desc, w, err)
					}
				}
			})
			// all generated sentences (including those of length genLen)
			for s := range lang {
				nSentences++
				w := make([]int, len(s))
				for i := range w {
					w[i] = int(s[i])
				}
				acc, reds, err := tb.ParseErr(w, DefaultPick)
				if !acc || err != nil {
					t.Fatalf("%s: sentence %v not accepted (%v)", desc, w, err)
				}
				if err := checkRightmost(g, w, reds); err != nil {
					t.Fatalf("%s: parse %v: %v", desc, w, err)
				}
			}
		}
	}
	t.Logf("%d grammars: %d conflict-free LALR (%d with a non-empty language, %d with >= 10 sentences), %d LR(1) but not LALR(1), "+
		"%d compared with lookahead propagation (%d skipped: unproductive nonterminals), %d strings and %d sentences parsed",
		numGrammars, nClean, nCleanNonEmpty, nCleanRich, nLR1notLALR, nAlt, nUnproductive, nStrings, nSentences)
	if nClean < 1000 || nCleanNonEmpty < 1000 || nCleanRich < 100 || nAlt < 1000 {
		t.Errorf("random sample too weak")
	}
}

// TestRandomAlt compares Build with the lookahead-propagation construction on
// larger random grammars (no language check).
//
// Grammars with unproductive nonterminals are skipped: if beta is
// unproductive and not nullable, FIRST(beta a) is empty and the textbook LR(1)
// closure of [A -> alpha . B beta, a] adds no item for B, whereas the LR(0)
// closure used by the propagation algorithm does; the two automata then
// differ in items that can never take part in a successful parse.
func TestRandomAlt(t *testing.T) {
	r := rand.New(rand.NewSource(4663))
	n, maxStates, maxLR1, nLR1notLALR := 0, 0, 0, 0
	for iter := 0; iter < 1500; iter++ {
		g := randGrammar(r, 6, 7, 4, 4)
		f := newFF(g)
		if !f.allProductive() {
			continue
		}
		tab, err := Build(g, 20000)
		if errors.Is(err, ErrStateLimit) {
			continue
		}
		if err != nil {
			t.Fatal(err)
		}
		n++
		if len(tab.States) > maxStates {
			maxStates = len(tab.States)
		}
		if tab.LR1States > maxLR1 {
			maxLR1 = tab.LR1States
		}
		checkTable(t, tab, false)
		if err := checkFollow(tab, f); err != nil {
			t.Fatalf("grammar #%d %+v: %v", iter, g, err)
		}
		if err := compareAlt(tab, buildAlt(g, f)); err != nil {
			t.Fatalf("grammar #%d %+v: %v", iter, g, err)
		}
		lr1, err := IsLR1(g, 20000)
		if err != nil {
			t.Fatal(err)
		}
		conf := tab.Conflicts()
		if !lr1 && len(conf) == 0 {
			t.Fatalf("grammar #%d %+v: LALR(1) but not LR(1)", iter, g)
		}
		if lr1 && len(conf) > 0 {
			nLR1notLALR++
			for _, c := range conf { // merging only introduces reduce/reduce conflicts
				if cell := tab.States[c[0]].Cells[c[1]]; cell.Shift >= 0 || cell.Accept {
					t.Fatalf("grammar #%d %+v: LR(1) grammar with LALR conflict %+v", iter, g, cell)
				}
			}
		}
	}
	t.Logf("%d grammars compared, up to %d LALR states / %d LR(1) states, %d LR(1) but not LALR(1)", n, maxStates, maxLR1, nLR1notLALR)
	if n < 500 {
		t.Errorf("only %d grammars compared", n)
	}
}

// TestRandomLR1NotLALR: random grammars that are LR(1) but not LALR(1) are
// extremely rare, so they are made by grafting the gadget of Dragon book
// example 4.58 onto a random grammar:
//
//	S -> a A a | b B a | a B b | b A b,  A -> X,  B -> X
//
// where X is a random string over c and the nonterminals of a random grammar.
// That grammar mostly uses the terminal c only; when it uses a or b too, the
// result is often not LR(1) at all, and is then skipped.
func TestRandomLR1NotLALR(t *testing.T) {
	r := rand.New(rand.NewSource(458))
	hits, tried := 0, 0
	for iter := 0; iter < 1500; iter++ {
		g := randGrammar(r, 1, 3, 3, 3) // terminals: EOF and one more
		// renumber: the single terminal 1 becomes c = 3 (or sometimes a or b)
		const a, b, c = 1, 2, 3
		shift := 4 - g.NumT
		for _, p := range g.Prods {
			for i, x := range p.RHS {
				if x >= g.NumT {
					p.RHS[i] = x + shift
				} else if r.Intn(10) == 0 {
					p.RHS[i] = 1 + r.Intn(3)
				} else {
					p.RHS[i] = c
				}
			}
		}
		g.NumT = 4
		S, A, B := g.NumN, g.NumN+1, g.NumN+2
		x := []int{}
		for l := 1 + r.Intn(2); l > 0; l-- {
			if r.Intn(2) == 0 {
				x = append(x, c)
			} else {
				x = append(x, g.NumT+r.Intn(g.NumN))
			}
		}
		g.NumN += 3
		g.Start = S
		eA, eB := g.NumT+A, g.NumT+B
		g.Prods = append(g.Prods,
			Prod{S, []int{a, eA, a}}, Prod{S, []int{b, eB, a}}, Prod{S, []int{a, eB, b}}, Prod{S, []int{b, eA, b}},
			Prod{A, x}, Prod{B, append([]int{}, x...)})
		r.Shuffle(len(g.Prods), func(i, j int) { g.Prods[i], g.Prods[j] = g.Prods[j], g.Prods[i] })

		desc := fmt.Sprintf("grammar #%d %+v", iter, g)
		tab, err := Build(g, 5000)
		if err != nil {
			t.Fatalf("%s: %v", desc, err)
		}
		checkTable(t, tab, false)
		lr1, err := IsLR1(g, 5000)
		if err != nil {
			t.Fatalf("%s: %v", desc, err)
		}
		tried++
		if !lr1 {
			continue
		}
		f := newFF(g)
		lang := bruteLang(g, 6)[g.Start]
		if len(lang) == 0 {
			continue // A and B unproductive: nothing to merge
		}
		hits++
		conf := tab.Conflicts()
		if len(conf) == 0 {
			t.Fatalf("%s: expected LALR conflicts", desc)
		}
		if tab.LR1States <= len(tab.States) {
			t.Fatalf("%s: nothing merged", desc)
		}
		for _, c := range conf {
			cell := tab.States[c[0]].Cells[c[1]]
			if cell.Shift >= 0 || cell.Accept || len(cell.Reduces) < 2 {
				t.Fatalf("%s: LALR conflict %+v is not reduce/reduce", desc, cell)
			}
		}
		if err := checkFollow(tab, f); err != nil {
			t.Fatalf("%s: %v", desc, err)
		}
		if f.allProductive() {
			if err := compareAlt(tab, buildAlt(g, f)); err != nil {
				t.Fatalf("%s: %v", desc, err)
			}
		}
		can, err := BuildCanonical(g, 5000)
		if err != nil {
			t.Fatalf("%s: %v", desc, err)
		}
		checkTable(t, can, true)
		allStrings(g.NumT, 5, func(w []int) {
			acc, reds, err := can.ParseErr(w, DefaultPick)
			if err != nil || acc != lang[wordKey(w)] {
				t.Fatalf("%s: parse %v: accepted = %v (%v), brute force says %v", desc, w, acc, err, lang[wordKey(w)])
			}
			if acc {
				if err := checkRightmost(g, w, reds); err != nil {
					t.Fatalf("%s: parse %v: %v", desc, w, err)
				}
			}
		})
		// The LALR table still accepts exactly the language if the
		// reduce/reduce conflicts are resolved with an oracle: try every
		// candidate (backtracking over the choices).
		for s := range lang {
			w := make([]int, len(s))
			for i := range w {
				w[i] = int(s[i])
			}
			if !acceptsWithSomeChoice(tab, w) {
				t.Fatalf("%s: no resolution of the conflicts makes the LALR table accept %v", desc, w)
			}
		}
	}
	t.Logf("%d grammars, %d LR(1) but not LALR(1)", tried, hits)
	if hits < 100 {
		t.Errorf("only %d LR(1)-but-not-LALR(1) grammars", hits)
	}
}

// acceptsWithSomeChoice reports whether some way of choosing among the
// candidates of the conflict cells makes the table accept w. A run is
// determined by the sequence of choices made at the conflicts it meets;
// choices beyond the given prefix default to candidate 0. All sequences (up
// to 16 conflicts per run) are enumerated, each one once: a sequence is
// tried from the prefix ending at its last non-zero choice.
func acceptsWithSomeChoice(tab *Table, w []int) bool {
	var try func(prefix []int) bool
	try = func(prefix []int) bool {
		var counts []int // number of candidates of the conflicts met
		pick := func(state, term int, c *Cell) (bool, int, bool) {
			if c.Count() == 1 {
				return DefaultPick(state, term, c)
			}
			k := 0
			if len(counts) < len(prefix) {
				k = prefix[len(counts)]
			}
			counts = append(counts, c.Count())
			switch { // candidates: the reduces, then the shift, then accept
			case k < len(c.Reduces):
				return false, c.Reduces[k], true
			case k == len(c.Reduces) && c.Shift >= 0:
				return true, -1, true
			default:
				return false, -1, true
			}
		}
		if acc, _, _ := tab.ParseErr(w, pick); acc {
			return true
		}
		for i := len(prefix); i < len(counts) && i < 16; i++ {
			for k := 1; k < counts[i]; k++ {
				next := make([]int, i+1)
				copy(next, prefix)
				next[i] = k
				if try(next) {
					return true
				}
			}
		}
		return false
	}
	return try(nil)
}

func TestDeterministic(t *testing.T) {
	r := rand.New(rand.NewSource(7))
	for iter := 0; iter < 200; iter++ {
		g := randGrammar(r, 4, 5, 3, 4)
		a, err1 := Build(g, 0)
		b, err2 := Build(g, 0)
		if err1 != nil || err2 != nil {
			t.Fatal(err1, err2)
		}
		if !reflect.DeepEqual(a, b) {
			t.Fatalf("Build is not deterministic on %+v", g)
		}
	}
}

// ---------------------------------------------------------------------------

func benchGrammar(b *testing.B) Grammar {
	// A small expression/statement language: 12 terminals, ~30 productions.
	n := gram(b, "id num + * ( ) = ; if else while", "prog stmts stmt expr term fact args optelse",
		"prog: stmts",
		"stmts: stmts stmt",
		"stmts:",
		"stmt: id = expr ;",
		"stmt: expr ;",
		"stmt: if ( expr ) stmt optelse",
		"stmt: while ( expr ) stmt",
		"stmt: ;",
		"optelse: else stmt",
		"optelse:",
		"expr: expr + term",
		"expr: term",
		"term: term * fact",
		"term: fact",
		"fact: id",
		"fact: num",
		"fact: ( expr )",
		"fact: id ( args )",
		"args: args + expr",
		"args: expr",
		"args:",
	)
	return n.g
}

func BenchmarkBuild(b *testing.B) {
	g := benchGrammar(b)
	b.ReportAllocs()
	for i := 0; i < b.N; i++ {
		tab, err := Build(g, 0)
		if err != nil {
			b.Fatal(err)
		}
		if i == 0 {
			b.Logf("%d LR(1) states, %d LALR states, %d conflicts", tab.LR1States, len(tab.States), len(tab.Conflicts()))
		}
	}
}

func BenchmarkBuildSmall(b *testing.B) {
	n := gram(b, "= * id", "S L R", "S: L = R", "S: R", "L: * R", "L: id", "R: L")
	b.ReportAllocs()
	for i := 0; i < b.N; i++ {
		if _, err := Build(n.g, 0); err != nil {
			b.Fatal(err)
		}
	}
}
