package hc

import "embed"

//go:embed hc.go lex.go conc.go opaque.go
var srcFS embed.FS

// Sources returns the harness run-time sources that are copied into every
// scratch batch module as package batch/hc.
func Sources() map[string]string {
	out := map[string]string{}
	for _, n := range []string{"hc.go", "lex.go", "conc.go", "opaque.go"} {
		b, err := srcFS.ReadFile(n)
		if err != nil {
			panic(err)
		}
		out[n] = string(b)
	}
	return out
}
