package cfg

import (
	"fmt"
	"math/rand"
	"reflect"
	"sort"
	"strings"
	"testing"
)

// ---------------------------------------------------------------------------
// Helpers: a tiny textual grammar notation for hand-written cases.
//
//	"S -> a S b | ; T -> x"
//
// Upper-case initial = nonterminal, anything else = terminal. Symbols are
// numbered in order of first appearance, nonterminals by order of first
// appearance anywhere. The first LHS is the start symbol.

type tg struct {
	g     Grammar
	tname []string
	nname []string
}

func isNT(s string) bool { return s[0] >= 'A' && s[0] <= 'Z' }

func parseG(src string) *tg {
	t := &tg{}
	tix, nix := map[string]int{}, map[string]int{}
	type rawProd struct {
		lhs string
		rhs []string
	}
	var raws []rawProd
	for _, rule := range strings.Split(src, ";") {
		parts := strings.SplitN(rule, "->", 2)
		lhs := strings.TrimSpace(parts[0])
		if _, ok := nix[lhs]; !ok {
			nix[lhs] = len(t.nname)
			t.nname = append(t.nname, lhs)
		}
		for _, alt := range strings.Split(parts[1], "|") {
			raws = append(raws, rawProd{lhs, strings.Fields(alt)})
		}
	}
	for _, r := range raws {
		for _, s := range r.rhs {
			if isNT(s) {
				if _, ok := nix[s]; !ok {
					nix[s] = len(t.nname)
					t.nname = append(t.nname, s)
				}
			} else if _, ok := tix[s]; !ok {
				tix[s] = len(t.tname)
				t.tname = append(t.tname, s)
			}
		}
	}
	t.g.NumT, t.g.NumN = len(t.tname), len(t.nname)
	for _, r := range raws {
		p := Prod{LHS: nix[r.lhs]}
		for _, s := range r.rhs {
			if isNT(s) {
				p.RHS = append(p.RHS, t.g.NumT+nix[s])
			} else {
				p.RHS = append(p.RHS, tix[s])
			}
		}
		t.g.Prods = append(t.g.Prods, p)
	}
	return t
}

// w converts a space separated terminal string; unknown terminals panic.
func (t *tg) w(s string) []int {
	out := []int{}
	for _, f := range strings.Fields(s) {
		found := -1
		for i, n := range t.tname {
			if n == f {
				found = i
			}
		}
		if found < 0 {
			panic("unknown terminal " + f)
		}
		out = append(out, found)
	}
	return out
}

func (t *tg) str(w []int) string {
	var parts []string
	for _, x := range w {
		if x < 0 {
			parts = append(parts, "$")
		} else {
			parts = append(parts, t.tname[x])
		}
	}
	return strings.Join(parts, " ")
}

type hand struct {
	in     string
	accept bool
	vpl    int    // ViablePrefixLen
	ferr   int    // FirstError
	next   string // NextTerminals rendered with names, "$" for -1; "nil" for nil
}

func runHand(t *testing.T, name, src string, cases []hand) *Engine {
	t.Helper()
	g := parseG(src)
	e := New(g.g)
	for _, c := range cases {
		w := g.w(c.in)
		if got := e.Accepts(w); got != c.accept {
			t.Errorf("%s: Accepts(%q) = %v, want %v", name, c.in, got, c.accept)
		}
		if got := e.ViablePrefixLen(w); got != c.vpl {
			t.Errorf("%s: ViablePrefixLen(%q) = %d, want %d", name, c.in, got, c.vpl)
		}
		if got := e.FirstError(w); got != c.ferr {
			t.Errorf("%s: FirstError(%q) = %d, want %d", name, c.in, got, c.ferr)
		}
		nt := e.NextTerminals(w)
		got := "nil"
		if nt != nil {
			got = g.str(nt)
		}
		if got != c.next {
			t.Errorf("%s: NextTerminals(%q) = %q, want %q", name, c.in, got, c.next)
		}
		// Incremental API must agree.
		s := e.Start()
		for _, x := range w {
			s = e.Step(s, x)
		}
		if e.Viable(s) != (c.vpl == len(w)) || e.Accepting(s) != c.accept {
			t.Errorf("%s: incremental(%q): viable=%v accepting=%v", name, c.in, e.Viable(s), e.Accepting(s))
		}
	}
	return e
}

func enumAll(e *Engine, g *tg, maxLen, limit int) []string {
	var out []string
	e.Enumerate(maxLen, limit, func(w []int) bool {
		out = append(out, g.str(w))
		return true
	})
	return out
}

func TestParens(t *testing.T) {
	src := "S -> ( S ) S | "
	e := runHand(t, "parens", src, []hand{
		{"", true, 0, -1, "$ ("},
		{"( )", true, 2, -1, "$ ("},
		{"( ( ) ) ( )", true, 6, -1, "$ ("},
		{"(", false, 1, 1, "( )"},
		{"( ( )", false, 3, 3, "( )"},
		{")", false, 0, 0, "nil"},
		{"( ) ) (", false, 2, 2, "nil"},
	})
	g := parseG(src)
	got := enumAll(e, g, 4, 0)
	want := []string{"", "( )", "( ( ) )", "( ) ( )"}
	if !reflect.DeepEqual(got, want) {
		t.Errorf("Enumerate = %q, want %q", got, want)
	}
	if n := e.CountParses(g.w("( ( ) ) ( )"), 5); n != 1 {
		t.Errorf("CountParses = %d, want 1", n)
	}
	if e.MinLen(g.g.NumT) != 0 || e.MinLen(0) != 1 || e.MinLen(99) != -1 {
		t.Errorf("MinLen wrong")
	}
}

func TestOptionalAB(t *testing.T) {
	runHand(t, "optAB", "S -> A B ; A -> a | ; B -> b | ", []hand{
		{"", true, 0, -1, "$ a b"},
		{"a", true, 1, -1, "$ b"},
		{"b", true, 1, -1, "$"},
		{"a b", true, 2, -1, "$"},
		{"b a", false, 1, 1, "nil"},
		{"a a", false, 1, 1, "nil"},
		{"a b b", false, 2, 2, "nil"},
	})
}

func TestLeftRecursiveList(t *testing.T) {
	src := "L -> L , x | x"
	e := runHand(t, "leftlist", src, []hand{
		{"", false, 0, 0, "x"},
		{"x", true, 1, -1, "$ ,"},
		{"x ,", false, 2, 2, "x"},
		{"x , x , x", true, 5, -1, "$ ,"},
		{"x x", false, 1, 1, "nil"},
		{", x", false, 0, 0, "nil"},
	})
	if e.MinLen(e.numT) != 1 {
		t.Errorf("MinLen(L) = %d", e.MinLen(e.numT))
	}
}

func TestRightRecursiveList(t *testing.T) {
	runHand(t, "rightlist", "L -> x , L | x", []hand{
		{"", false, 0, 0, "x"},
		{"x", true, 1, -1, "$ ,"},
		{"x ,", false, 2, 2, "x"},
		{"x , x , x", true, 5, -1, "$ ,"},
		{"x , ,", false, 2, 2, "nil"},
	})
}

func TestNullableLeftRecursion(t *testing.T) {
	src := "S -> S a | "
	e := runHand(t, "S->Sa|eps", src, []hand{
		{"", true, 0, -1, "$ a"},
		{"a", true, 1, -1, "$ a"},
		{"a a a a", true, 4, -1, "$ a"},
	})
	g := parseG(src)
	for n := 0; n < 6; n++ {
		w := make([]int, n)
		if c := e.CountParses(w, 3); c != 1 {
			t.Errorf("CountParses(a^%d) = %d, want 1", n, c)
		}
	}
	if got := enumAll(e, g, 3, 0); !reflect.DeepEqual(got, []string{"", "a", "a a", "a a a"}) {
		t.Errorf("Enumerate = %q", got)
	}
	if got := enumAll(e, g, 10, 2); !reflect.DeepEqual(got, []string{"", "a"}) {
		t.Errorf("Enumerate limit = %q", got)
	}
}

func TestAmbiguousCyclic(t *testing.T) {
	src := "A -> A A | a | "
	e := runHand(t, "A->AA|a|eps", src, []hand{
		{"", true, 0, -1, "$ a"},
		{"a", true, 1, -1, "$ a"},
		{"a a a", true, 3, -1, "$ a"},
	})
	for n := 0; n < 4; n++ {
		if c := e.CountParses(make([]int, n), 7); c != 7 {
			t.Errorf("CountParses(a^%d, 7) = %d, want 7 (infinitely many trees)", n, c)
		}
	}
	if c := e.CountParses(nil, 0); c != 0 {
		t.Errorf("CountParses cap 0 = %d", c)
	}
}

func TestHiddenLeftRecursion(t *testing.T) {
	src := "S -> N S a | b ; N -> "
	e := runHand(t, "hidden", src, []hand{
		{"", false, 0, 0, "b"},
		{"b", true, 1, -1, "$ a"},
		{"b a a", true, 3, -1, "$ a"},
		{"a", false, 0, 0, "nil"},
		{"b b", false, 1, 1, "nil"},
		{"b a b", false, 2, 2, "nil"},
	})
	g := parseG(src)
	if c := e.CountParses(g.w("b a a"), 5); c != 1 {
		t.Errorf("CountParses = %d, want 1", c)
	}
}

func TestUnproductive(t *testing.T) {
	src := "S -> a U | a b ; U -> U c"
	e := runHand(t, "unproductive", src, []hand{
		{"", false, 0, 0, "a"},
		{"a", false, 1, 1, "b"},
		{"a b", true, 2, -1, "$"},
		{"a c", false, 1, 1, "nil"},
		{"a c c", false, 1, 1, "nil"},
		{"c", false, 0, 0, "nil"},
	})
	g := parseG(src)
	if e.MinLen(g.g.NumT+1) != -1 || e.Productive(1) || !e.Productive(0) {
		t.Errorf("U should be unproductive")
	}
	if e.Reachable(1) {
		t.Errorf("U is only reachable through an unproductive production")
	}
	s := e.Step(e.Start(), g.w("a")[0])
	if !e.Viable(s) {
		t.Fatalf("a should be viable")
	}
	if s2 := e.Step(s, g.w("c")[0]); e.Viable(s2) {
		t.Errorf("a c must not be viable")
	}
	if got := enumAll(e, g, 9, 0); !reflect.DeepEqual(got, []string{"a b"}) {
		t.Errorf("Enumerate = %q", got)
	}
}

func TestEmptyLanguage(t *testing.T) {
	for _, src := range []string{"S -> S a", "S -> a U ; U -> U c", "S -> T ; T -> S"} {
		g := parseG(src)
		e := New(g.g)
		if !e.LanguageEmpty() {
			t.Errorf("%s: language should be empty", src)
		}
		for _, w := range [][]int{nil, {0}, {0, 0}} {
			if e.Accepts(w) || e.ViablePrefixLen(w) != -1 || e.FirstError(w) != 0 || e.NextTerminals(w) != nil {
				t.Errorf("%s: wrong answers on %v: %v %d %d %v", src, w, e.Accepts(w),
					e.ViablePrefixLen(w), e.FirstError(w), e.NextTerminals(w))
			}
		}
		if e.Viable(e.Start()) || e.Accepting(e.Start()) || e.Step(e.Start(), 0) != nil {
			t.Errorf("%s: start state should be dead", src)
		}
		if e.MinLen(g.g.NumT) != -1 {
			t.Errorf("%s: MinLen(S) = %d", src, e.MinLen(g.g.NumT))
		}
		if got := enumAll(e, g, 5, 0); got != nil {
			t.Errorf("%s: Enumerate = %q", src, got)
		}
		if s := e.RandomSentence(rand.New(rand.NewSource(1)).Intn, 10); s != nil {
			t.Errorf("%s: RandomSentence = %v", src, s)
		}
		if c := e.CountParses(nil, 3); c != 0 {
			t.Errorf("%s: CountParses = %d", src, c)
		}
	}
	// Nonterminal without productions, and a grammar with no nonterminals.
	e := New(Grammar{NumT: 1, NumN: 2, Start: 0, Prods: []Prod{{0, []int{0, 2}}, {0, []int{0}}}})
	if e.LanguageEmpty() || !e.Accepts([]int{0}) || e.Accepts([]int{0, 0}) || e.ViablePrefixLen([]int{0, 0}) != 1 {
		t.Errorf("nonterminal without productions mishandled")
	}
	e = New(Grammar{NumT: 2})
	if !e.LanguageEmpty() || e.Accepts(nil) || e.ViablePrefixLen(nil) != -1 {
		t.Errorf("grammar without nonterminals mishandled")
	}
}

func TestStartNullable(t *testing.T) {
	runHand(t, "startnullable", "S -> A A ; A -> a | ", []hand{
		{"", true, 0, -1, "$ a"},
		{"a", true, 1, -1, "$ a"},
		{"a a", true, 2, -1, "$"},
		{"a a a", false, 2, 2, "nil"},
	})
	// Only epsilon.
	runHand(t, "onlyeps", "S -> A ; A -> ; B -> b", []hand{
		{"", true, 0, -1, "$"},
		{"b", false, 0, 0, "nil"},
	})
}

func TestExprAmbiguity(t *testing.T) {
	g := parseG("E -> E + E | n")
	e := New(g.g)
	for _, c := range []struct {
		in   string
		want int
	}{{"n", 1}, {"n + n", 1}, {"n + n + n", 2}, {"n + n + n + n", 5}, {"n + n + n + n + n", 14}, {"n +", 0}} {
		if got := e.CountParses(g.w(c.in), 100); got != c.want {
			t.Errorf("CountParses(%q) = %d, want %d", c.in, got, c.want)
		}
	}
	if got := e.CountParses(g.w("n + n + n + n + n"), 2); got != 2 {
		t.Errorf("CountParses cap 2 = %d", got)
	}
	if got := e.CountParses(g.w("n + n + n + n + n"), int(^uint(0)>>1)); got != 14 {
		t.Errorf("CountParses cap MaxInt = %d", got)
	}
	// A cycle that is not on any parse of the input must not matter:
	// C -> C D needs D => eps, which is impossible.
	g = parseG("S -> C ; C -> C D | c ; D -> d")
	e = New(g.g)
	if got := e.CountParses(g.w("c"), 9); got != 1 {
		t.Errorf("harmless left recursion: CountParses = %d, want 1", got)
	}
	if got := e.CountParses(g.w("c d d"), 9); got != 1 {
		t.Errorf("CountParses(c d d) = %d, want 1", got)
	}
	// Unit cycle: infinitely many trees.
	g = parseG("S -> S | a")
	e = New(g.g)
	if got := e.CountParses(g.w("a"), 9); got != 9 {
		t.Errorf("unit cycle: CountParses = %d, want 9", got)
	}
	// Duplicate productions count separately.
	g = parseG("S -> a | a")
	e = New(g.g)
	if got := e.CountParses(g.w("a"), 9); got != 2 {
		t.Errorf("duplicate production: CountParses = %d, want 2", got)
	}
}

func TestStepDoesNotMutate(t *testing.T) {
	g := parseG("S -> ( S ) S | x | ")
	e := New(g.g)
	s0 := e.Start()
	open, cl, x := g.w("(")[0], g.w(")")[0], g.w("x")[0]
	s1 := e.Step(s0, open)
	before := fmt.Sprint(s1.sets[1].items, len(s1.sets))
	a := e.Step(s1, x)
	b := e.Step(s1, cl)
	c := e.Step(s1, open)
	if fmt.Sprint(s1.sets[1].items, len(s1.sets)) != before {
		t.Fatalf("Step mutated its argument")
	}
	if a.Len() != 2 || b.Len() != 2 || c.Len() != 2 || s1.Len() != 1 {
		t.Fatalf("bad prefix lengths")
	}
	// Branches must be independent: "( x )" accepted, "( )" accepted, "( ( )" not.
	if !e.Accepting(e.Step(a, cl)) || !e.Accepting(b) || e.Accepting(e.Step(c, cl)) {
		t.Errorf("branching gave wrong answers")
	}
	if e.Step(nil, x) != nil || e.Step(s0, 99) != nil || e.Step(s0, -1) != nil {
		t.Errorf("Step on nil / bad terminal should be nil")
	}
}

func TestRandomSentenceHand(t *testing.T) {
	g := parseG("S -> ( S ) S | x | ")
	e := New(g.g)
	rng := rand.New(rand.NewSource(7))
	seen := map[string]bool{}
	lens := map[int]int{}
	for i := 0; i < 2000; i++ {
		w := e.RandomSentence(rng.Intn, 12)
		if w == nil {
			t.Fatalf("nil sentence")
		}
		if len(w) > 12 || !e.Accepts(w) {
			t.Fatalf("bad sentence %q", g.str(w))
		}
		seen[g.str(w)] = true
		lens[len(w)]++
	}
	if len(seen) < 200 {
		t.Errorf("only %d distinct sentences", len(seen))
	}
	for n := 0; n <= 12; n++ {
		if lens[n] < 50 {
			t.Errorf("length %d drawn only %d times out of 2000", n, lens[n])
		}
	}
	// Zero-length result is non-nil; impossible budget gives nil.
	if w := e.RandomSentence(rng.Intn, 0); w == nil || len(w) != 0 {
		t.Errorf("RandomSentence(maxLen 0) = %v", w)
	}
	e2 := New(parseG("S -> a a a").g)
	if w := e2.RandomSentence(rng.Intn, 2); w != nil {
		t.Errorf("expected nil, got %v", w)
	}
	if w := e2.RandomSentence(rng.Intn, 3); len(w) != 3 {
		t.Errorf("expected a a a, got %v", w)
	}
	// Termination on nasty grammars (supercritical epsilon branching, cycles).
	for _, src := range []string{"A -> A A A | a | ", "S -> S | S S | T ; T -> S | a | "} {
		e := New(parseG(src).g)
		long := 0
		for i := 0; i < 500; i++ {
			w := e.RandomSentence(rng.Intn, 30)
			if w == nil || len(w) > 30 || !e.Accepts(w) {
				t.Fatalf("%s: bad sentence %v", src, w)
			}
			if len(w) >= 25 {
				long++
			}
		}
		if long < 20 {
			t.Errorf("%s: only %d/500 sentences of length >= 25", src, long)
		}
	}
}

// ---------------------------------------------------------------------------
// Independent brute-force oracle.
//
// For a bound M it computes, as least fix-points of the obvious set equations
// and with every set truncated to strings of length <= M (which loses nothing,
// since every factor of a string of length <= M has length <= M):
//
//	lang[A] = { w : A =>* w, |w| <= M }
//	pref[A] = { u : |u| <= M, u is a prefix of some (arbitrarily long) w with A =>* w }
//
// pref uses an independently computed "productive" predicate: a production
// contributes prefixes only if all its RHS symbols are productive.
// Strings are Go strings whose bytes are terminal ids.

type sset struct {
	m  map[string]bool
	by [][]string // by length
}

func newSset(M int) *sset { return &sset{m: map[string]bool{}, by: make([][]string, M+1)} }

func (s *sset) add(w string) bool {
	if s.m[w] {
		return false
	}
	s.m[w] = true
	s.by[len(w)] = append(s.by[len(w)], w)
	return true
}

func concat(a, b *sset, M int) *sset {
	out := newSset(M)
	for la := 0; la <= M; la++ {
		for lb := 0; la+lb <= M; lb++ {
			for _, x := range a.by[la] {
				for _, y := range b.by[lb] {
					out.add(x + y)
				}
			}
		}
	}
	return out
}

type brute struct {
	g          Grammar
	M          int
	productive []bool
	lang, pref []*sset
}

func newBrute(g Grammar, M int) *brute {
	b := &brute{g: g, M: M, productive: make([]bool, g.NumN)}
	symProd := func(s int) bool { return s < g.NumT || b.productive[s-g.NumT] }
	allProd := func(p Prod) bool {
		for _, s := range p.RHS {
			if !symProd(s) {
				return false
			}
		}
		return true
	}
	for changed := true; changed; {
		changed = false
		for _, p := range g.Prods {
			if !b.productive[p.LHS] && allProd(p) {
				b.productive[p.LHS] = true
				changed = true
			}
		}
	}
	tl := make([]*sset, g.NumT) // {t}
	tp := make([]*sset, g.NumT) // {"", t}
	for t := range tl {
		tl[t], tp[t] = newSset(M), newSset(M)
		if M >= 1 {
			tl[t].add(string([]byte{byte(t)}))
			tp[t].add(string([]byte{byte(t)}))
		}
		tp[t].add("")
	}
	b.lang, b.pref = make([]*sset, g.NumN), make([]*sset, g.NumN)
	for a := range b.lang {
		b.lang[a], b.pref[a] = newSset(M), newSset(M)
		if b.productive[a] {
			b.pref[a].add("")
		}
	}
	langOf := func(s int) *sset {
		if s < g.NumT {
			return tl[s]
		}
		return b.lang[s-g.NumT]
	}
	prefOf := func(s int) *sset {
		if s < g.NumT {
			return tp[s]
		}
		return b.pref[s-g.NumT]
	}
	eps := newSset(M)
	eps.add("")
	for changed := true; changed; {
		changed = false
		for _, p := range g.Prods {
			cur := eps
			ok := allProd(p)
			for _, s := range p.RHS {
				if ok {
					for _, w := range concat(cur, prefOf(s), M).by {
						for _, x := range w {
							if b.pref[p.LHS].add(x) {
								changed = true
							}
						}
					}
				}
				cur = concat(cur, langOf(s), M)
			}
			for _, w := range cur.by {
				for _, x := range w {
					if b.lang[p.LHS].add(x) {
						changed = true
					}
				}
			}
		}
	}
	return b
}

func (b *brute) sentence(w string) bool { return b.g.NumN > 0 && b.lang[b.g.Start].m[w] }
func (b *brute) viable(w string) bool   { return b.g.NumN > 0 && b.pref[b.g.Start].m[w] }

func (b *brute) vpl(w string) int {
	if !b.viable("") {
		return -1
	}
	k := 0
	for k < len(w) && b.viable(w[:k+1]) {
		k++
	}
	return k
}

func (b *brute) firstError(w string) int {
	if b.sentence(w) {
		return -1
	}
	if k := b.vpl(w); k >= 0 {
		return k
	}
	return 0
}

// next requires len(w) < M.
func (b *brute) next(w string) []int {
	if !b.viable(w) {
		return nil
	}
	out := []int{}
	if b.sentence(w) {
		out = append(out, -1)
	}
	for t := 0; t < b.g.NumT; t++ {
		if b.viable(w + string([]byte{byte(t)})) {
			out = append(out, t)
		}
	}
	return out
}

// sentences returns all sentences of length <= maxLen, shortest first, then
// lexicographic.
func (b *brute) sentences(maxLen int) []string {
	var out []string
	if b.g.NumN == 0 {
		return nil
	}
	for l := 0; l <= maxLen && l <= b.M; l++ {
		ws := append([]string(nil), b.lang[b.g.Start].by[l]...)
		sort.Strings(ws)
		out = append(out, ws...)
	}
	return out
}

// minCompletion returns the least c with some sentence of length len(w)+c
// (<= M) extending w, or -1.
func (b *brute) minCompletion(w string) int {
	if b.g.NumN == 0 {
		return -1
	}
	for l := len(w); l <= b.M; l++ {
		for _, s := range b.lang[b.g.Start].by[l] {
			if strings.HasPrefix(s, w) {
				return l - len(w)
			}
		}
	}
	return -1
}

// Brute-force parse-tree counting by bounded height on the original grammar.
// treeCount returns (count, infinite). Counts saturate at big.
const big = 1 << 40

type tcKey struct{ sym, i, j, h int }

type treeCounter struct {
	g    Grammar
	w    []int
	memo map[tcKey]int
}

func satMulAdd(acc, x, y int) int {
	if x != 0 && y > big/x {
		return big
	}
	if acc += x * y; acc > big {
		return big
	}
	return acc
}

// count returns the number of trees of height <= h rooted at sym deriving
// w[i:j] (a terminal leaf has height 0).
func (tc *treeCounter) count(sym, i, j, h int) int {
	if sym < tc.g.NumT {
		if j == i+1 && tc.w[i] == sym {
			return 1
		}
		return 0
	}
	if h <= 0 {
		return 0
	}
	key := tcKey{sym, i, j, h}
	if c, ok := tc.memo[key]; ok {
		return c
	}
	total := 0
	for _, p := range tc.g.Prods {
		if p.LHS == sym-tc.g.NumT {
			total = satMulAdd(total, 1, tc.seq(p.RHS, i, j, h-1))
		}
	}
	tc.memo[key] = total
	return total
}

func (tc *treeCounter) seq(rhs []int, i, j, h int) int {
	if len(rhs) == 0 {
		if i == j {
			return 1
		}
		return 0
	}
	total := 0
	for k := i; k <= j; k++ {
		if l := tc.count(rhs[0], i, k, h); l != 0 {
			total = satMulAdd(total, l, tc.seq(rhs[1:], k, j, h))
		}
	}
	return total
}

func bruteTreeCount(g Grammar, w []int) (n int, infinite bool) {
	if g.NumN == 0 {
		return 0, false
	}
	tc := &treeCounter{g: g, w: w, memo: map[tcKey]int{}}
	H := g.NumN*(len(w)+2) + 1
	a := tc.count(g.NumT+g.Start, 0, len(w), H)
	b := tc.count(g.NumT+g.Start, 0, len(w), 2*H)
	return a, b > a || a >= big
}

// ---------------------------------------------------------------------------
// Differential tests on random grammars.

func randGrammar(r *rand.Rand) Grammar {
	g := Grammar{NumT: 1 + r.Intn(3), NumN: 1 + r.Intn(4)}
	g.Start = r.Intn(g.NumN)
	for a := 0; a < g.NumN; a++ {
		np := r.Intn(4) // 0..3 productions
		if a == g.Start && np == 0 {
			np = 1
		}
		for i := 0; i < np; i++ {
			var n int
			switch x := r.Intn(10); {
			case x < 2:
				n = 0
			case x < 5:
				n = 1
			case x < 8:
				n = 2
			case x < 9:
				n = 3
			default:
				n = 4
			}
			p := Prod{LHS: a}
			for j := 0; j < n; j++ {
				if r.Intn(2) == 0 {
					p.RHS = append(p.RHS, r.Intn(g.NumT))
				} else {
					p.RHS = append(p.RHS, g.NumT+r.Intn(g.NumN))
				}
			}
			g.Prods = append(g.Prods, p)
		}
	}
	return g
}

func showGrammar(g Grammar) string {
	var sb strings.Builder
	fmt.Fprintf(&sb, "T=%d N=%d start=N%d:", g.NumT, g.NumN, g.Start)
	for _, p := range g.Prods {
		fmt.Fprintf(&sb, " N%d->", p.LHS)
		for _, s := range p.RHS {
			if s < g.NumT {
				fmt.Fprintf(&sb, "%c", 'a'+s)
			} else {
				fmt.Fprintf(&sb, "N%d", s-g.NumT)
			}
		}
		sb.WriteString(";")
	}
	return sb.String()
}

func toInts(w string) []int {
	out := make([]int, len(w))
	for i := range w {
		out[i] = int(w[i])
	}
	return out
}

func toStr(w []int) string {
	b := make([]byte, len(w))
	for i, x := range w {
		b[i] = byte(x)
	}
	return string(b)
}

// allStrings returns every string over numT terminals of length <= maxLen.
func allStrings(numT, maxLen int) []string {
	out := []string{""}
	for lo := 0; ; {
		hi := len(out)
		if len(out[lo]) == maxLen {
			return out
		}
		for _, w := range out[lo:hi] {
			for t := 0; t < numT; t++ {
				out = append(out, w+string([]byte{byte(t)}))
			}
		}
		lo = hi
	}
}

const (
	diffGrammars = 4000
	diffM        = 6 // bound of the brute-force sets
	diffStrLen   = 5 // strings compared
)

type diffStats struct {
	grammars, empty, infinite, withNullable, withUnproductive  int
	strings, accepted, viableFull                              int
	trieNodes, enumerated, randomDrawn, parseChecks, ambiguous int
	infiniteTrees                                              int
}

func TestDifferential(t *testing.T) {
	r := rand.New(rand.NewSource(20260923))
	var st diffStats
	fails := 0
	for gi := 0; gi < diffGrammars && fails < 10; gi++ {
		g := randGrammar(r)
		if !diffOne(t, g, r, &st, diffM, diffStrLen) {
			fails++
		}
	}
	t.Logf("%+v", st)
	if st.grammars < 2000 {
		t.Errorf("only %d grammars checked", st.grammars)
	}
}

func diffOne(t *testing.T, g Grammar, r *rand.Rand, st *diffStats, diffM, diffStrLen int) (ok bool) {
	desc := showGrammar(g)
	ok = true
	bad := func(format string, args ...any) {
		t.Helper()
		ok = false
		t.Errorf("%s\n    "+format, append([]any{desc}, args...)...)
	}
	b := newBrute(g, diffM)
	e := New(g)
	st.grammars++

	// Static facts.
	if e.LanguageEmpty() != !b.productive[g.Start] {
		bad("LanguageEmpty = %v", e.LanguageEmpty())
	}
	if e.LanguageEmpty() {
		st.empty++
	}
	anyNullable, anyUnprod := false, false
	for a := 0; a < g.NumN; a++ {
		ml := e.MinLen(g.NumT + a)
		if (ml >= 0) != b.productive[a] || e.Productive(a) != b.productive[a] {
			bad("MinLen(N%d) = %d but brute productive = %v", a, ml, b.productive[a])
		}
		want := -1
		for l := 0; l <= diffM; l++ {
			if len(b.lang[a].by[l]) > 0 {
				want = l
				break
			}
		}
		if want >= 0 && ml != want || want < 0 && ml >= 0 && ml <= diffM {
			bad("MinLen(N%d) = %d, brute %d", a, ml, want)
		}
		if e.Nullable(a) != b.lang[a].m[""] {
			bad("Nullable(N%d) = %v", a, e.Nullable(a))
		}
		anyNullable = anyNullable || e.Nullable(a)
		anyUnprod = anyUnprod || !b.productive[a]
	}
	if anyNullable {
		st.withNullable++
	}
	if anyUnprod {
		st.withUnproductive++
	}

	// Whole-string API on every string up to diffStrLen.
	for _, w := range allStrings(g.NumT, diffStrLen) {
		wi := toInts(w)
		st.strings++
		if got, want := e.Accepts(wi), b.sentence(w); got != want {
			bad("Accepts(%v) = %v, want %v", wi, got, want)
		} else if got {
			st.accepted++
		}
		if got, want := e.ViablePrefixLen(wi), b.vpl(w); got != want {
			bad("ViablePrefixLen(%v) = %d, want %d", wi, got, want)
		} else if got == len(wi) {
			st.viableFull++
		}
		if got, want := e.FirstError(wi), b.firstError(w); got != want {
			bad("FirstError(%v) = %d, want %d", wi, got, want)
		}
		if got, want := e.NextTerminals(wi), b.next(w); !reflect.DeepEqual(got, want) {
			bad("NextTerminals(%v) = %v, want %v", wi, got, want)
		}
		if !ok {
			return
		}
	}

	// Incremental API: walk the complete trie, including dead branches.
	var walk func(s *State, ups [][]int, w string)
	walk = func(s *State, ups [][]int, w string) {
		st.trieNodes++
		if e.Viable(s) != b.viable(w) || e.Accepting(s) != b.sentence(w) {
			bad("incremental %v: viable=%v accepting=%v, want %v %v", toInts(w),
				e.Viable(s), e.Accepting(s), b.viable(w), b.sentence(w))
			return
		}
		if s != nil && s.Len() != len(w) {
			bad("State.Len = %d for %v", s.Len(), toInts(w))
		}
		if got, want := e.Next(s), b.next(w); !reflect.DeepEqual(got, want) {
			bad("Next(state %v) = %v, want %v", toInts(w), got, want)
		}
		if e.Viable(s) {
			// The internal lower bound used to prune Enumerate must be exact.
			ups = append(ups[:len(ups):len(ups)], e.upCosts(s.sets, ups))
			mc, bc := e.minCompletion(s.sets, ups), b.minCompletion(w)
			if bc >= 0 && mc != bc || bc < 0 && len(w)+mc <= diffM {
				bad("minCompletion(%v) = %d, brute %d", toInts(w), mc, bc)
			}
		}
		if len(w) == diffStrLen {
			return
		}
		for tt := 0; tt < g.NumT; tt++ {
			walk(e.Step(s, tt), ups, w+string([]byte{byte(tt)}))
		}
	}
	walk(e.Start(), nil, "")
	if !ok {
		return
	}

	// Enumerate: complete, ordered, distinct; limit and early stop.
	want := b.sentences(diffM)
	var got []string
	e.Enumerate(diffM, 0, func(w []int) bool { got = append(got, toStr(w)); return true })
	st.enumerated += len(got)
	if !reflect.DeepEqual(got, want) {
		bad("Enumerate(%d) = %q, want %q", diffM, got, want)
	}
	if len(want) > 0 {
		ml := r.Intn(diffM + 1)
		lim := 1 + r.Intn(len(want))
		var w2 []string
		for _, w := range want {
			if len(w) <= ml && len(w2) < lim {
				w2 = append(w2, w)
			}
		}
		got = nil
		e.Enumerate(ml, lim, func(w []int) bool { got = append(got, toStr(w)); return true })
		if !reflect.DeepEqual(got, w2) {
			bad("Enumerate(%d,%d) = %q, want %q", ml, lim, got, w2)
		}
		stop := 1 + r.Intn(len(want))
		n := 0
		e.Enumerate(diffM, 0, func(w []int) bool { n++; return n < stop })
		if n != stop {
			bad("Enumerate did not stop when fn returned false: %d calls, want %d", n, stop)
		}
	}
	// Statistics only: a cheap indicator that the language has long sentences.
	if e.RandomSentence(r.Intn, 40) != nil && len(e.RandomSentence(r.Intn, 40)) > 20 {
		st.infinite++
	}

	// RandomSentence.
	for i := 0; i < 6; i++ {
		maxLen := r.Intn(10)
		w := e.RandomSentence(r.Intn, maxLen)
		st.randomDrawn++
		if w == nil {
			if maxLen <= diffM && len(b.sentences(maxLen)) > 0 {
				bad("RandomSentence(maxLen %d) = nil but sentences exist", maxLen)
			}
			if ml := e.MinLen(g.NumT + g.Start); ml >= 0 && ml <= maxLen {
				bad("RandomSentence(maxLen %d) = nil but MinLen = %d", maxLen, ml)
			}
			continue
		}
		if len(w) > maxLen || !e.Accepts(w) || len(w) <= diffM && !b.sentence(toStr(w)) {
			bad("RandomSentence(maxLen %d) = %v is not a sentence within the bound", maxLen, w)
		}
	}

	// The deterministic finishing mode of RandomSentence (witness derivations).
	for _, budget := range []int{0, 1, 3} {
		maxLen := r.Intn(10)
		w := e.randomSentence(r.Intn, maxLen, budget)
		if (w == nil) != (e.RandomSentence(r.Intn, maxLen) == nil) {
			bad("randomSentence(budget %d) nil-ness differs", budget)
		}
		if w != nil && (len(w) > maxLen || !e.Accepts(w)) {
			bad("randomSentence(maxLen %d, budget %d) = %v is not a sentence within the bound", maxLen, budget, w)
		}
	}

	// CountParses against brute-force tree counting (strings up to length 3,
	// plus the sentences of length 4).
	const cap = 6
	ws := allStrings(g.NumT, 3)
	for _, w := range want {
		if len(w) == 4 {
			ws = append(ws, w)
		}
	}
	for _, w := range ws {
		wi := toInts(w)
		n, inf := bruteTreeCount(g, wi)
		exp := n
		if inf || n > cap {
			exp = cap
		}
		st.parseChecks++
		if n >= 2 {
			st.ambiguous++
		}
		if inf {
			st.infiniteTrees++
		}
		if (n > 0) != b.sentence(w) {
			bad("brute oracles disagree on %v: %d trees, sentence=%v", wi, n, b.sentence(w))
		}
		if got := e.CountParses(wi, cap); got != exp {
			bad("CountParses(%v, %d) = %d, want %d (brute n=%d infinite=%v)", wi, cap, got, exp, n, inf)
		}
		if got := e.CountParses(wi, 1); got != min(exp, 1) {
			bad("CountParses(%v, 1) = %d", wi, got)
		}
	}
	return
}

// Larger hand-written grammars, compared against the brute-force oracle on
// every string up to length 6.
func TestDifferentialMidSize(t *testing.T) {
	srcs := []string{
		// expression grammar with precedence levels, calls and an unproductive alternative
		"E -> E + T | T ; T -> T * F | F ; F -> ( E ) | n | n ( A ) | - F | U ; A -> | L ; L -> E | L , E ; U -> ( U",
		// ambiguous dangling else with nullable statement lists
		"S -> i S | i S e S | x | { B } ; B -> | B S | B s",
		// nullable-heavy with hidden left recursion and a unit cycle
		"S -> A S b | C | a ; A -> | C C ; C -> | c | S | D ; D -> D d | A D",
	}
	r := rand.New(rand.NewSource(99))
	var st diffStats
	for _, src := range srcs {
		g := parseG(src)
		M := 7
		if g.g.NumT > 5 {
			M = 6
		}
		diffOne(t, g.g, r, &st, M, M-1)
	}
	t.Logf("%+v", st)
}

// Long inputs: correctness on simple closed-form languages at length 40.
func TestLongInputs(t *testing.T) {
	g := parseG("S -> ( S ) S | ")
	e := New(g.g)
	w := make([]int, 40)
	for i := range w {
		w[i] = i % 2 // ()()()...
	}
	if !e.Accepts(w) || e.CountParses(w, 3) != 1 {
		t.Errorf("()^20 should have exactly one parse")
	}
	for i := range w {
		w[i] = 0
		if i >= 20 {
			w[i] = 1
		}
	}
	if !e.Accepts(w) || e.FirstError(w[:39]) != 39 || e.ViablePrefixLen(append(w[:40:40], 1)) != 40 {
		t.Errorf("(^20 )^20 mishandled")
	}
	g = parseG("E -> E + E | E * E | n")
	e = New(g.g)
	w = g.w("n + n * n + n * n + n * n + n * n + n * n + n")
	if !e.Accepts(w) || e.CountParses(w, 1000) != 1000 || e.CountParses(w[:9], 1000) != 14 {
		t.Errorf("ambiguous expression mishandled")
	}
	rng := rand.New(rand.NewSource(5))
	for i := 0; i < 200; i++ {
		s := e.RandomSentence(rng.Intn, 40)
		if len(s) > 40 || len(s)%2 != 1 || !e.Accepts(s) {
			t.Fatalf("bad random sentence %v", s)
		}
	}
}

func TestConcurrentUse(t *testing.T) {
	g := parseG("S -> ( S ) S | x | ")
	e := New(g.g)
	var want []string
	e.Enumerate(8, 0, func(w []int) bool { want = append(want, toStr(w)); return true })
	done := make(chan bool)
	for k := 0; k < 8; k++ {
		go func(seed int64) {
			ok := true
			rng := rand.New(rand.NewSource(seed))
			for i := 0; i < 300; i++ {
				w := e.RandomSentence(rng.Intn, 5+rng.Intn(10))
				ok = ok && e.Accepts(w) && e.FirstError(w) == -1 && e.CountParses(w, 2) >= 1
				ok = ok && !e.Accepts(append(w, 1)) // unmatched ")"
			}
			var got []string
			e.Enumerate(8, 0, func(w []int) bool { got = append(got, toStr(w)); return true })
			done <- ok && reflect.DeepEqual(got, want)
		}(int64(k))
	}
	for k := 0; k < 8; k++ {
		if !<-done {
			t.Errorf("concurrent use gave wrong answers")
		}
	}
}

func BenchmarkAccepts40(b *testing.B) {
	g := parseG("E -> E + T | T ; T -> T * F | F ; F -> ( E ) | n | - F")
	e := New(g.g)
	w := e.RandomSentence(rand.New(rand.NewSource(3)).Intn, 40)
	for len(w) < 35 {
		w = e.RandomSentence(rand.New(rand.NewSource(int64(len(w)))).Intn, 40)
	}
	b.ReportAllocs()
	b.ResetTimer()
	for i := 0; i < b.N; i++ {
		if !e.Accepts(w) {
			b.Fatal("reject")
		}
	}
}

func BenchmarkRandomSentence40(b *testing.B) {
	g := parseG("E -> E + T | T ; T -> T * F | F ; F -> ( E ) | n | - F")
	e := New(g.g)
	rng := rand.New(rand.NewSource(3))
	b.ReportAllocs()
	for i := 0; i < b.N; i++ {
		e.RandomSentence(rng.Intn, 40)
	}
}
