package main

import (
	"crypto/sha256"
	"fmt"
	"strings"
	"sync"
	"time"

	"verif/internal/evidence"
	"verif/internal/gram"
	"verif/internal/hc"
	"verif/internal/oracle/cfg"
	"verif/internal/rng"
	"verif/internal/run"
	"verif/internal/specgen"
)

func init() { register("C01", checkC01) }

// caseDrawer draws distinct parser cases whose desugared grammar the
// reference builder finds LALR(1) (no qualifiers involved).
type caseDrawer struct {
	mu       sync.Mutex
	seen     map[[32]byte]bool
	drawn    int
	refRej   int
	refBudget int
	empty    int
	large    int // large grammars handed out so far
	clash    int // grammars with a rule named ERROR handed out so far
}

func newDrawer() *caseDrawer { return &caseDrawer{seen: map[[32]byte]bool{}} }

type drawOpts struct {
	errPct    int // percent of grammars that get @error productions
	bounds    int // percent with _onBounds
	noStarF   bool
	minSent   int // require at least this many sentences up to length 8
	large     bool // now and then a grammar with several hundred tokens, productions and states
	clash     bool // now and then a grammar with a rule called ERROR next to @error under the same sugar
}

func (d *caseDrawer) draw(r *rng.R, o drawOpts) *PCase {
	for try := 0; try < 4000; try++ {
		var g *gram.Grammar
		origin := ""
		sel := r.Intn(10)
		if o.large {
			// the third grammar of a run, and one in sixty after that
			d.mu.Lock()
			if (d.large == 0 && d.drawn >= 2) || r.Chance(1, 200) {
				sel = -1
				d.large++
			}
			d.mu.Unlock()
		}
		if o.clash {
			// a rule called ERROR next to @error under the same sugar: the fifth
			// grammar of a run, and one in fifty after that
			d.mu.Lock()
			if (d.clash == 0 && d.drawn >= 4) || r.Chance(1, 50) {
				sel = -2
				d.clash++
			}
			d.mu.Unlock()
		}
		switch sel {
		case -2:
			g = specgen.ErrorNameClashGrammar(r)
			origin = "rule-named-ERROR-next-to-@error-under-the-same-sugar"
		case -1:
			g = specgen.LargeGrammar(r)
			origin = "large"
		case 0, 1, 2, 3, 4:
			g = specgen.StructuredGrammar(r)
			origin = "structured"
		case 5, 6, 7, 8:
			go_ := specgen.DefaultGrammarOpts()
			go_.AllowStarF = !o.noStarF
			g = specgen.RandomGrammar(r, go_)
			origin = "random"
		default:
			go_ := specgen.DefaultGrammarOpts()
			go_.MaxRules, go_.MaxProds, go_.MaxLen, go_.MaxTok = 3, 3, 3, 3
			go_.AllowStarF = !o.noStarF
			g = specgen.RandomGrammar(r, go_)
			origin = "random-small"
		}
		if o.noStarF {
			stripStarF(g)
		}
		if sel != -2 {
			if r.Intn(100) < o.errPct {
				specgen.AddErrors(r, g)
				origin += "+error"
			}
			if r.Chance(1, 3) {
				specgen.RenameSymbols(r, g)
			}
		}
		d.mu.Lock()
		d.drawn++
		d.mu.Unlock()
		pc := &PCase{G: g, Origin: origin}
		pc.C = g.Desugar(false)
		tbl, free, ok := refConflictFree(pc.C)
		if !ok {
			d.mu.Lock()
			d.refBudget++
			d.mu.Unlock()
			continue
		}
		if !free {
			d.mu.Lock()
			d.refRej++
			d.mu.Unlock()
			continue
		}
		pc.Ref = tbl
		pc.Eng = cfg.New(toCfg(pc.C.WithoutErr()))
		if pc.Eng.LanguageEmpty() {
			d.mu.Lock()
			d.empty++
			d.mu.Unlock()
			continue
		}
		if o.minSent > 0 {
			n := 0
			pc.Eng.Enumerate(8, o.minSent, func(w []int) bool { n++; return true })
			if n < o.minSent {
				continue
			}
		}
		pc.Opt = gram.HarnessOpt{Bounds: r.Intn(100) < o.bounds, NamedLists: r.Chance(1, 3)}
		if r.Chance(1, 4) {
			// the same specification spread over several files
			pc.Split = 1 + uint64(r.Intn(1<<30))
		}
		pc.prepare()
		key := sha256.Sum256([]byte(pc.Lox))
		d.mu.Lock()
		dup := d.seen[key]
		d.seen[key] = true
		d.mu.Unlock()
		if dup {
			continue
		}
		return pc
	}
	return nil
}

func stripStarF(g *gram.Grammar) {
	for ri := range g.Rules {
		for pi := range g.Rules[ri].Prods {
			for ti := range g.Rules[ri].Prods[pi].Terms {
				if g.Rules[ri].Prods[pi].Terms[ti].Sugar == gram.StarF {
					g.Rules[ri].Prods[pi].Terms[ti].Sugar = gram.Star
				}
			}
		}
	}
}

func checkC01(c *Ctx) error {
	c.Ev = evidence.New("C01", c.Tier, c.Seed, "exploration",
		"grammars: PRNG-drawn (structured combinators, random, random-small; 15% with @error productions), kept only if the independent reference LALR(1) builder finds them conflict-free and the language non-empty, deduplicated by .lox text; real lox generates, real generated parse() runs over a scripted _Lexer. Inputs per grammar: every token string over the grammar's terminals up to a length bound (trie order), plus random sentences up to 40 tokens from the reference sampler and near-miss mutants. Oracle: Earley membership on the documented desugaring; verdict 'accepted with no @error action' must equal membership. A case is non-trivial (and counted as distinct by grammar-hash+input) if the input is a non-empty sentence, or a non-sentence that is rejected later than at its first token.")
	c.Ev.Assumptions = []string{
		"reference: Earley recogniser (internal/oracle/cfg) on the desugaring documented in docs/markdown/parser_reference.md",
		"tokens are fed by type through the generated constants; no lexer involved",
		"grammars that lox rejects although the reference finds them LALR(1) are counted here and judged by C04",
	}
	nBatches := c.N(4, 64)
	nCLI := c.N(1, 10)
	per := 32
	d := newDrawer()
	o := drawOpts{errPct: 15, bounds: 20, large: true, clash: true}
	fastOK := true
	var mu sync.Mutex
	doBatch := func(bi int) {
		r := c.R.Derive("batch", bi)
		var cases []*PCase
		for len(cases) < per {
			pc := d.draw(r, o)
			if pc == nil {
				break
			}
			cases = append(cases, pc)
		}
		mu.Lock()
		fast := bi >= nCLI && fastOK
		mu.Unlock()
		b, err := genBatch(c, cases, fast, false)
		if err != nil {
			c.Logf("batch %d: %v", bi, err)
			c.Inconclusive("batch-build-failed")
			return
		}
		defer b.Remove()
		if bi == 0 {
			ok := crossCheckFast(c, cases)
			mu.Lock()
			fastOK = ok
			mu.Unlock()
			if !ok {
				c.Ev.Set("fast_path", "switched off: output differed from CLI")
			}
		}
		c01RunBatch(c, r, b, cases)
	}
	doBatch(0)
	parallel(nBatches-1, 4, func(i int) { doBatch(i + 1) })
	c.Ev.Set("grammars_drawn", d.drawn)
	c.Ev.Set("large_grammars_drawn", d.large)
	c.Ev.Set("grammars_reference_says_conflict", d.refRej)
	c.Ev.Set("grammars_language_empty", d.empty)
	c.nontrivMin = 1000
	return nil
}

func c01RunBatch(c *Ctx, r *rng.R, b *run.Batch, cases []*PCase) {
	var jobs []hc.Job
	type plan struct {
		pc    *PCase
		alpha []int
		L     int
		many  [][]int
	}
	plans := map[int]*plan{}
	for i, pc := range cases {
		if !pc.Pkg.GenOK {
			c.Ev.Count("grammars_lox_rejected", 1)
			if c.Ev.Get("grammars_lox_rejected") <= 6 {
				c.Logf("lox rejected %s (%s): %s\n%s", pc.Pkg.Name, pc.Origin, pc.Pkg.Diag, pc.Lox)
			}
			continue
		}
		if pc.Pkg.BuildErr != "" {
			c.Violation("generated-code-does-not-compile", pc.replay("generated package does not compile:\n"+pc.Pkg.BuildErr, nil, nil, nil))
			continue
		}
		c.Ev.Count("grammars_accepted", 1)
		alpha := pc.G.Alphabet()
		L := enumLen(len(alpha), c.N(3000, 8000), 8)
		pl := &plan{pc: pc, alpha: alpha, L: L}
		rr := r.Derive("inputs", i)
		nSent := c.N(60, 200)
		for k := 0; k < nSent; k++ {
			maxLen := 4 + rr.Intn(37)
			w := pc.Eng.RandomSentence(rr.Intn, maxLen)
			if w == nil {
				continue
			}
			pl.many = append(pl.many, w)
			for m := 0; m < 3; m++ {
				pl.many = append(pl.many, mutate(rr, w, alpha))
			}
		}
		plans[i] = pl
		jobs = append(jobs, run.MkJob(2*i, pc.Pkg.Name, "enum", hc.EnumJob{Alpha: alpha, MaxLen: L, DMod: 3}))
		jobs = append(jobs, run.MkJob(2*i+1, pc.Pkg.Name, "enum", hc.EnumJob{Many: pl.many, DMod: 3}))
	}
	if len(jobs) == 0 {
		return
	}
	results, suspects, err := b.RunAll(jobs, 3*time.Minute, 20)
	if err != nil {
		c.Inconclusive("batch-run-failed")
		c.Logf("run: %v", err)
	}
	for _, sp := range suspects {
		pl := plans[sp.Job.ID/2]
		switch {
		case sp.CPUKill:
			// parse() did not return within 20 CPU-seconds on an input of at
			// most a few dozen tokens and made no observable step the
			// in-package monitor could use to prove a loop.
			c.Violation("parse-does-not-terminate", pl.pc.replay(
				fmt.Sprintf("parse() exhausted a 20 s CPU budget (normal cost: microseconds); last input announced: %s", sp.LastInput),
				[]hc.Job{sp.Job}, nil, map[string]any{"last_input": sp.LastInput}))
		case sp.Crash != "":
			c.Violation("parser-crashes-process", pl.pc.replay("the child process died while running this job:\n"+sp.Crash, []hc.Job{sp.Job}, nil, nil))
		default:
			c.Inconclusive("watchdog-not-confirmed")
		}
	}
	for i, pl := range plans {
		pc := pl.pc
		res1, err1 := decodeRes[hc.EnumRes](results[2*i])
		res2, err2 := decodeRes[hc.EnumRes](results[2*i+1])
		if hung := hangInput(err1, err2); hung != nil {
			// parse() spun without returning (CPU budget exhausted inside
			// the child). For this property that matters only if the input
			// is a sentence; otherwise it is C09's business.
			if pc.Eng.Accepts(hung) {
				c.Violation("sentence-never-accepted", pc.replay(
					fmt.Sprintf("parse() does not terminate (5 s CPU budget exhausted) on the sentence [%s]", tokString(pc.G, hung)),
					[]hc.Job{run.MkJob(1, "", "enum", hc.EnumJob{Many: [][]int{hung}})}, map[string]any{"in_language": true}, "no return"))
			} else {
				c.Ev.Count("nontermination_on_non_sentences_seen(C09)", 1)
			}
			continue
		}
		if err1 != nil || err2 != nil {
			c.Inconclusive("job-no-result")
			c.Logf("%s: %v %v", pc.Pkg.Name, err1, err2)
			continue
		}
		key := fmt.Sprintf("%x", sha256.Sum256([]byte(pc.Lox)))[:16]
		nviol := 0
		judge := func(w []int, in bool, v string) {
			c.Ev.Eval(1)
			clean := v == "A"
			if in && len(w) > 0 {
				c.Ev.Distinct(key + tokString(pc.G, w))
				c.Ev.Count("inputs_in_language", 1)
			} else if !in {
				c.Ev.Count("inputs_not_in_language", 1)
			}
			if in == clean {
				return
			}
			nviol++
			if nviol > 2 {
				return
			}
			kind := "sentence-rejected"
			if !in {
				kind = "non-sentence-accepted"
			}
			toks := make([][2]int, len(w))
			for k, t := range w {
				toks[k] = [2]int{t, 0}
			}
			c.Violation(kind, pc.replay(
				fmt.Sprintf("%s: input [%s] in L(G)=%v but parser verdict %q (A=accepted cleanly, R=rejected, E/F=@error action ran, P=panic, L=non-termination)", kind, tokString(pc.G, w), in, v),
				[]hc.Job{run.MkJob(1, "", "parse", hc.ParseJob{Toks: toks, Rec: true})},
				map[string]any{"in_language": in}, map[string]any{"verdict": v, "detail": append(res1.Detail, res2.Detail...)}))
		}
		// exhaustive part: mirror the trie walk with incremental Earley states
		idx := 0
		var cur []int
		var walk func(st *cfg.State)
		bad := false
		walk = func(st *cfg.State) {
			if idx >= len(res1.V) {
				bad = true
				return
			}
			in := st != nil && pc.Eng.Accepting(st)
			judge(cur, in, res1.V[idx])
			if !in && st != nil && len(cur) > 1 && pc.Eng.Viable(st) {
				c.Ev.Distinct(key + tokString(pc.G, cur))
			}
			idx++
			if len(cur) == pl.L {
				return
			}
			for _, a := range pl.alpha {
				var ns *cfg.State
				if st != nil {
					ns = pc.Eng.Step(st, a)
				}
				cur = append(cur, a)
				walk(ns)
				cur = cur[:len(cur)-1]
			}
		}
		walk(pc.Eng.Start())
		if bad || idx != len(res1.V) {
			c.Inconclusive("enum-result-length-mismatch")
			continue
		}
		c.Ev.Count("exhaustive_strings", idx)
		if len(res2.V) != len(pl.many) {
			c.Inconclusive("many-result-length-mismatch")
			continue
		}
		for k, w := range pl.many {
			in := pc.Eng.Accepts(w)
			judge(w, in, res2.V[k])
			if !in && pc.Eng.ViablePrefixLen(w) >= 1 {
				c.Ev.Distinct(key + tokString(pc.G, w))
			}
		}
		c.Ev.Count("sampled_strings", len(pl.many))
		// coverage
		c.Ev.Count("parser_states_seen_on_stack", len(res1.States)+0)
		seen := map[int32]bool{}
		for s := range res1.States {
			seen[s] = true
		}
		for s := range res2.States {
			seen[s] = true
		}
		c.Ev.Count("parser_states_seen_union", len(seen))
		c.Ev.Count("parser_states_total_reference", len(pc.Ref.States))
		meths := map[int]bool{}
		for m := range res1.Methods {
			meths[m] = true
		}
		for m := range res2.Methods {
			meths[m] = true
		}
		c.Ev.Count("productions_reduced", len(meths))
		c.Ev.Count("productions_total", len(pc.G.Methods(pc.Opt)))
		c.Ev.Sample(map[string]any{"lox": pc.Lox, "origin": pc.Origin, "exhaustive_len": pl.L, "alphabet": len(pl.alpha),
			"strings_checked": idx + len(pl.many), "example_input": tokString(pc.G, firstNonEmpty(pl.many)), "example_verdict": firstVerdict(res2.V, pl.many)})
	}
}

func firstNonEmpty(ws [][]int) []int {
	for _, w := range ws {
		if len(w) > 2 {
			return w
		}
	}
	return nil
}

func firstVerdict(v []string, ws [][]int) string {
	for i, w := range ws {
		if len(w) > 2 {
			return v[i]
		}
	}
	return ""
}

// hangInput extracts the input named by a "cpu-budget" job error.
func hangInput(errs ...error) []int {
	for _, err := range errs {
		if err == nil {
			continue
		}
		msg := err.Error()
		i := strings.Index(msg, "cpu-budget input=[")
		if i < 0 {
			continue
		}
		msg = msg[i+len("cpu-budget input=["):]
		if j := strings.IndexByte(msg, ']'); j >= 0 {
			msg = msg[:j]
		}
		out := []int{}
		for _, f := range strings.Fields(msg) {
			var v int
			fmt.Sscan(f, &v)
			out = append(out, v)
		}
		return out
	}
	return nil
}
