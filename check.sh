#!/bin/sh
# usage: check.sh <ID> [quick|thorough] [--replay <dir>]
# Rebuilds the driver (which links /repo's packages, build tag verif) and the
# lox binary from /repo's current working tree on every invocation.
cd "$(dirname "$0")" || exit 2
export GOFLAGS=-mod=mod GOPROXY=off GOSUMDB=off GOTOOLCHAIN=local
export VERIF_DIR="$(pwd)"
id="$1"; tier="${2:-quick}"
mkdir -p .cache/bin
bin=".cache/bin/vcheck.$$"
trap 'rm -f "$bin"' EXIT INT TERM
modflag=""
if [ -n "$VERIF_REPO" ] && [ "$VERIF_REPO" != "/repo" ]; then
  # trial runs against another checkout: link the driver against it too
  sed "s#=> /repo#=> $VERIF_REPO#" go.mod > .cache/bin/go.$$.mod
  cp go.sum .cache/bin/go.$$.sum
  modflag="-modfile=$VERIF_DIR/.cache/bin/go.$$.mod"
  export VERIF_MODFLAG="$modflag"
  trap 'rm -f "$bin" .cache/bin/go.$$.mod .cache/bin/go.$$.sum' EXIT INT TERM
fi
if ! go build $modflag -tags verif -o "$bin" ./cmd/vcheck 2>.cache/bin/build.$$.log; then
  echo "check.sh: cannot build the driver against /repo:" >&2
  cat .cache/bin/build.$$.log >&2; rm -f .cache/bin/build.$$.log
  exit 2
fi
rm -f .cache/bin/build.$$.log
if [ "$tier" = "--replay" ]; then
  "$bin" "$id" --replay "$3"
else
  "$bin" "$id" --tier "$tier"
fi
