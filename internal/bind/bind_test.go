package bind

import "testing"

func TestOracle(t *testing.T) {
	o, err := NewOracle()
	if err != nil {
		t.Fatal(err)
	}
	cases := []struct {
		vt, pt string
		want   bool
	}{
		{"*NodeA", "Tagged", true}, {"[]int", "TagList", true}, {"TagList", "[]int", true}, {"TagList", "TagMap", false},
		{"TagInt", "time.Duration", false}, {"time.Duration", "fmt.Stringer", true}, {"*big.Int", "fmt.Stringer", true},
		{"Token", "Discarder", true}, {"[]*NodeA", "[]Tagged", false}, {"func() int", "TagFunc", true}, {"Box[int]", "Tagged", false},
		{"Error", "any", true}, {"Tagged", "*NodeA", false},
	}
	for _, c := range cases {
		if got := o.Assignable(c.vt, c.pt); got != c.want {
			t.Errorf("Assignable(%s, %s) = %v", c.vt, c.pt, got)
		}
	}
}
