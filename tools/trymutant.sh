#!/bin/sh
# usage: tools/trymutant.sh <patch.diff> <ID>...   — applies the patch to /repo, runs the quick checks, reverts /repo
patch="$1"; shift
cd /repo || exit 2
if [ -n "$(git status --porcelain)" ]; then echo "/repo is not clean"; exit 2; fi
git apply "$patch" || { echo "patch does not apply"; exit 2; }
cd /verif
for id in "$@"; do
  t0=$(date +%s)
  ./check.sh $id ${TIER:-quick} > /tmp/mutant.$id.log 2>&1
  rc=$?
  echo "$id exit=$rc $(( $(date +%s) - t0 ))s violations=$(grep -c '^VIOLATION' /tmp/mutant.$id.log) | $(grep -v '^VIOLATION' /tmp/mutant.$id.log | grep -i 'violation kind' | head -2 | cut -c1-220 | tr '\n' ' ') | $(tail -1 /tmp/mutant.$id.log | cut -c1-200)"
done
cd /repo && git checkout -- . && git clean -fdq && git status --porcelain
