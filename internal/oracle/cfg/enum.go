package cfg

const inf = int(^uint(0) >> 2)

// upCosts computes, for the finished Earley set k = len(sets)-1 and every
// nonterminal A, the minimum number of further tokens needed to finish a
// sentence once an A predicted in set k has been completed (inf if no item of
// set k waits for A). ups holds the same tables for sets 0..k-1.
func (e *Engine) upCosts(sets []*eset, ups [][]int) []int {
	k := len(sets) - 1
	up := make([]int, e.numN)
	for i := range up {
		up[i] = inf
	}
	if k == 0 && e.numN > 0 {
		up[e.start] = 0
	}
	for changed := true; changed; {
		changed = false
		for _, q := range sets[k].items {
			sym := e.dotSym[q.dot]
			if sym < e.numT {
				continue
			}
			parent := up[e.dotLHS[q.dot]]
			if int(q.origin) != k {
				parent = ups[q.origin][e.dotLHS[q.dot]]
			}
			if parent == inf {
				continue
			}
			if c := e.restMin[q.dot+1] + parent; c < up[sym-e.numT] {
				up[sym-e.numT] = c
				changed = true
			}
		}
	}
	return up
}

// minCompletion returns the minimum number of tokens that must follow the
// prefix of the last set to obtain a sentence. ups must cover all sets.
func (e *Engine) minCompletion(sets []*eset, ups [][]int) int {
	best := inf
	for _, it := range sets[len(sets)-1].items {
		if p := ups[it.origin][e.dotLHS[it.dot]]; p != inf {
			if c := e.restMin[it.dot] + p; c < best {
				best = c
			}
		}
	}
	return best
}

// Enumerate calls fn for every distinct sentence of length <= maxLen, shortest
// first and then lexicographically by terminal id. It stops after limit
// sentences (limit <= 0 means no limit) or when fn returns false. Each call
// receives a fresh slice that fn may keep.
//
// It is a breadth-first walk over the viable prefixes that can still be
// completed within maxLen tokens.
func (e *Engine) Enumerate(maxLen int, limit int, fn func(w []int) bool) {
	if maxLen < 0 || e.LanguageEmpty() {
		return
	}
	type node struct {
		st  *State
		ups [][]int
		w   []int
	}
	root := node{st: e.Start()}
	root.ups = [][]int{e.upCosts(root.st.sets, nil)}
	if e.minCompletion(root.st.sets, root.ups) > maxLen {
		return
	}
	level := []node{root}
	count := 0
	for l := 0; l <= maxLen && len(level) > 0; l++ {
		for _, n := range level {
			if e.Accepting(n.st) {
				if !fn(append(make([]int, 0, l), n.w...)) {
					return
				}
				if count++; count == limit {
					return
				}
			}
		}
		if l == maxLen {
			return
		}
		var next []node
		for _, n := range level {
			for _, t := range e.Next(n.st) {
				if t < 0 {
					continue
				}
				st := e.Step(n.st, t)
				if st == nil {
					continue
				}
				ups := make([][]int, len(n.ups)+1)
				copy(ups, n.ups)
				ups[len(n.ups)] = e.upCosts(st.sets, n.ups)
				if l+1+e.minCompletion(st.sets, ups) > maxLen {
					continue
				}
				w := make([]int, l+1)
				copy(w, n.w)
				w[l] = t
				next = append(next, node{st, ups, w})
			}
		}
		level = next
	}
}

// ---------------------------------------------------------------------------
// Random sentences

// lenTable records which exact lengths each nonterminal can derive.
type lenTable struct {
	L        int
	can      [][]bool  // [nonterminal][n]: derives some string of length n
	witProd  [][]int   // [nonterminal][n]: a production achieving it
	witSplit [][][]int // [nonterminal][n]: lengths assigned to its RHS symbols
	suf      [][]bool  // [dot][n]: the symbols after the dot derive length n
}

func (lt *lenTable) canSym(e *Engine, sym, n int) bool {
	if sym < e.numT {
		return n == 1
	}
	return lt.can[sym-e.numT][n]
}

// lenTab returns a table valid for lengths 0..L (cached; grows on demand).
func (e *Engine) lenTab(L int) *lenTable {
	e.mu.Lock()
	defer e.mu.Unlock()
	if e.lt != nil && e.lt.L >= L {
		return e.lt
	}
	lt := &lenTable{L: L}
	lt.can = make([][]bool, e.numN)
	lt.witProd = make([][]int, e.numN)
	lt.witSplit = make([][][]int, e.numN)
	for a := range lt.can {
		lt.can[a] = make([]bool, L+1)
		lt.witProd[a] = make([]int, L+1)
		lt.witSplit[a] = make([][]int, L+1)
	}
	// Least fix-point. Every witness only refers to facts established strictly
	// earlier, so following witnesses always terminates.
	var pre [][]bool
	for changed := true; changed; {
		changed = false
		for p, rhs := range e.prods {
			a := e.lhs[p]
			for len(pre) < len(rhs)+1 {
				pre = append(pre, make([]bool, L+1))
			}
			for i := range pre[:len(rhs)+1] {
				for x := range pre[i] {
					pre[i][x] = false
				}
			}
			pre[0][0] = true
			for i, sym := range rhs {
				for x := 0; x <= L; x++ {
					if !pre[i][x] {
						continue
					}
					for l := 0; x+l <= L; l++ {
						if lt.canSym(e, sym, l) {
							pre[i+1][x+l] = true
						}
					}
				}
			}
			for n := 0; n <= L; n++ {
				if !pre[len(rhs)][n] || lt.can[a][n] {
					continue
				}
				split := make([]int, len(rhs))
				rem := n
				for i := len(rhs) - 1; i >= 0; i-- {
					for l := 0; l <= rem; l++ {
						if lt.canSym(e, rhs[i], l) && pre[i][rem-l] {
							split[i] = l
							rem -= l
							break
						}
					}
				}
				lt.witProd[a][n] = p
				lt.witSplit[a][n] = split
				lt.can[a][n] = true
				changed = true
			}
		}
	}
	lt.suf = make([][]bool, e.ndots)
	for p, rhs := range e.prods {
		o := e.off[p]
		for i := range rhs {
			lt.suf[o+i] = make([]bool, L+1)
		}
		lt.suf[o+len(rhs)] = make([]bool, L+1)
		lt.suf[o+len(rhs)][0] = true
		for i := len(rhs) - 1; i >= 0; i-- {
			for l := 0; l <= L; l++ {
				if !lt.canSym(e, rhs[i], l) {
					continue
				}
				for x := 0; l+x <= L; x++ {
					if lt.suf[o+i+1][x] {
						lt.suf[o+i][l+x] = true
					}
				}
			}
		}
	}
	e.lt = lt
	return lt
}

// RandomSentence returns a random sentence of length <= maxLen, or nil if
// there is none (a zero-length sentence is a non-nil empty slice). next(n)
// must return a uniform int in [0,n), n > 0.
//
// The target length is drawn uniformly from the lengths <= maxLen that the
// language actually contains; then a random leftmost derivation is performed
// in which every production choice and every split of the remaining length
// over the RHS symbols is drawn uniformly among the feasible ones. Symbols
// assigned length 0 are not expanded. After a generous number of expansions
// (only reachable through unit-like cycles) the derivation is finished
// deterministically.
func (e *Engine) RandomSentence(next func(n int) int, maxLen int) []int {
	return e.randomSentence(next, maxLen, -1)
}

// randomSentence is RandomSentence with an explicit budget of random
// expansions (budget < 0 selects the default); tests use it to exercise the
// deterministic finishing mode.
func (e *Engine) randomSentence(next func(n int) int, maxLen, budget int) []int {
	if maxLen < 0 || e.LanguageEmpty() || e.minLen[e.start] > maxLen {
		return nil
	}
	pick := func(n int) int {
		r := next(n)
		if r < 0 || r >= n {
			r = ((r % n) + n) % n
		}
		return r
	}
	lt := e.lenTab(maxLen)
	nl := 0
	for n := 0; n <= maxLen; n++ {
		if lt.can[e.start][n] {
			nl++
		}
	}
	if nl == 0 {
		return nil
	}
	target := 0
	for n, r := 0, pick(nl); n <= maxLen; n++ {
		if lt.can[e.start][n] {
			if r == 0 {
				target = n
				break
			}
			r--
		}
	}
	type frame struct{ sym, n int }
	out := make([]int, 0, target)
	stack := []frame{{e.numT + e.start, target}}
	var cand []int
	steps, maxSteps := 0, budget
	if budget < 0 {
		maxSteps = 64 + 16*target
	}
	for len(stack) > 0 {
		f := stack[len(stack)-1]
		stack = stack[:len(stack)-1]
		if f.n == 0 {
			continue
		}
		if f.sym < e.numT {
			out = append(out, f.sym)
			continue
		}
		a := f.sym - e.numT
		steps++
		if steps > maxSteps {
			p, split := lt.witProd[a][f.n], lt.witSplit[a][f.n]
			rhs := e.prods[p]
			for i := len(rhs) - 1; i >= 0; i-- {
				stack = append(stack, frame{rhs[i], split[i]})
			}
			continue
		}
		cand = cand[:0]
		for _, p := range e.byLHS[a] {
			if lt.suf[e.off[p]][f.n] {
				cand = append(cand, p)
			}
		}
		p := cand[pick(len(cand))]
		rhs, o := e.prods[p], e.off[p]
		base := len(stack)
		rem := f.n
		for i, sym := range rhs {
			cand = cand[:0]
			for l := 0; l <= rem; l++ {
				if lt.canSym(e, sym, l) && lt.suf[o+i+1][rem-l] {
					cand = append(cand, l)
				}
			}
			l := cand[pick(len(cand))]
			stack = append(stack, frame{sym, l})
			rem -= l
		}
		// children were pushed left to right; the leftmost must be on top.
		for i, j := base, len(stack)-1; i < j; i, j = i+1, j-1 {
			stack[i], stack[j] = stack[j], stack[i]
		}
	}
	return out
}

// ---------------------------------------------------------------------------
// Parse counting

// CountParses returns the number of distinct parse trees of w (two trees are
// distinct if they differ in the production used at some node, so duplicated
// productions count separately), saturating at cap. If w has infinitely many
// trees (cyclic grammar) the result is cap. It returns 0 if cap <= 0.
func (e *Engine) CountParses(w []int, cap int) int {
	if cap <= 0 || e.LanguageEmpty() {
		return 0
	}
	n := len(w)
	n1 := n + 1
	span := func(i, j int) int { return i*n1 + j }

	// Phase 1: derivability. ds[dot][span(i,j)] = the symbols after the dot
	// derive w[i:j]; dn[a][span(i,j)] = nonterminal a derives w[i:j].
	ds := make([][]bool, e.ndots)
	for d := range ds {
		ds[d] = make([]bool, n1*n1)
	}
	dn := make([][]bool, e.numN)
	for a := range dn {
		dn[a] = make([]bool, n1*n1)
	}
	symD := func(sym, i, k int) bool {
		if sym < e.numT {
			return k == i+1 && w[i] == sym
		}
		return dn[sym-e.numT][span(i, k)]
	}
	for ln := 0; ln <= n; ln++ {
		for i := 0; i+ln <= n; i++ {
			j := i + ln
			// Dependencies on the same span are resolved by iterating.
			for changed := true; changed; {
				changed = false
				for p, rhs := range e.prods {
					o := e.off[p]
					if ln == 0 {
						ds[o+len(rhs)][span(i, j)] = true
					}
					for pos := len(rhs) - 1; pos >= 0; pos-- {
						if ds[o+pos][span(i, j)] {
							continue
						}
						for k := i; k <= j; k++ {
							if symD(rhs[pos], i, k) && ds[o+pos+1][span(k, j)] {
								ds[o+pos][span(i, j)] = true
								changed = true
								break
							}
						}
					}
					if ds[o][span(i, j)] && !dn[e.lhs[p]][span(i, j)] {
						dn[e.lhs[p]][span(i, j)] = true
						changed = true
					}
				}
			}
		}
	}
	if !dn[e.start][span(0, n)] {
		return 0
	}

	// Phase 2: count, only ever descending into derivable pieces. Every node
	// visited therefore has at least one tree, and meeting a node that is
	// still being evaluated means it has infinitely many.
	const (
		unseen     = -1
		inProgress = -2
	)
	cn := make([][]int, e.numN)
	for a := range cn {
		cn[a] = make([]int, n1*n1)
		for x := range cn[a] {
			cn[a][x] = unseen
		}
	}
	cs := make([][]int, e.ndots)
	for d := range cs {
		cs[d] = make([]int, n1*n1)
		for x := range cs[d] {
			cs[d][x] = unseen
		}
	}
	add := func(x, y int) int { // saturating, x and y in [0,cap]
		if y >= cap-x {
			return cap
		}
		return x + y
	}
	var countN func(a, i, j int) int
	var countS func(p, pos, i, j int) int
	countN = func(a, i, j int) int {
		switch c := cn[a][span(i, j)]; c {
		case inProgress:
			return cap
		case unseen:
		default:
			return c
		}
		cn[a][span(i, j)] = inProgress
		total := 0
		for _, p := range e.byLHS[a] {
			if ds[e.off[p]][span(i, j)] {
				total = add(total, countS(p, 0, i, j))
			}
		}
		cn[a][span(i, j)] = total
		return total
	}
	countS = func(p, pos, i, j int) int {
		rhs := e.prods[p]
		if pos == len(rhs) {
			return 1 // only called on derivable pieces, so i == j
		}
		d := e.off[p] + pos
		if c := cs[d][span(i, j)]; c != unseen {
			return c
		}
		total := 0
		for k := i; k <= j; k++ {
			if !symD(rhs[pos], i, k) || !ds[d+1][span(k, j)] {
				continue
			}
			left := 1
			if rhs[pos] >= e.numT {
				left = countN(rhs[pos]-e.numT, i, k)
			}
			right := countS(p, pos+1, k, j) // left, right in [1,cap]
			prod := cap
			if right <= cap/left {
				prod = left * right
			}
			total = add(total, prod)
		}
		cs[d][span(i, j)] = total
		return total
	}
	return countN(e.start, 0, n)
}
