package gram

import (
	"fmt"
	"sort"
	"strings"
)

// HarnessOpt selects variants of the Go side.
type HarnessOpt struct {
	Bounds bool // define _onBounds
	// NamedLists declares `type Nodes []*Node` / `type Toks []Token` and uses
	// them as the parameter types of list-valued terms (assignable from, but
	// not identical to, the []*Node / []Token the sugar produces).
	NamedLists bool
	// AnyRules: bit i set = the methods of rule i are declared to return `any`
	// (terms referring to it have the Go type any / []any). NilSeed != 0: about
	// half of the methods of those rules record their call and then return an
	// untyped nil (see ReturnsNil).
	AnyRules uint64
	NilSeed  uint64
}

// IsAny reports whether rule ri is typed any.
func (o HarnessOpt) IsAny(ri int) bool { return ri < 64 && o.AnyRules&(1<<uint(ri)) != 0 }

// ReturnsNil reports whether the method with that id of rule ri returns nil.
func (o HarnessOpt) ReturnsNil(ri, methodID int) bool {
	if !o.IsAny(ri) || o.NilSeed == 0 {
		return false
	}
	z := (uint64(methodID) + 1) * (o.NilSeed | 1) * 0x9E3779B97F4A7C15
	return (z>>33)%2 == 0
}

// goType returns the Go parameter type of a term in the parser-only harness.
func (g *Grammar) goType(t Term, opt HarnessOpt) string {
	base := ""
	switch t.Ref.Kind {
	case KTok:
		base = "Token"
	case KRule:
		base = "*Node"
		if opt.IsAny(t.Ref.Idx) {
			base = "any"
		}
	case KErr:
		base = "Error"
	}
	switch t.Sugar {
	case None, Opt:
		return base
	default:
		return "[]" + base
	}
}

// MethodInfo describes one generated action method.
type MethodInfo struct {
	ID    int    // value passed to H.Act
	Name  string // Go method name
	Rule  int
	Prods []int // production indices (within the rule) bound to this method
}

// Methods computes the method layout: one method per (rule, signature); its
// id is the global number of the first production bound to it.
func (g *Grammar) Methods(opt HarnessOpt) []MethodInfo {
	var out []MethodInfo
	id := 0
	for ri, r := range g.Rules {
		bySig := map[string]int{}
		for pi, p := range r.Prods {
			sig := make([]string, len(p.Terms))
			for i, t := range p.Terms {
				sig[i] = g.goType(t, opt)
			}
			key := strings.Join(sig, ",")
			// lox requires exactly one matching method per production, so
			// productions of a rule with the same Go signature must share
			// their method.
			if mi, ok := bySig[key]; ok {
				out[mi].Prods = append(out[mi].Prods, pi)
				id++
				continue
			}
			bySig[key] = len(out)
			out = append(out, MethodInfo{ID: id, Name: fmt.Sprintf("on_%s__p%d", r.Name, pi), Rule: ri, Prods: []int{pi}})
			id++
		}
	}
	return out
}

// Harness renders harness.go (package clause "package PKGNAME" is replaced by
// the runner), the real internals.go and the stub.
func (g *Grammar) Harness(opt HarnessOpt) (harness, internals, stub string) {
	var sb strings.Builder
	if g.WithLex {
		sb.WriteString("package PKGNAME\n\nimport (\n\t\"batch/hc\"\n\n\t\"github.com/dcaiafa/loxlex/simplelexer\"\n)\n\n")
	} else {
		sb.WriteString("package PKGNAME\n\nimport \"batch/hc\"\n\n")
	}
	sb.WriteString("type Token = hc.Token\ntype Node = hc.Node\n\n")
	sb.WriteString("type P struct {\n\tlox\n\tH *hc.H\n}\n\n")
	if opt.NamedLists {
		sb.WriteString("type Nodes []*Node\ntype Toks []Token\n\n")
	}
	for _, m := range g.Methods(opt) {
		r := g.Rules[m.Rule]
		p := r.Prods[m.Prods[0]]
		params := make([]string, len(p.Terms))
		args := make([]string, len(p.Terms))
		for i, t := range p.Terms {
			ty := g.goType(t, opt)
			params[i] = fmt.Sprintf("a%d %s", i, ty)
			if opt.NamedLists && (ty == "[]*Node" || ty == "[]Token") {
				named := map[string]string{"[]*Node": "Nodes", "[]Token": "Toks"}[ty]
				params[i] = fmt.Sprintf("a%d %s", i, named)
				args[i] = fmt.Sprintf("%s(a%d)", ty, i)
				continue
			}
			switch ty {
			case "Error":
				args[i] = fmt.Sprintf("hc.Err{Tok: a%d.Token, Exp: a%d.Expected}", i, i)
			case "[]Error":
				args[i] = fmt.Sprintf("errs(a%d)", i)
			default:
				args[i] = fmt.Sprintf("a%d", i)
			}
		}
		call := fmt.Sprintf("p.H.Act(%d", m.ID)
		if len(args) > 0 {
			call += ", " + strings.Join(args, ", ")
		}
		call += ")"
		switch {
		case opt.ReturnsNil(m.Rule, m.ID):
			fmt.Fprintf(&sb, "func (p *P) %s(%s) any { %s; return nil }\n", m.Name, strings.Join(params, ", "), call)
		case opt.IsAny(m.Rule):
			fmt.Fprintf(&sb, "func (p *P) %s(%s) any { return %s }\n", m.Name, strings.Join(params, ", "), call)
		default:
			fmt.Fprintf(&sb, "func (p *P) %s(%s) *Node { return %s }\n", m.Name, strings.Join(params, ", "), call)
		}
	}
	sb.WriteString("\nfunc errs(es []Error) []hc.Err {\n\tout := make([]hc.Err, len(es))\n\tfor i, e := range es {\n\t\tout[i] = hc.Err{Tok: e.Token, Exp: e.Expected}\n\t}\n\treturn out\n}\n")
	if opt.Bounds {
		sb.WriteString("\nfunc (p *P) _onBounds(r any, b, e Token) { p.H.Bounds(r, b, e) }\n")
	}
	names := []string{"EOF", "ERROR"}
	for _, t := range g.Tokens {
		names = append(names, t.Name)
	}
	sort.Strings(names)
	sb.WriteString("\nvar Entry = &hc.Entry{\n\tConsts: map[string]int{")
	for i, n := range names {
		if i > 0 {
			sb.WriteString(", ")
		}
		fmt.Fprintf(&sb, "%q: %s", n, n)
	}
	sb.WriteString("},\n\tTokStr: _TokenToString,\n")
	sb.WriteString("\tParse: func(h *hc.H) bool {\n\t\tp := &P{H: h}\n\t\th.Tap = tap(p)\n\t\treturn p.parse(h)\n\t},\n")
	if g.WithLex {
		sb.WriteString("\tLex: &hc.LexEntry{New: func() (simplelexer.StateMachine, func() hc.LexCfg) {\n\t\tsm := new(_LexerStateMachine)\n\t\treturn sm, lexTap(sm)\n\t}},\n")
	}
	sb.WriteString("}\n")

	internals = `package PKGNAME

import "batch/hc"

// tap reads the unexported parser configuration. This file is written after
// lox has run (lox type-checks the package against a placeholder lox struct).
func tap(p *P) func() hc.Config {
	return func() hc.Config {
		st := make([]int32, len(p._stack))
		var errs []int
		for i := range p._stack {
			st[i] = p._stack[i].State
			switch e := p._stack[i].Sym.(type) {
			case Error:
				if e.Token.Seq != 0 { // the empty alternative of '@error?' leaves a zero Error: no error
					errs = append(errs, e.Token.Seq)
				}
			case []Error:
				for _, x := range e {
					errs = append(errs, x.Token.Seq)
				}
			}
		}
		return hc.Config{States: st, La: p._la, Qla: p._qla, Errs: errs}
	}
}
`
	stub = `package PKGNAME

import "batch/hc"

func tap(p *P) func() hc.Config { return nil }
`
	if g.WithLex {
		internals += `
func lexTap(sm *_LexerStateMachine) func() hc.LexCfg {
	idx := func(m []uint32) int {
		if m == nil {
			return 0
		}
		for i, t := range _lexerModes {
			if len(t) > 0 && len(m) > 0 && &t[0] == &m[0] {
				return i
			}
		}
		return -1
	}
	return func() hc.LexCfg {
		c := hc.LexCfg{State: sm.state, Mode: idx(sm.mode)}
		for _, m := range sm.modeStack {
			c.Stack = append(c.Stack, idx(m))
		}
		return c
	}
}
`
		stub += `
func lexTap(sm *_LexerStateMachine) func() hc.LexCfg { return nil }
`
	}
	return sb.String(), internals, stub
}

// GoType is a Go type spelled in source, with the import it needs ("" none).
type GoType struct {
	Expr   string
	Import string
}

// StdPalette are imported types used to exercise import handling and type
// spelling in generated code.
var StdPalette = []GoType{
	{"*bytes.Buffer", "bytes"}, {"*strings.Builder", "strings"}, {"time.Duration", "time"},
	{"*big.Int", "math/big"}, {"*url.URL", "net/url"}, {"*list.List", "container/list"},
	{"fmt.Stringer", "fmt"}, {"io.Reader", "io"}, {"sort.IntSlice", "sort"}, {"*regexp.Regexp", "regexp"},
	{"int", ""}, {"[]string", ""}, {"map[string]int", ""}, {"any", ""}, {"any", ""}, {"Token", ""}, {"[]Token", ""},
}

// TypedHarness renders a harness whose rules return the given Go types (one
// per rule) and whose actions do nothing: it is only good for generating and
// compiling, not for running.
func (g *Grammar) TypedHarness(types []GoType, bounds bool) string {
	tyOf := func(t Term) string {
		base := ""
		switch t.Ref.Kind {
		case KTok:
			base = "Token"
		case KRule:
			base = types[t.Ref.Idx].Expr
		case KErr:
			base = "Error"
		}
		switch t.Sugar {
		case None, Opt:
			return base
		}
		return "[]" + base
	}
	imports := map[string]bool{}
	for _, t := range types {
		if t.Import != "" {
			imports[t.Import] = true
		}
	}
	var paths []string
	for p := range imports {
		paths = append(paths, p)
	}
	sort.Strings(paths)
	var sb strings.Builder
	sb.WriteString("package PKGNAME\n\nimport (\n\t\"batch/hc\"\n")
	for _, p := range paths {
		fmt.Fprintf(&sb, "\t%q\n", p)
	}
	sb.WriteString(")\n\ntype Token = hc.Token\n\ntype P struct {\n\tlox\n}\n\n")
	for ri, r := range g.Rules {
		seen := map[string]bool{}
		for pi, p := range r.Prods {
			params := make([]string, len(p.Terms))
			for i, t := range p.Terms {
				params[i] = fmt.Sprintf("a%d %s", i, tyOf(t))
			}
			sig := strings.Join(params, ", ")
			key := sig
			for i := range p.Terms {
				key = strings.ReplaceAll(key, fmt.Sprintf("a%d ", i), "")
			}
			if seen[key] {
				continue
			}
			seen[key] = true
			fmt.Fprintf(&sb, "func (p *P) on_%s__p%d(%s) %s {\n\tvar z %s\n\treturn z\n}\n\n", r.Name, pi, sig, types[ri].Expr, types[ri].Expr)
		}
	}
	if bounds {
		sb.WriteString("func (p *P) _onBounds(r any, b, e Token) {}\n\n")
	}
	sb.WriteString("var Entry = &hc.Entry{}\n")
	return sb.String()
}

// altSpelling gives another way of writing the same Go type ("" if none):
// identical to the type checker, different as text.
func altSpelling(expr string) string {
	switch expr {
	case "any":
		return "interface{}"
	case "Token":
		return "hc.Token"
	case "[]Token":
		return "[]hc.Token"
	}
	return ""
}

// TypedHarnessFiles is TypedHarness spread over two Go files: the methods of
// every rule alternate between harness.go and harness_b.go, and the second
// file writes types that have another spelling (any / interface{}, Token /
// hc.Token) the other way. What the generator prints must not depend on which
// file it happens to look at first.
func (g *Grammar) TypedHarnessFiles(types []GoType, bounds bool) map[string]string {
	one := g.TypedHarness(types, bounds)
	i := strings.Index(one, "func (p *P) on_")
	j := strings.Index(one, "var Entry = ")
	if i < 0 || j < i {
		return map[string]string{"harness.go": one}
	}
	head, body, tail := one[:i], one[i:j], one[j:]
	var a, b strings.Builder
	a.WriteString(head)
	// second file: same imports (those it does not use are blanked)
	b.WriteString(head[:strings.Index(head, ")\n")+2])
	b.WriteString("\nvar _ = hc.Token{}\n")
	imp := head[strings.Index(head, "import ("):strings.Index(head, ")\n")]
	k := 0
	for _, m := range strings.SplitAfter(body, "\n}\n\n") {
		if !strings.HasPrefix(m, "func (p *P) on_") {
			a.WriteString(m)
			continue
		}
		if k%2 == 1 {
			// result type is the text between the parameter list and " {"
			nl := strings.Index(m, " {\n")
			rp := strings.LastIndex(m[:nl], ") ")
			ret := m[rp+2 : nl]
			if alt := altSpelling(ret); alt != "" {
				m = m[:rp+2] + alt + m[nl:]
				m = strings.Replace(m, "var z "+ret+"\n", "var z "+alt+"\n", 1)
			}
			b.WriteString(m)
		} else {
			a.WriteString(m)
		}
		k++
	}
	a.WriteString(tail)
	bs := b.String()
	// blank out the imports harness_b.go does not use
	for _, line := range strings.Split(imp, "\n") {
		line = strings.TrimSpace(line)
		if !strings.HasPrefix(line, "\"") || line == "\"batch/hc\"" {
			continue
		}
		path := strings.Trim(line, "\"")
		name := path[strings.LastIndex(path, "/")+1:]
		if !strings.Contains(bs[strings.Index(bs, ")\n"):], name+".") {
			bs = strings.Replace(bs, "\t"+line+"\n", "\t_ "+line+"\n", 1)
		}
	}
	as := a.String()
	for _, line := range strings.Split(imp, "\n") {
		line = strings.TrimSpace(line)
		if !strings.HasPrefix(line, "\"") || line == "\"batch/hc\"" {
			continue
		}
		path := strings.Trim(line, "\"")
		name := path[strings.LastIndex(path, "/")+1:]
		if !strings.Contains(as[strings.Index(as, ")\n"):], name+".") {
			as = strings.Replace(as, "\t"+line+"\n", "\t_ "+line+"\n", 1)
		}
	}
	return map[string]string{"harness.go": as, "harness_b.go": bs}
}
