#!/bin/bash
# usage: tools/regress_seeded.sh [seed] [parallel]
# Runs every stored seeded change (seeded/*/patch.diff) against the first quick
# check that meta.json says catches it, on a scratch worktree of /repo
# (tools/trymutant2.sh), and reports the ones that are NOT caught at this seed.
seed="${1:-1}"; par="${2:-3}"
cd "$(dirname "$0")/.." || exit 2
out="${TMPDIR:-/tmp}/regress_seeded.$seed.log"; : > "$out"
run_one() {
  d="$1"; n=$(basename "$d")
  ids=$(python3 -c "import json,sys; print(' '.join(json.load(open('$d/meta.json'))['caught_by_quick_checks'][:1]))")
  r=$(VERIF_SEED=$SEED tools/trymutant2.sh "$PWD/$d/patch.diff" $ids 2>&1 | grep ' exit=' | cut -c1-160 | tr '\n' ';')
  echo "$n: $r"
}
export -f run_one; export SEED="$seed"
ls -d seeded/*/ | sed 's#/$##' | xargs -P "$par" -I{} bash -c 'run_one {}' >> "$out" 2>&1
echo "--- not caught at seed $seed:"; grep -v 'exit=1' "$out"
echo "--- $(grep -c 'exit=1' "$out") of $(ls -d seeded/*/ | wc -l) caught (log: $out)"
