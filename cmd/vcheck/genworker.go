package main

import (
	"bytes"
	"crypto/sha256"
	"encoding/json"
	"fmt"
	"go/importer"
	gotoken "go/token"
	"os"
	"path/filepath"
	"runtime/debug"
	"strings"

	"github.com/dcaiafa/lox/verifhook"

	"verif/internal/run"
)

// genWorker runs in the batch directory (cwd) and generates every listed
// package in-process through the verif hook: the same stages as the CLI with
// packages.Load replaced by go/types + a shared source importer. One JSON
// line per package on stdout.
func genWorker(args []string) {
	report := false
	repeat := 1
	for len(args) > 0 && strings.HasPrefix(args[0], "-") {
		switch {
		case args[0] == "-report":
			report = true
		case strings.HasPrefix(args[0], "-repeat="):
			fmt.Sscan(strings.TrimPrefix(args[0], "-repeat="), &repeat)
		}
		args = args[1:]
	}
	imp := importer.ForCompiler(gotoken.NewFileSet(), "source", nil)
	enc := json.NewEncoder(os.Stdout)
	for _, name := range args {
		for rep := 0; rep < repeat; rep++ {
			res := run.GenResult{Name: name}
			func() {
				var diag, rep bytes.Buffer
				defer func() {
					if r := recover(); r != nil {
						res.OK = false
						res.Panic = fmt.Sprintf("%v\n%s", r, debug.Stack())
					}
					res.Diag = diag.String()
					res.Report = rep.String()
				}()
				var repW *bytes.Buffer
				if report {
					repW = &rep
				}
				if repW != nil {
					res.OK = verifhook.GenerateFast(name, imp, "batch/"+name, &diag, repW)
				} else {
					res.OK = verifhook.GenerateFast(name, imp, "batch/"+name, &diag, nil)
				}
			}()
			if repeat > 1 {
				// determinism runs: report a digest of everything written
				h := sha256.New()
				for _, fn := range []string{"base.gen.go", "lexer.gen.go", "parser.gen.go"} {
					data, _ := os.ReadFile(filepath.Join(name, fn))
					fmt.Fprintf(h, "%s:%d:", fn, len(data))
					h.Write(data)
				}
				h.Write([]byte(res.Report))
				res.Report = fmt.Sprintf("%x", h.Sum(nil))
			}
			enc.Encode(&res)
		}
	}
}

// selfTestGen generates the given directory with both paths and compares
// (debug helper).
func selfTestGen(args []string) {
	fmt.Println("not implemented")
}
