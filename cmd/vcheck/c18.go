package main

import (
	"fmt"
	"os"
	"path/filepath"
	"regexp"
	"sort"
	"strings"
	"time"

	"verif/internal/evidence"
	"verif/internal/gram"
	"verif/internal/hc"
	"verif/internal/rng"
	"verif/internal/run"
	"verif/internal/specgen"
)

func init() { register("C18", checkC18) }

var raceFrameRe = regexp.MustCompile(`(?m)^\s+([^\s]+\(\))?\s*$|^  ([\w./*()\[\]]+)\(`)

// dedupRaces splits race-detector logs into reports and keys them by the
// top frames of the two accesses (line numbers stripped).
func dedupRaces(text string) map[string]string {
	out := map[string]string{}
	parts := strings.Split(text, "WARNING: DATA RACE")
	for _, p := range parts[1:] {
		var frames []string
		for _, line := range strings.Split(p, "\n") {
			t := strings.TrimSpace(line)
			if strings.HasSuffix(t, ")") && strings.Contains(t, "(") && !strings.HasPrefix(t, "/") && !strings.Contains(t, " ") {
				frames = append(frames, t)
			}
			if len(frames) >= 4 {
				break
			}
		}
		key := strings.Join(frames, " | ")
		if _, ok := out[key]; !ok {
			rep := "WARNING: DATA RACE" + p
			if len(rep) > 3000 {
				rep = rep[:3000]
			}
			out[key] = rep
		}
	}
	return out
}

func checkC18(c *Ctx) error {
	c.Ev = evidence.New("C18", c.Tier, c.Seed, "exploration",
		"one harness binary links 7 generated packages (two @error-recovery parsers, one of them with _onBounds; a structured grammar with _onBounds; a multi-mode lexer; a non-greedy lexer; a many-token specification used for both lexing and parsing; and a second package generated from the same grammar text as the first) and is built with -race. Every job is a parse over scripted tokens (half of them with syntax errors and ERROR tokens) or a lex run over bytes, on a fresh instance each. For each of 8, 32 and 128 goroutines a fresh process runs all jobs for several rounds at once, starting cold (the first thing that process does with the generated packages is the first concurrent round, so lazily initialised shared state would be first touched concurrently); runtime.Gosched() is injected in ReadToken, in every action and in PushRune from per-goroutine PRNGs, and which jobs run side by side is re-shuffled every round. In every other round the harness shares nothing between the goroutines (no counters, locks or channels), so that it adds no happens-before edges that could hide a race from the detector; the remaining rounds count goroutine switches between monitored events and jobs in flight for this evidence. Only after the concurrent phase is every job run alone for the baseline digest of its complete event log. Oracles: zero 'WARNING: DATA RACE' blocks in the race detector's log (GORACE halt_on_error=0, counted and deduplicated by top frames) and every concurrent run's digest equal to its baseline. Non-trivial: jobs that ran while at least one other job was in flight; distinct by batch+job index.")
	c.Ev.Assumptions = []string{
		"the race detector reports races on executions it sees; injected yields and three goroutine counts vary the interleavings",
		"the in-child CPU watchdog is switched off for this check (it is harness state, not generated code)",
	}
	nBatches := c.N(2, 12)
	for bi := 0; bi < nBatches; bi++ {
		r := c.R.Derive("batch", bi)
		if err := c18Batch(c, r, bi); err != nil {
			c.Logf("batch %d: %v", bi, err)
			c.Inconclusive("batch-failed")
		}
	}
	c.nontrivMin = 200
	return nil
}

func c18Batch(c *Ctx, r *rng.R, bi int) error {
	d := newDrawer()
	var pcs []*PCase
	e1 := drawErrCase(d, r)
	e1.Opt = gram.HarnessOpt{Bounds: false}
	e1.Files = nil
	e1.prepare()
	e2 := drawErrCase(d, r)
	e2.Opt = gram.HarnessOpt{Bounds: true}
	e2.Files = nil
	e2.prepare()
	s1 := d.draw(r, drawOpts{bounds: 100, minSent: 3})
	twin := *e1 // same grammar text, different package
	ld := newLexDrawer()
	l1 := ld.draw(r, specgen.LexOpts{Modes: true, Frags: true, NoNullable: true, MaxRules: 5}, "modes", noNullableRule)
	ngs, nga := specgen.NonGreedyLexer(r)
	l2 := newLCase(ngs, nga, "non-greedy", false)
	both := drawC19(r)
	pcs = append(pcs, e1, e2, s1, &twin, &l1.PCase, &l2.PCase, &both.PCase)
	b, err := c.Env.NewBatch()
	if err != nil {
		return err
	}
	defer b.Remove()
	for _, pc := range pcs {
		p, err := b.Add(pc.Files, pc.Intern, pc.Stub, pc)
		if err != nil {
			return err
		}
		pc.Pkg = p
	}
	b.GenerateCLI(false)
	for _, pc := range pcs {
		if !pc.Pkg.GenOK {
			return fmt.Errorf("lox rejected %s: %s", pc.Pkg.Name, pc.Pkg.Diag)
		}
	}
	t0 := time.Now()
	if err := b.Build(true); err != nil {
		return err
	}
	c.Logf("batch %d: 7 packages built with -race in %.1fs", bi, time.Since(t0).Seconds())
	// sub-jobs
	var subs []hc.ConcSub
	parseSubs := func(pc *PCase, n int, withErr bool) {
		alpha := pc.G.Alphabet()
		for k := 0; k < n; k++ {
			var w []int
			if withErr && k%2 == 0 {
				w = garbage(r, pc, alpha)
			} else {
				w = pc.Eng.RandomSentence(r.Intn, 3+r.Intn(30))
			}
			toks := make([][2]int, len(w))
			for i, t := range w {
				toks[i] = [2]int{t, r.Intn(2)}
			}
			subs = append(subs, hc.ConcSub{Pkg: pc.Pkg.Name, Toks: toks})
		}
	}
	nPer := c.N(60, 100)
	parseSubs(e1, nPer, true)
	parseSubs(e2, nPer, true)
	parseSubs(s1, nPer, false)
	parseSubs(&twin, nPer, true)
	for _, lc := range []*LCase{l1, l2} {
		for k := 0; k < nPer; k++ {
			subs = append(subs, hc.ConcSub{Pkg: lc.Pkg.Name, Lex: true, Input: specgen.LexInput(r, lc.Ctx, lc.Res, lc.Alpha, false, 12)})
		}
	}
	for k := 0; k < nPer; k++ {
		in := "?"
		if len(both.Samples) > 0 {
			s := both.Samples[r.Intn(len(both.Samples))]
			in = s.Input + " " + s.Input
		}
		subs = append(subs, hc.ConcSub{Pkg: both.Pkg.Name, Lex: true, Input: []byte(in)})
		var toks [][2]int
		for i := 0; i < 1+r.Intn(8); i++ {
			toks = append(toks, [2]int{2 + r.Intn(max(1, len(both.Names))), 0})
		}
		subs = append(subs, hc.ConcSub{Pkg: both.Pkg.Name, Toks: toks})
	}
	logBase := filepath.Join(b.Dir, "race.log")
	// one process per goroutine count: each starts cold, so that state the
	// generated code initialises lazily is first touched concurrently
	oc := &run.RunOutcome{Results: map[int]*run.RawResult{}}
	for gi, g := range []int{8, 32, 128} {
		job := run.MkJob(gi+1, "", "conc", hc.ConcJob{Subs: subs, Goroutines: g, Rounds: c.N(16, 30), Seed: uint64(c.Seed)*1000 + uint64(bi*10+gi)})
		o1, err := b.Run([]hc.Job{job}, 20*time.Minute, fmt.Sprintf("GORACE=halt_on_error=0 log_path=%s.g%d", logBase, g), "HC_NO_WATCHDOG=1")
		if err != nil {
			return err
		}
		if o1.TimedOut {
			c.Inconclusive("watchdog")
		}
		for k, v := range o1.Results {
			oc.Results[k] = v
		}
		oc.Stderr += o1.Stderr
	}
	// race reports
	var raceText strings.Builder
	logs, _ := filepath.Glob(logBase + "*")
	for _, lf := range logs {
		data, _ := os.ReadFile(lf)
		raceText.Write(data)
	}
	raceText.WriteString(oc.Stderr)
	nRace := strings.Count(raceText.String(), "WARNING: DATA RACE")
	c.Ev.Count("race_reports", nRace)
	if nRace > 0 {
		uniq := dedupRaces(raceText.String())
		keys := make([]string, 0, len(uniq))
		for k := range uniq {
			keys = append(keys, k)
		}
		sort.Strings(keys)
		for _, k := range keys {
			files := map[string]string{}
			for _, pc := range pcs {
				for fn, src := range pc.Files {
					if strings.HasSuffix(fn, ".lox") {
						files[pc.Pkg.Name+"_"+fn] = src
					}
				}
			}
			c.Violation("data-race", &Replay{Why: fmt.Sprintf("race detector report (%d reports in this batch, %d distinct by top frames):\n%s", nRace, len(uniq), uniq[k]), Files: files})
		}
	}
	for gi, g := range []int{8, 32, 128} {
		res, err := decodeRes[hc.ConcRes](oc.Results[gi+1])
		if err != nil {
			c.Inconclusive("conc-job-no-result")
			c.Logf("conc job G=%d: %v stderr=%s", g, err, firstLine(oc.Stderr))
			continue
		}
		c.Ev.Eval(res.Runs)
		c.Ev.Count("concurrent_runs", res.Runs)
		c.Ev.Count("monitored_events_during_concurrency", int(res.Events))
		c.Ev.Count("goroutine_switches_between_monitored_events", int(res.Switches))
		c.Ev.Count("distinct_round_interleaving_signatures", res.Patterns)
		if res.MaxInFlight > c.Ev.Get("max_jobs_in_flight") {
			c.Ev.Count("max_jobs_in_flight", res.MaxInFlight-c.Ev.Get("max_jobs_in_flight"))
		}
		if res.MaxInFlight >= 2 {
			for i := range subs {
				c.Ev.Distinct(fmt.Sprintf("b%d-g%d-%d", bi, g, i))
			}
		}
		for _, mm := range res.Mismatches {
			s := subs[mm.Sub]
			c.Violation("concurrent-result-differs-from-sequential", &Replay{Why: fmt.Sprintf("package %s, job %d (lex=%v): digest of the event log when run concurrently (%s) differs from the digest when run alone (%s); goroutines=%d", s.Pkg, mm.Sub, s.Lex, mm.Observed, mm.Baseline, g)})
		}
		if gi == 0 && bi == 0 {
			c.Ev.Sample(map[string]any{"goroutines": g, "runs": res.Runs, "max_in_flight": res.MaxInFlight, "switches": res.Switches, "events": res.Events, "packages": res.PkgsUsed})
		}
	}
	return nil
}
