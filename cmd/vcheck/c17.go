package main

import (
	"fmt"
	"regexp"
	"sort"
	"strconv"
	"strings"
	"sync"

	"verif/internal/evidence"
	"verif/internal/gram"
	"verif/internal/rng"
	"verif/internal/specgen"
)

func init() { register("C17", checkC17) }

// c17Decl is one declaration (or section keyword / mode bracket) with the
// lines it is written on.
type c17Decl struct {
	Kind  string // section, token, frag, macro, external, mode-open, mode-close, rule
	Name  string
	Lines []string
	Mode  string // enclosing mode block ("" none)
	// filled by render:
	File        string
	First, Last int
}

type c17File struct {
	Name  string
	Decls []*c17Decl
}

type c17Spec struct {
	Files []*c17File
	G     *gram.Grammar // parser side (for the Go harness)
}

func (s *c17Spec) clone() (*c17Spec, map[*c17Decl]*c17Decl) {
	m := map[*c17Decl]*c17Decl{}
	ns := &c17Spec{G: s.G}
	for _, f := range s.Files {
		nf := &c17File{Name: f.Name}
		for _, d := range f.Decls {
			nd := *d
			nd.Lines = append([]string(nil), d.Lines...)
			nf.Decls = append(nf.Decls, &nd)
			m[d] = &nd
		}
		ns.Files = append(ns.Files, nf)
	}
	return ns, m
}

func (s *c17Spec) render() map[string]string {
	out := map[string]string{}
	for _, f := range s.Files {
		var sb strings.Builder
		line := 1
		for _, d := range f.Decls {
			d.File = f.Name
			d.First = line
			for _, l := range d.Lines {
				sb.WriteString(l)
				sb.WriteByte('\n')
				line++
			}
			d.Last = line - 1
		}
		out[f.Name] = sb.String()
	}
	return out
}

func (s *c17Spec) find(kind string, pred func(*c17Decl) bool) []*c17Decl {
	var out []*c17Decl
	for _, f := range s.Files {
		for _, d := range f.Decls {
			if d.Kind == kind && (pred == nil || pred(d)) {
				out = append(out, d)
			}
		}
	}
	return out
}

// insertAfter puts nd right after ref (same file).
func (s *c17Spec) insertAfter(ref, nd *c17Decl) {
	for _, f := range s.Files {
		for i, d := range f.Decls {
			if d == ref {
				f.Decls = append(f.Decls[:i+1], append([]*c17Decl{nd}, f.Decls[i+1:]...)...)
				return
			}
		}
	}
}

// lexer anchor points: declarations after which a default-mode lexer
// declaration, or a declaration inside a mode block, can be inserted.
func (s *c17Spec) lexAnchors(inMode bool) []*c17Decl {
	var out []*c17Decl
	for _, f := range s.Files {
		inLexer := false
		for _, d := range f.Decls {
			switch {
			case d.Kind == "section":
				inLexer = strings.HasPrefix(d.Lines[0], "@lexer")
				if inLexer && !inMode {
					out = append(out, d)
				}
			case !inLexer:
			case d.Kind == "mode-open":
				if inMode {
					out = append(out, d)
				}
			case d.Kind == "mode-close":
				if !inMode {
					out = append(out, d)
				}
			case d.Mode != "" && inMode:
				out = append(out, d)
			case d.Mode == "" && !inMode:
				out = append(out, d)
			}
		}
	}
	return out
}

func (s *c17Spec) parserAnchors() []*c17Decl {
	var out []*c17Decl
	for _, f := range s.Files {
		inParser := false
		for _, d := range f.Decls {
			if d.Kind == "section" {
				inParser = strings.HasPrefix(d.Lines[0], "@parser")
				if inParser {
					out = append(out, d)
				}
				continue
			}
			if inParser && d.Kind == "rule" {
				out = append(out, d)
			}
		}
	}
	return out
}

// c17Base builds a well-formed multi-file specification.
func c17Base(r *rng.R, d *caseDrawer) *c17Spec {
	var pc *PCase
	for {
		pc = d.draw(r, drawOpts{errPct: 10, minSent: 1})
		if pc == nil {
			return nil
		}
		// rule names r0.. can collide with nothing; fine
		break
	}
	g := pc.G
	s := &c17Spec{G: g}
	// default-mode lexer rules all live in one file (lox refuses to order
	// overlapping rules across files, by design)
	lex := &c17File{}
	add := func(f *c17File, kind, name, mode string, lines ...string) *c17Decl {
		dd := &c17Decl{Kind: kind, Name: name, Lines: lines, Mode: mode}
		f.Decls = append(f.Decls, dd)
		return dd
	}
	add(lex, "section", "", "", "@lexer")
	add(lex, "macro", "DIGIT", "", "@macro DIGIT = [0-9]")
	add(lex, "macro", "HEXD", "", "@macro HEXD = DIGIT | [A-F]")
	for _, t := range g.Tokens {
		add(lex, "token", t.Name, "", fmt.Sprintf("%s = '%s'", t.Name, strings.ReplaceAll(strings.ReplaceAll(t.Lit, `\`, `\\`), `'`, `\'`)))
	}
	add(lex, "token", "NUMBER", "", "NUMBER = '#' DIGIT+ ('.' DIGIT+)?")
	add(lex, "token", "HEXNUM", "", "HEXNUM = '#x' HEXD+")
	add(lex, "token", "STR_BEGIN", "", "STR_BEGIN = '\"' @push_mode(Str)")
	add(lex, "frag", "", "", "@frag [ \\t\\n]+ @discard")
	add(lex, "frag", "", "", "@frag '//' ~[\\n]* @discard")
	if r.Chance(1, 2) {
		add(lex, "external", "EXT_A", "", "@external EXT_A EXT_B")
	}
	mode1 := []*c17Decl{
		{Kind: "mode-open", Name: "Str", Lines: []string{"@mode Str {"}},
		{Kind: "token", Name: "STR_END", Mode: "Str", Lines: []string{"  STR_END = '\"' @pop_mode"}},
		{Kind: "token", Name: "STR_CHARS", Mode: "Str", Lines: []string{"  STR_CHARS = ~[\"\\\\{]+"}},
		{Kind: "frag", Mode: "Str", Lines: []string{"  @frag '\\\\' [\"\\\\nrt] @emit(STR_CHARS)"}},
		{Kind: "token", Name: "INTERP", Mode: "Str", Lines: []string{"  INTERP = '{' @push_mode(Code)"}},
		{Kind: "mode-close", Name: "Str", Lines: []string{"}"}},
	}
	mode2 := []*c17Decl{
		{Kind: "mode-open", Name: "Code", Lines: []string{"@mode Code {"}},
		{Kind: "token", Name: "CODE_END", Mode: "Code", Lines: []string{"  CODE_END = '}' @pop_mode"}},
		{Kind: "token", Name: "CODE_ID", Mode: "Code", Lines: []string{"  CODE_ID = [a-z]+"}},
		{Kind: "frag", Mode: "Code", Lines: []string{"  @frag ' '+ @discard"}},
		{Kind: "mode-close", Name: "Code", Lines: []string{"}"}},
	}
	// parser rules
	var rules []*c17Decl
	for ri, rule := range g.Rules {
		head := rule.Name + " = "
		if ri == g.Start {
			head = "@start " + head
		}
		var lines []string
		for pi, p := range rule.Prods {
			if pi == 0 {
				lines = append(lines, head+g.ProdText(p))
			} else {
				lines = append(lines, strings.Repeat(" ", len(head)-2)+"| "+g.ProdText(p))
			}
		}
		rules = append(rules, &c17Decl{Kind: "rule", Name: rule.Name, Lines: lines})
	}
	blank := func() *c17Decl { return &c17Decl{Kind: "blank", Lines: []string{""}} }
	// layout: 1-3 files
	switch r.Intn(3) {
	case 0: // single file
		lex.Name = "spec.lox"
		lex.Decls = append(lex.Decls, mode1...)
		lex.Decls = append(lex.Decls, mode2...)
		lex.Decls = append(lex.Decls, blank(), &c17Decl{Kind: "section", Lines: []string{"@parser"}})
		for _, rd := range rules {
			lex.Decls = append(lex.Decls, rd, blank())
		}
		s.Files = []*c17File{lex}
	case 1: // lexer | parser
		lex.Name = "a_lexer.lox"
		lex.Decls = append(lex.Decls, mode1...)
		lex.Decls = append(lex.Decls, mode2...)
		par := &c17File{Name: "b_parser.lox"}
		par.Decls = append(par.Decls, &c17Decl{Kind: "blank", Lines: []string{"// parser rules"}}, &c17Decl{Kind: "section", Lines: []string{"@parser"}})
		for _, rd := range rules {
			par.Decls = append(par.Decls, rd, blank())
		}
		s.Files = []*c17File{lex, par}
	default: // lexer | modes + half of the rules | rest of the rules
		lex.Name = "a_lexer.lox"
		lex.Decls = append(lex.Decls, mode1...)
		mid := &c17File{Name: "m_modes.lox"}
		mid.Decls = append(mid.Decls, &c17Decl{Kind: "section", Lines: []string{"@lexer"}})
		mid.Decls = append(mid.Decls, mode2...)
		mid.Decls = append(mid.Decls, blank(), &c17Decl{Kind: "section", Lines: []string{"@parser"}})
		half := len(rules) / 2
		for _, rd := range rules[:half] {
			mid.Decls = append(mid.Decls, rd, blank())
		}
		last := &c17File{Name: "z_rules.lox"}
		last.Decls = append(last.Decls, &c17Decl{Kind: "section", Lines: []string{"@parser"}})
		for _, rd := range rules[half:] {
			last.Decls = append(last.Decls, rd, blank())
		}
		s.Files = []*c17File{lex, mid, last}
	}
	return s
}

// c17Fault is one single-fault variant: the faulted spec, the declarations a
// diagnostic may point into, and whether a position is demanded at all.
type c17Fault struct {
	Kind    string
	Spec    *c17Spec
	Where   []*c17Decl
	WantPos bool
	ExtraGo string // appended to harness.go (the action methods a user would write for an added rule)
}

func pickDecl(r *rng.R, ds []*c17Decl) *c17Decl {
	if len(ds) == 0 {
		return nil
	}
	return ds[r.Intn(len(ds))]
}

// c17Faults returns every fault kind applied once (random placement).
func c17Faults(r *rng.R, base *c17Spec) []*c17Fault {
	var out []*c17Fault
	indent := func(mode string, line string) string {
		if mode != "" {
			return "  " + line
		}
		return line
	}
	// helper: insert a lexer declaration at a random place (default mode or inside a mode)
	addLex := func(kind string, mk func(s *c17Spec, m map[*c17Decl]*c17Decl) (nd *c17Decl, also []*c17Decl)) {
		s, m := base.clone()
		inMode := r.Chance(1, 3)
		anchors := s.lexAnchors(inMode)
		if len(anchors) == 0 {
			anchors = s.lexAnchors(false)
			inMode = false
		}
		a := pickDecl(r, anchors)
		nd, also := mk(s, m)
		if nd == nil {
			return
		}
		mode := ""
		if inMode {
			mode = a.Mode
			if a.Kind == "mode-open" {
				mode = a.Name
			}
		}
		nd.Mode = mode
		for i := range nd.Lines {
			nd.Lines[i] = indent(mode, nd.Lines[i])
		}
		s.insertAfter(a, nd)
		out = append(out, &c17Fault{Kind: kind, Spec: s, Where: append([]*c17Decl{nd}, also...), WantPos: true})
	}
	addRule := func(kind string, mk func(s *c17Spec, m map[*c17Decl]*c17Decl) (nd *c17Decl, also []*c17Decl)) {
		s, m := base.clone()
		a := pickDecl(r, s.parserAnchors())
		nd, also := mk(s, m)
		if nd == nil || a == nil {
			return
		}
		s.insertAfter(a, nd)
		out = append(out, &c17Fault{Kind: kind, Spec: s, Where: append([]*c17Decl{nd}, also...), WantPos: true})
	}
	modeBlock := func(s *c17Spec, name string) []*c17Decl {
		var ds []*c17Decl
		for _, f := range s.Files {
			for _, d := range f.Decls {
				if (d.Kind == "mode-open" || d.Kind == "mode-close") && d.Name == name || d.Mode == name {
					ds = append(ds, d)
				}
			}
		}
		return ds
	}
	tokens := base.find("token", nil)
	macros := base.find("macro", nil)
	rules := base.find("rule", nil)
	someTok := func() *c17Decl { return pickDecl(r, tokens) }

	// ---- duplicate names ---------------------------------------------------
	addLex("duplicate-token-token", func(s *c17Spec, m map[*c17Decl]*c17Decl) (*c17Decl, []*c17Decl) {
		t := someTok()
		return &c17Decl{Kind: "token", Name: t.Name, Lines: []string{t.Name + " = '~dup~'"}}, []*c17Decl{m[t]}
	})
	addLex("duplicate-macro-token", func(s *c17Spec, m map[*c17Decl]*c17Decl) (*c17Decl, []*c17Decl) {
		t := someTok()
		return &c17Decl{Kind: "macro", Name: t.Name, Lines: []string{"@macro " + t.Name + " = [q]"}}, []*c17Decl{m[t]}
	})
	addLex("duplicate-macro-macro", func(s *c17Spec, m map[*c17Decl]*c17Decl) (*c17Decl, []*c17Decl) {
		t := pickDecl(r, macros)
		return &c17Decl{Kind: "macro", Name: t.Name, Lines: []string{"@macro " + t.Name + " = [q]"}}, []*c17Decl{m[t]}
	})
	addLex("duplicate-external-token", func(s *c17Spec, m map[*c17Decl]*c17Decl) (*c17Decl, []*c17Decl) {
		t := someTok()
		return &c17Decl{Kind: "external", Name: t.Name, Lines: []string{"@external FRESH_EXT " + t.Name}}, []*c17Decl{m[t]}
	})
	{ // duplicate mode/token, mode/mode, mode/rule: a new mode block in the default lexer area
		for _, variant := range []string{"duplicate-mode-token", "duplicate-mode-mode", "duplicate-mode-rule"} {
			s, m := base.clone()
			var name string
			var also []*c17Decl
			switch variant {
			case "duplicate-mode-token":
				t := someTok()
				name, also = t.Name, []*c17Decl{m[t]}
			case "duplicate-mode-mode":
				name = "Str"
				also = modeBlock(s, "Str")
			default:
				t := pickDecl(r, rules)
				name, also = t.Name, []*c17Decl{m[t]}
			}
			a := pickDecl(r, s.lexAnchors(false))
			open := &c17Decl{Kind: "mode-open", Name: name, Lines: []string{"@mode " + name + " {"}}
			inner := &c17Decl{Kind: "token", Name: "FRESH_IN_MODE", Mode: name, Lines: []string{"  FRESH_IN_MODE = '~m~' @pop_mode"}}
			closeD := &c17Decl{Kind: "mode-close", Name: name, Lines: []string{"}"}}
			s.insertAfter(a, closeD)
			s.insertAfter(a, inner)
			s.insertAfter(a, open)
			out = append(out, &c17Fault{Kind: variant, Spec: s, Where: append([]*c17Decl{open, inner, closeD}, also...), WantPos: true})
		}
	}
	addRule("duplicate-rule-rule", func(s *c17Spec, m map[*c17Decl]*c17Decl) (*c17Decl, []*c17Decl) {
		t := pickDecl(r, rules)
		tk := someTok()
		return &c17Decl{Kind: "rule", Name: t.Name, Lines: []string{t.Name + " = " + tk.Name}}, []*c17Decl{m[t]}
	})
	addRule("duplicate-rule-token", func(s *c17Spec, m map[*c17Decl]*c17Decl) (*c17Decl, []*c17Decl) {
		tk := someTok()
		return &c17Decl{Kind: "rule", Name: tk.Name, Lines: []string{tk.Name + " = " + someTok().Name}}, []*c17Decl{m[tk]}
	})
	// ---- naming rules ---------------------------------------------------------
	for _, bad := range []struct{ kind, name string }{
		{"token-name-lowercase", "lower"}, {"token-name-mixed-case", "Mixed"}, {"token-name-trailing-underscore", "TRAIL_"},
		{"token-name-double-underscore", "DOU__BLE"}, {"token-name-reserved-EOF", "EOF"}, {"token-name-reserved-ERROR", "ERROR"},
	} {
		bad := bad
		addLex(bad.kind, func(s *c17Spec, m map[*c17Decl]*c17Decl) (*c17Decl, []*c17Decl) {
			return &c17Decl{Kind: "token", Name: bad.name, Lines: []string{bad.name + " = '~bad~'"}}, nil
		})
	}
	addLex("macro-name-invalid", func(s *c17Spec, m map[*c17Decl]*c17Decl) (*c17Decl, []*c17Decl) {
		n := []string{"lower", "TRAIL_", "DOU__BLE"}[r.Intn(3)]
		return &c17Decl{Kind: "macro", Name: n, Lines: []string{"@macro " + n + " = [q]"}}, nil
	})
	addLex("external-name-invalid", func(s *c17Spec, m map[*c17Decl]*c17Decl) (*c17Decl, []*c17Decl) {
		n := []string{"lower", "TRAIL_", "DOU__BLE", "EOF"}[r.Intn(4)]
		return &c17Decl{Kind: "external", Name: n, Lines: []string{"@external " + n}}, nil
	})
	addRule("rule-name-double-underscore", func(s *c17Spec, m map[*c17Decl]*c17Decl) (*c17Decl, []*c17Decl) {
		return &c17Decl{Kind: "rule", Name: "dou__ble", Lines: []string{"dou__ble = " + someTok().Name}}, nil
	})
	if n := len(out); n > 0 && out[n-1].Kind == "rule-name-double-underscore" {
		// the action method a user would write for that rule
		out[n-1].ExtraGo = "\nfunc (p *P) on_dou__ble(a0 Token) *Node { return p.H.Act(9999, a0) }\n"
	}
	// ---- undefined references ----------------------------------------------------
	addRule("undefined-token-in-rule", func(s *c17Spec, m map[*c17Decl]*c17Decl) (*c17Decl, []*c17Decl) {
		return &c17Decl{Kind: "rule", Name: "fresh_rule", Lines: []string{"fresh_rule = " + someTok().Name + " NO_SUCH_TOKEN"}}, nil
	})
	addRule("undefined-rule-in-rule", func(s *c17Spec, m map[*c17Decl]*c17Decl) (*c17Decl, []*c17Decl) {
		return &c17Decl{Kind: "rule", Name: "fresh_rule", Lines: []string{"fresh_rule = " + someTok().Name, "           | no_such_rule " + someTok().Name}}, nil
	})
	addRule("undefined-in-list", func(s *c17Spec, m map[*c17Decl]*c17Decl) (*c17Decl, []*c17Decl) {
		return &c17Decl{Kind: "rule", Name: "fresh_rule", Lines: []string{"fresh_rule = @list(" + someTok().Name + ", NO_SUCH_SEP)"}}, nil
	})
	addRule("unknown-literal-in-rule", func(s *c17Spec, m map[*c17Decl]*c17Decl) (*c17Decl, []*c17Decl) {
		return &c17Decl{Kind: "rule", Name: "fresh_rule", Lines: []string{"fresh_rule = " + someTok().Name + " '~nolit~'"}}, nil
	})
	addLex("undefined-macro", func(s *c17Spec, m map[*c17Decl]*c17Decl) (*c17Decl, []*c17Decl) {
		return &c17Decl{Kind: "token", Name: "FRESH_TOK", Lines: []string{"FRESH_TOK = '~u~' NO_SUCH_MACRO+"}}, nil
	})
	addLex("undefined-mode", func(s *c17Spec, m map[*c17Decl]*c17Decl) (*c17Decl, []*c17Decl) {
		return &c17Decl{Kind: "frag", Lines: []string{"@frag '~u~' @push_mode(NoSuchMode)"}}, nil
	})
	addLex("undefined-emit-target", func(s *c17Spec, m map[*c17Decl]*c17Decl) (*c17Decl, []*c17Decl) {
		return &c17Decl{Kind: "frag", Lines: []string{"@frag '~u~' @emit(NO_SUCH_TOKEN)"}}, nil
	})
	// ---- references to a name that exists but is not of the kind referred to -----
	for _, wk := range []struct{ kind, what string }{{"token", "token"}, {"macro", "macro"}, {"rule", "rule"}} {
		wk := wk
		pool := map[string][]*c17Decl{"token": tokens, "macro": macros, "rule": rules}[wk.kind]
		if len(pool) == 0 {
			continue
		}
		addLex("push-mode-names-a-"+wk.what, func(s *c17Spec, m map[*c17Decl]*c17Decl) (*c17Decl, []*c17Decl) {
			return &c17Decl{Kind: "frag", Lines: []string{"@frag '~w~' @push_mode(" + pickDecl(r, pool).Name + ")"}}, nil
		})
	}
	for _, wk := range []struct{ what, name string }{{"macro", ""}, {"mode", "Str"}, {"rule", ""}} {
		wk := wk
		name := wk.name
		if wk.what == "macro" && len(macros) > 0 {
			name = pickDecl(r, macros).Name
		}
		if wk.what == "rule" && len(rules) > 0 {
			name = pickDecl(r, rules).Name
		}
		if name == "" {
			continue
		}
		addLex("emit-names-a-"+wk.what, func(s *c17Spec, m map[*c17Decl]*c17Decl) (*c17Decl, []*c17Decl) {
			return &c17Decl{Kind: "frag", Lines: []string{"@frag '~w~' @emit(" + name + ")"}}, nil
		})
		if wk.what != "macro" {
			addLex("lexer-expression-names-a-"+wk.what, func(s *c17Spec, m map[*c17Decl]*c17Decl) (*c17Decl, []*c17Decl) {
				return &c17Decl{Kind: "token", Name: "FRESH_TOK", Lines: []string{"FRESH_TOK = '~w~' " + name + "+"}}, nil
			})
		}
		if wk.what != "rule" {
			addRule("rule-names-a-"+wk.what, func(s *c17Spec, m map[*c17Decl]*c17Decl) (*c17Decl, []*c17Decl) {
				return &c17Decl{Kind: "rule", Name: "fresh_rule", Lines: []string{"fresh_rule = " + someTok().Name + " " + name}}, nil
			})
		}
	}
	addLex("lexer-expression-names-a-token", func(s *c17Spec, m map[*c17Decl]*c17Decl) (*c17Decl, []*c17Decl) {
		return &c17Decl{Kind: "token", Name: "FRESH_TOK", Lines: []string{"FRESH_TOK = '~w~' " + someTok().Name + "+"}}, nil
	})
	{ // ambiguous literal: two tokens with the same literal, referenced by literal
		s, _ := base.clone()
		a := pickDecl(r, s.lexAnchors(false))
		t1 := &c17Decl{Kind: "token", Name: "AMB_ONE", Lines: []string{"AMB_ONE = '~amb~'"}}
		t2 := &c17Decl{Kind: "token", Name: "AMB_TWO", Lines: []string{"AMB_TWO = '~amb~'"}}
		s.insertAfter(a, t2)
		s.insertAfter(a, t1)
		pa := pickDecl(r, s.parserAnchors())
		rd := &c17Decl{Kind: "rule", Name: "fresh_rule", Lines: []string{"fresh_rule = '~amb~'"}}
		s.insertAfter(pa, rd)
		out = append(out, &c17Fault{Kind: "ambiguous-literal", Spec: s, Where: []*c17Decl{rd, t1, t2}, WantPos: true})
	}
	// ---- macro cycles ---------------------------------------------------------------
	for n := 1; n <= 3; n++ {
		for _, used := range []bool{true, false} {
			s, _ := base.clone()
			a := pickDecl(r, s.lexAnchors(false))
			var ds []*c17Decl
			for i := 0; i < n; i++ {
				ds = append(ds, &c17Decl{Kind: "macro", Name: fmt.Sprintf("CYC%d", i), Lines: []string{fmt.Sprintf("@macro CYC%d = '~c~' CYC%d", i, (i+1)%n)}})
			}
			if used {
				ds = append(ds, &c17Decl{Kind: "token", Name: "USES_CYC", Lines: []string{"USES_CYC = '~cy~' CYC0"}})
			}
			if r.Chance(1, 2) {
				// a macro that is not on the cycle but leads into it
				out := &c17Decl{Kind: "macro", Name: "INTO_CYC", Lines: []string{fmt.Sprintf("@macro INTO_CYC = '~i~'? CYC%d", r.Intn(n))}}
				if r.Chance(1, 2) {
					ds = append([]*c17Decl{out}, ds...)
				} else {
					ds = append(ds, out)
				}
			}
			for i := len(ds) - 1; i >= 0; i-- {
				s.insertAfter(a, ds[i])
			}
			kind := fmt.Sprintf("macro-cycle-%d", n)
			if !used {
				kind += "-unused"
			}
			out = append(out, &c17Fault{Kind: kind, Spec: s, Where: ds, WantPos: true})
		}
	}
	// ---- @start ----------------------------------------------------------------------
	{
		s, m := base.clone()
		for _, rd := range rules {
			d := m[rd]
			if strings.HasPrefix(d.Lines[0], "@start ") {
				d.Lines[0] = strings.TrimPrefix(d.Lines[0], "@start ")
				for i := 1; i < len(d.Lines); i++ {
					d.Lines[i] = strings.TrimPrefix(d.Lines[i], "       ")
				}
			}
		}
		out = append(out, &c17Fault{Kind: "no-start", Spec: s, WantPos: false})
	}
	{
		s, m := base.clone()
		var starts []*c17Decl
		var cand []*c17Decl
		for _, rd := range rules {
			if strings.HasPrefix(rd.Lines[0], "@start ") {
				starts = append(starts, m[rd])
			} else {
				cand = append(cand, m[rd])
			}
		}
		if len(cand) > 0 {
			d := cand[r.Intn(len(cand))]
			d.Lines[0] = "@start " + d.Lines[0]
			for i := 1; i < len(d.Lines); i++ {
				d.Lines[i] = "       " + d.Lines[i]
			}
			out = append(out, &c17Fault{Kind: "two-starts", Spec: s, Where: append(starts, d), WantPos: true})
		} else {
			pa := pickDecl(r, s.parserAnchors())
			rd := &c17Decl{Kind: "rule", Name: "second_start", Lines: []string{"@start second_start = " + someTok().Name}}
			s.insertAfter(pa, rd)
			out = append(out, &c17Fault{Kind: "two-starts", Spec: s, Where: append(starts, rd), WantPos: true})
		}
	}
	// ---- actions ----------------------------------------------------------------------
	for _, bad := range []struct{ kind, line string }{
		{"discard-on-token", "FRESH_TOK = '~a~' @discard"},
		{"emit-on-token", "FRESH_TOK = '~a~' @emit(" + tokens[0].Name + ")"},
		{"two-discards-on-fragment", "@frag '~a~' @discard @discard"},
		{"two-emits-on-fragment", "@frag '~a~' @emit(" + tokens[0].Name + ") @emit(" + tokens[len(tokens)-1].Name + ")"},
		{"discard-and-emit-on-fragment", "@frag '~a~' @discard @emit(" + tokens[0].Name + ")"},
		{"emit-and-discard-on-fragment", "@frag '~a~' @push_mode(Str) @emit(" + tokens[0].Name + ") @discard"},
	} {
		bad := bad
		addLex(bad.kind, func(s *c17Spec, m map[*c17Decl]*c17Decl) (*c17Decl, []*c17Decl) {
			return &c17Decl{Kind: "token", Name: "FRESH_TOK", Lines: []string{bad.line}}, nil
		})
	}
	// ---- literals and ranges ------------------------------------------------------------
	addLex("empty-literal-in-token", func(s *c17Spec, m map[*c17Decl]*c17Decl) (*c17Decl, []*c17Decl) {
		return &c17Decl{Kind: "token", Name: "FRESH_TOK", Lines: []string{"FRESH_TOK = '~e~' ''"}}, nil
	})
	addLex("empty-literal-alone", func(s *c17Spec, m map[*c17Decl]*c17Decl) (*c17Decl, []*c17Decl) {
		return &c17Decl{Kind: "token", Name: "FRESH_TOK", Lines: []string{"FRESH_TOK = ''"}}, nil
	})
	addLex("empty-literal-in-macro", func(s *c17Spec, m map[*c17Decl]*c17Decl) (*c17Decl, []*c17Decl) {
		return &c17Decl{Kind: "macro", Name: "FRESH_MACRO", Lines: []string{"@macro FRESH_MACRO = [q] | ''"}}, nil
	})
	addRule("empty-literal-in-rule", func(s *c17Spec, m map[*c17Decl]*c17Decl) (*c17Decl, []*c17Decl) {
		return &c17Decl{Kind: "rule", Name: "fresh_rule", Lines: []string{"fresh_rule = " + someTok().Name + " ''"}}, nil
	})
	for _, bad := range []struct{ kind, line string }{
		{"reversed-range", "FRESH_TOK = '~r~' [z-a]"},
		{"reversed-range-negated", "FRESH_TOK = '~r~' ~[9-0]"},
		{"reversed-range-in-difference", "FRESH_TOK = '~r~' [a-z] - [q-f]"},
		{"reversed-range-escaped", "FRESH_TOK = '~r~' [\\u0062-\\u0061]"},
	} {
		bad := bad
		addLex(bad.kind, func(s *c17Spec, m map[*c17Decl]*c17Decl) (*c17Decl, []*c17Decl) {
			return &c17Decl{Kind: "token", Name: "FRESH_TOK", Lines: []string{bad.line}}, nil
		})
	}
	_ = sort.Strings
	return out
}

var diagRe = regexp.MustCompile(`(?m)^(?:[^\s:]*/)?([^\s:/]+\.lox):(\d+):(\d+): `)

// wellFormedExtras are single additions that keep a specification well formed
// (they must still be accepted): the positive side of the property.
func c17Benign(r *rng.R, base *c17Spec) []*c17Fault {
	var out []*c17Fault
	mk := func(kind string, inMode bool, line string) {
		s, _ := base.clone()
		anchors := s.lexAnchors(inMode)
		if len(anchors) == 0 {
			return
		}
		a := pickDecl(r, anchors)
		mode := ""
		if inMode {
			mode = a.Mode
			if a.Kind == "mode-open" {
				mode = a.Name
			}
			line = "  " + line
		}
		s.insertAfter(a, &c17Decl{Kind: "token", Mode: mode, Lines: []string{line}})
		out = append(out, &c17Fault{Kind: kind, Spec: s})
	}
	mk("benign-single-char-range", false, "FRESH_TOK = '~b~' [a-a]")
	mk("benign-name-with-digits-and-underscores", false, "F9_A_B2 = '~b2~'")
	mk("benign-name-digit-after-underscore", false, "ISO_8859_1 = '~b6~'")
	mk("benign-macro-name-digit-after-underscore", false, "@macro UTF_8 = [q]")
	mk("benign-external-name-digit-after-underscore", false, "@external X_1 Y_22_Z")
	mk("benign-token-with-mode-action", false, "FRESH_TOK = '~b3~' @push_mode(Str)")
	mk("benign-frag-emit-then-pop", true, "@frag '~b4~' @emit(STR_END) @pop_mode")
	mk("benign-unused-macro", false, "@macro UNUSED_M = [q]+ 'x'?")
	mk("benign-push-default-mode", true, "FRESH_TOK = '~b5~' @push_mode()")
	// a parser rule may reference an @external token like any other token
	if ext := base.find("external", nil); len(ext) > 0 {
		s, _ := base.clone()
		if pa := pickDecl(r, s.parserAnchors()); pa != nil {
			s.insertAfter(pa, &c17Decl{Kind: "rule", Name: "uses_ext", Lines: []string{"uses_ext = EXT_A EXT_B?"}})
			out = append(out, &c17Fault{Kind: "benign-external-token-referenced-by-rule", Spec: s,
				ExtraGo: "\nfunc (p *P) on_uses_ext(a0 Token, a1 Token) *Node { return p.H.Act(9998, a0, a1) }\n"})
		}
	}
	return out
}

func checkC17(c *Ctx) error {
	c.Ev = evidence.New("C17", c.Tier, c.Seed, "fault_enumeration",
		"base specifications: well-formed, 1-3 files (lexer with macros, tokens, fragments, @external, two nested modes; parser rules of a PRNG-drawn LALR(1) grammar, some spanning several lines), with a line map declaration -> (file, first line, last line). Each base is run unfaulted (must be accepted, exit 0, with a complete Go package) and with exactly one fault from the catalogue of the property statement, placed at a random point of a random section, mode or file: duplicate names across kinds (8 pairings), every naming rule (token, macro, @external, rule), undefined token / rule / macro / mode / @emit target / literal alias (also inside @list), ambiguous literal, macro cycles of length 1-3 (used and unused), zero or two @start, @discard/@emit on a token, two @discard / two @emit / both on a fragment, empty literal (token, macro, rule), reversed class range (plain, negated, in a difference, escaped); plus benign additions that must stay accepted. Oracle by construction: faulted => exit != 0 and, when the fault belongs to a declaration, some diagnostic line names that file and a line inside that declaration (either declaration for duplicates). Non-trivial: every faulted run; distinct by base text + fault kind.")
	c.Ev.Assumptions = []string{
		"diagnostics are read from stderr in the form file:line:col: message",
		"overlapping default-mode lexer rules are kept within one file (lox refuses to order rules across files, by design)",
		"a diagnostic printed by the Go type checker for the user's package does not count as naming a position inside a .lox declaration",
	}
	nBases := c.N(5, 60)
	d := newDrawer()
	var mu sync.Mutex
	kindsSeen := map[string]int{}
	parallel(nBases, 3, func(bi int) {
		r := c.R.Derive("base", bi)
		base := c17Base(r, d)
		if base == nil {
			return
		}
		faults := append([]*c17Fault{{Kind: "unfaulted", Spec: base}}, c17Benign(r, base)...)
		faults = append(faults, c17Faults(r, base)...)
		b, err := c.Env.NewBatch()
		if err != nil {
			return
		}
		defer b.Remove()
		h, in, st := base.G.Harness(gram.HarnessOpt{})
		var pcs []*PCase
		for _, f := range faults {
			files := f.Spec.render()
			files["harness.go"] = h + f.ExtraGo
			pc := &PCase{Files: files, Intern: in, Stub: st, Origin: f.Kind}
			p, err := b.Add(files, in, st, pc)
			if err != nil {
				return
			}
			pc.Pkg = p
			pcs = append(pcs, pc)
		}
		b.GenerateCLI(false)
		baseText := fmt.Sprint(pcs[0].Files)
		for i, f := range faults {
			pc := pcs[i]
			c.Ev.Eval(1)
			mu.Lock()
			kindsSeen[f.Kind]++
			mu.Unlock()
			stderr := pc.Pkg.Diag
			crashed := strings.Contains(stderr, "panic:") || strings.Contains(stderr, "goroutine ") || pc.Pkg.Exit == 2 || pc.Pkg.Exit > 128
			if f.Kind == "unfaulted" || strings.HasPrefix(f.Kind, "benign-") {
				if pc.Pkg.Exit != 0 {
					c.Violation("well-formed-spec-rejected", pc.replay(fmt.Sprintf("%s: lox exit %d on a well-formed specification:\n%s", f.Kind, pc.Pkg.Exit, stderr), nil, nil, nil))
				}
				continue
			}
			c.Ev.Distinct(baseText + f.Kind)
			if pc.Pkg.Exit == 0 {
				if finding := c17Known(f.Kind); finding != "" && c.KnownFinding(finding) {
					continue
				}
				c.Violation("ill-formed-spec-accepted/"+f.Kind, pc.replay(fmt.Sprintf("fault %q: lox accepted the specification (exit 0)", f.Kind), nil, "rejected", "exit 0"))
				continue
			}
			if crashed {
				// a crash is C12's business, but it is certainly not "a diagnostic inside the declaration"
				c.Violation("ill-formed-spec-crashes-generator/"+f.Kind, pc.replay(fmt.Sprintf("fault %q: lox crashed instead of reporting it (exit %d):\n%s", f.Kind, pc.Pkg.Exit, tail(stderr, 1500)), nil, nil, nil))
				continue
			}
			if !f.WantPos {
				continue
			}
			ok := false
			var got []string
			for _, m := range diagRe.FindAllStringSubmatch(stderr, -1) {
				line, _ := strconv.Atoi(m[2])
				got = append(got, fmt.Sprintf("%s:%d", m[1], line))
				for _, w := range f.Where {
					if w.File == m[1] && line >= w.First && line <= w.Last {
						ok = true
					}
				}
			}
			if !ok {
				var want []string
				for _, w := range f.Where {
					want = append(want, fmt.Sprintf("%s:%d-%d", w.File, w.First, w.Last))
				}
				if finding := c17Known(f.Kind + "/position"); finding != "" && c.KnownFinding(finding) {
					continue
				}
				c.Violation("diagnostic-outside-the-faulty-declaration/"+f.Kind, pc.replay(fmt.Sprintf("fault %q: no diagnostic names a position inside the faulty declaration (acceptable: %v; diagnostics at: %v)\nstderr:\n%s", f.Kind, want, got, tail(stderr, 1500)), nil, want, got))
			}
		}
		if bi == 0 {
			c.Ev.Sample(map[string]any{"files": pcs[0].Files, "faults_applied": len(faults) - 1})
			f := faults[len(faults)-1]
			c.Ev.Sample(map[string]any{"fault": f.Kind, "stderr": pcs[len(pcs)-1].Pkg.Diag, "exit": pcs[len(pcs)-1].Pkg.Exit})
		}
	})
	c.Ev.Set("fault_kinds_exercised", kindsSeen)
	c.nontrivMin = 40
	return nil
}

// c17Known maps a fault kind to the key of a listed known finding ("" none).
func c17Known(kind string) string {
	return ""
}

var _ = specgen.TinyLexer
