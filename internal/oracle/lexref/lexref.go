// Package lexref is the reference tokenizer: a mode-stack interpreter over
// regular-expression derivatives. It implements the semantics the properties
// state (longest viable prefix, earliest declared rule among those matching
// exactly that prefix, every action of the rule takes effect, accumulate /
// emit / discard, non-greedy stop at the first complete match) and mirrors the
// documented behaviour of the reference driver simplelexer v0.5.0 for input
// decoding (invalid UTF-8 byte = U+FFFD of width 1), token positions and error
// recovery (skip to just after the next newline, reset to the default mode).
package lexref

import (
	"unicode/utf8"

	"verif/internal/oracle/rx"
)

// ModeOp is one mode action: Push >= 0 pushes the current mode and enters mode
// Push; Push < 0 pops.
type ModeOp struct{ Push int }

type Act struct {
	Push    int  // mode index to push, -1 none   (first push, kept for convenience)
	Pop     bool // the rule pops at least once
	// Ops are all mode actions of the rule in the order they were written;
	// they take effect one after the other.
	Ops     []ModeOp
	Emit    int  // token type to emit, -1 none
	Discard bool
	// neither Emit nor Discard: accumulate
}

type Rule struct {
	Re        *rx.Re
	NonGreedy bool // contains *? / +?: stops at the first complete match
	Act       Act
}

type Mode struct{ Rules []Rule }

type Lexer struct {
	Ctx   *rx.Ctx
	Modes []Mode // index 0 = default
}

type Token struct {
	Type int // 0 EOF, 1 ERROR
	Off  int
	Len  int
	ErrCh rune // ERROR: offending rune (-1 at end of input)
}

// Seg is one accounted-for stretch of input.
type Seg struct {
	Kind string // "tok", "discard", "error", "lost" (text pending when EOF was reported)
	Off, Len int
}

// Fire is one rule firing: Kind 1 emit, 2 discard, 3 accumulate; Mode and
// Depth are the current mode index and the mode-stack depth after all of the
// rule's actions took effect.
type Fire struct {
	Kind, Mode, Depth int
}

type Result struct {
	Toks  []Token // up to and including the first ERROR or EOF
	Fires []Fire  // every rule firing, in order
	// Flags about the run up to the end of Toks:
	PopEmpty   bool // a @pop_mode ran on an empty stack (behaviour outside the properties)
	NGInterplay bool // a non-greedy rule was complete while another rule was still alive (which of the two readings applies is left open by the properties)
	EpsMatch   bool // some rule acted on an empty match
	StuckAtEps bool // an empty match that neither consumed nor changed the mode: endless in any faithful implementation
	PendingAtEOF bool // accumulated text pending when the input ended at a token boundary state
	MaxDepth   int
	ModesSeen  map[int]bool
	RulesFired map[[2]int]int
}

func decode(in []byte, off int) (rune, int) {
	if off >= len(in) {
		return -1, 0
	}
	r, n := utf8.DecodeRune(in[off:])
	return r, n
}

// Run tokenizes until EOF or the first ERROR token.
func (l *Lexer) Run(in []byte) *Result {
	res := &Result{ModesSeen: map[int]bool{}, RulesFired: map[[2]int]int{}}
	mode := 0
	var stack []int
	off := 0
	start := 0 // start of the pending (accumulated) text
	steps := 0
	for {
		steps++
		if steps > 4*len(in)+64 {
			res.StuckAtEps = true
			return res
		}
		res.ModesSeen[mode] = true
		rules := l.Modes[mode].Rules
		ds := make([]*rx.Re, len(rules))
		for i := range rules {
			ds[i] = rules[i].Re
		}
		pos := off
		for {
			// non-greedy: a complete match of a non-greedy rule ends the run
			stop := false
			for i := range rules {
				if rules[i].NonGreedy && l.Ctx.Nullable(ds[i]) {
					stop = true
					for j := range rules {
						if j != i && !l.Ctx.IsEmpty(ds[j]) {
							res.NGInterplay = true
						}
					}
				}
			}
			if stop {
				break
			}
			c, n := decode(in, pos)
			if c < 0 {
				break
			}
			any := false
			nds := make([]*rx.Re, len(ds))
			for i := range ds {
				nds[i] = l.Ctx.Deriv(ds[i], c)
				if !l.Ctx.IsEmpty(nds[i]) {
					any = true
				}
			}
			if !any {
				break
			}
			ds = nds
			pos += n
		}
		// earliest rule matching exactly in[off:pos]
		win := -1
		for i := range ds {
			if l.Ctx.Nullable(ds[i]) {
				win = i
				break
			}
		}
		if win >= 0 && pos == off {
			// An empty match is acted on only when it pops the mode and pushes
			// none, and there is a mode to go back to (each such step shrinks
			// the mode stack); any other empty match would make no progress and
			// counts as no match.
			res.EpsMatch = true
			if a := rules[win].Act; !(a.Pop && a.Push < 0) || len(stack) == 0 {
				res.StuckAtEps = true
				win = -1
			}
		}
		c, _ := decode(in, pos)
		if win < 0 {
			if pos == off && c < 0 {
				// end of input at a token boundary
				if start != off {
					// pending accumulated text cannot be dropped silently
					res.PendingAtEOF = true
					res.Toks = append(res.Toks, Token{Type: 1, Off: start, ErrCh: c})
					return res
				}
				res.Toks = append(res.Toks, Token{Type: 0, Off: start, Len: 0})
				return res
			}
			res.Toks = append(res.Toks, Token{Type: 1, Off: start, ErrCh: c})
			return res
		}
		res.RulesFired[[2]int{mode, win}]++
		act := rules[win].Act
		ops := act.Ops
		if ops == nil {
			if act.Push >= 0 {
				ops = append(ops, ModeOp{act.Push})
			}
			if act.Pop {
				ops = append(ops, ModeOp{-1})
			}
		}
		for _, op := range ops {
			if op.Push >= 0 {
				stack = append(stack, mode)
				mode = op.Push
				if len(stack) > res.MaxDepth {
					res.MaxDepth = len(stack)
				}
				continue
			}
			if len(stack) == 0 {
				res.PopEmpty = true
				return res
			}
			mode = stack[len(stack)-1]
			stack = stack[:len(stack)-1]
		}
		off = pos
		switch {
		case act.Emit >= 0:
			res.Toks = append(res.Toks, Token{Type: act.Emit, Off: start, Len: off - start})
			res.Fires = append(res.Fires, Fire{1, mode, len(stack)})
			start = off
		case act.Discard:
			res.Fires = append(res.Fires, Fire{2, mode, len(stack)})
			start = off
		default:
			// accumulate: keep start
			res.Fires = append(res.Fires, Fire{3, mode, len(stack)})
		}
	}
}
