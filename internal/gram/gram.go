// Package gram holds the abstract parser specification that is the single
// source of truth of a generated case: the .lox text, the Go harness and the
// oracle inputs (desugared CFG) are all rendered from it.
package gram

import (
	"fmt"
	"sort"
	"strings"
)

type Sugar int

const (
	None    Sugar = iota
	Opt           // x?
	Star          // x*
	Plus          // x+
	StarF         // x*!
	List          // @list(x, sep)
	ListOpt       // @list(x, sep)?
)

func (s Sugar) String() string {
	return [...]string{"", "?", "*", "+", "*!", "@list", "@list?"}[s]
}

type Kind int

const (
	KTok Kind = iota
	KRule
	KErr // @error
)

// Ref names a token (index into Grammar.Tokens), a rule (index into
// Grammar.Rules) or @error.
type Ref struct {
	Kind Kind
	Idx  int
}

type Term struct {
	Ref   Ref
	Sugar Sugar
	Sep   Ref  // List / ListOpt
	AsLit bool // write the token as its literal alias
	SepLit bool
}

type Qual struct {
	Right bool
	N     int
}

type Prod struct {
	Terms []Term
	Qual  *Qual
}

type Rule struct {
	Name  string
	Prods []Prod
}

type Token struct {
	Name string
	Lit  string // literal text; token is declared as NAME = 'Lit'
}

type Grammar struct {
	Tokens []Token
	Rules  []Rule
	Start  int
	// Extra lexer lines (verbatim, each without trailing newline), e.g. a
	// whitespace fragment.
	LexExtra []string
	// CustomLexer, when set, replaces the generated "@lexer" section of the
	// main file verbatim (it must declare every token of Tokens, in that
	// order, possibly spread over OtherFiles which sort before the main file).
	CustomLexer string
	OtherFiles  map[string]string
	// WithLex makes the harness expose the generated lexer state machine too.
	WithLex bool
}

// TokType is the generated constant value of token i (EOF=0, ERROR=1).
func TokType(i int) int { return i + 2 }

func (g *Grammar) RefName(r Ref) string {
	switch r.Kind {
	case KTok:
		return g.Tokens[r.Idx].Name
	case KRule:
		return g.Rules[r.Idx].Name
	}
	return "ERROR"
}

func (g *Grammar) refText(r Ref, lit bool) string {
	switch r.Kind {
	case KTok:
		if lit {
			return "'" + escapeLit(g.Tokens[r.Idx].Lit) + "'"
		}
		return g.Tokens[r.Idx].Name
	case KRule:
		return g.Rules[r.Idx].Name
	}
	return "@error"
}

func escapeLit(s string) string {
	var sb strings.Builder
	for _, c := range s {
		switch c {
		case '\'':
			sb.WriteString(`\'`)
		case '\\':
			sb.WriteString(`\\`)
		case '\n':
			sb.WriteString(`\n`)
		default:
			sb.WriteRune(c)
		}
	}
	return sb.String()
}

func (g *Grammar) TermText(t Term) string {
	base := g.refText(t.Ref, t.AsLit)
	switch t.Sugar {
	case None:
		return base
	case Opt:
		return base + "?"
	case Star:
		return base + "*"
	case Plus:
		return base + "+"
	case StarF:
		return base + "*!"
	case List:
		return fmt.Sprintf("@list(%s, %s)", base, g.refText(t.Sep, t.SepLit))
	case ListOpt:
		return fmt.Sprintf("@list(%s, %s)?", base, g.refText(t.Sep, t.SepLit))
	}
	panic("sugar")
}

func (g *Grammar) ProdText(p Prod) string {
	if len(p.Terms) == 0 {
		return "@empty"
	}
	parts := make([]string, len(p.Terms))
	for i, t := range p.Terms {
		parts[i] = g.TermText(t)
	}
	s := strings.Join(parts, " ")
	if p.Qual != nil {
		k := "@left"
		if p.Qual.Right {
			k = "@right"
		}
		s += fmt.Sprintf(" %s(%d)", k, p.Qual.N)
	}
	return s
}

// Pos records where a declaration was written (1-based lines).
type Pos struct {
	First, Last int
}

// Lox renders the specification. The returned map gives the line span of
// every rule (key "rule:<name>"), production ("prod:<rule>:<k>") and token
// ("tok:<name>").
func (g *Grammar) Lox() (string, map[string]Pos) {
	var sb strings.Builder
	pos := map[string]Pos{}
	line := 1
	w := func(s string) {
		sb.WriteString(s)
		sb.WriteByte('\n')
		line++
	}
	if g.CustomLexer != "" {
		for _, l := range strings.Split(strings.TrimRight(g.CustomLexer, "\n"), "\n") {
			w(l)
		}
	} else {
		w("@lexer")
		for _, t := range g.Tokens {
			pos["tok:"+t.Name] = Pos{line, line}
			w(fmt.Sprintf("%s = '%s'", t.Name, escapeLit(t.Lit)))
		}
		for _, l := range g.LexExtra {
			w(l)
		}
	}
	w("")
	w("@parser")
	for ri, r := range g.Rules {
		first := line
		head := r.Name + " = "
		if ri == g.Start {
			head = "@start " + head
		}
		for pi, p := range r.Prods {
			pos[fmt.Sprintf("prod:%s:%d", r.Name, pi)] = Pos{line, line}
			if pi == 0 {
				w(head + g.ProdText(p))
			} else {
				w(strings.Repeat(" ", len(head)-2) + "| " + g.ProdText(p))
			}
		}
		pos["rule:"+r.Name] = Pos{first, line - 1}
		w("")
	}
	return sb.String(), pos
}

// ---------------------------------------------------------------------------
// Desugaring (as documented in docs/markdown/parser_reference.md, with the
// helper rules named the way lox names them so that automata can be compared
// rule by rule).
// ---------------------------------------------------------------------------

type HelperKind int

const (
	HUser HelperKind = iota
	HOpt             // x? = x | ε
	HStar            // x* = x+ | ε
	HPlus            // x+ = x+ x | x
	HStarF           // x*! = x+! | ε
	HPlusF           // x+! = x+! x | x
	HList            // @list(x,s) = @list(x,s) s x | x
	HListOpt         // @list(x,s)? = @list(x,s) | ε
)

type CProd struct {
	LHS  int   // nonterminal index
	RHS  []int // encoded: terminal t in [0,NumT); nonterminal n as NumT+n
	Prec int
	Right bool
	// Provenance.
	UserRule int // index into Grammar.Rules, -1 for helpers
	UserProd int // index into Rules[UserRule].Prods
	Method   int // global production number among user productions (harness method id), -1 for helpers
}

type CFG struct {
	NumT   int // 2 + len(Tokens) (+1 when ErrSym is separate)
	ErrSym int // terminal that stands for @error in RHSs
	TNames []string
	NTs    []string
	Kinds  []HelperKind // per nonterminal
	Elem   []int        // per helper nonterminal: encoded element symbol (-1 for user rules)
	Sep    []int        // per list helper: encoded separator symbol
	Prods  []CProd
	Start  int
}

// Desugar converts the grammar. If sepErr is true, @error is given a terminal
// of its own (index NumT-1) distinct from the ERROR token type 1 that a lexer
// may deliver; otherwise @error is terminal 1.
func (g *Grammar) Desugar(sepErr bool) *CFG {
	c := &CFG{NumT: 2 + len(g.Tokens), ErrSym: 1}
	c.TNames = []string{"EOF", "ERROR"}
	for _, t := range g.Tokens {
		c.TNames = append(c.TNames, t.Name)
	}
	if sepErr {
		c.ErrSym = c.NumT
		c.NumT++
		c.TNames = append(c.TNames, "@error")
	}
	// Nonterminal numbers are only final once NumT is known; helpers are
	// appended after the user rules.
	ntIndex := map[string]int{}
	addNT := func(name string, k HelperKind) int {
		ntIndex[name] = len(c.NTs)
		c.NTs = append(c.NTs, name)
		c.Kinds = append(c.Kinds, k)
		c.Elem = append(c.Elem, -1)
		c.Sep = append(c.Sep, -1)
		return len(c.NTs) - 1
	}
	for _, r := range g.Rules {
		addNT(r.Name, HUser)
	}
	enc := func(r Ref) int {
		switch r.Kind {
		case KTok:
			return TokType(r.Idx)
		case KRule:
			return c.NumT + r.Idx
		}
		return c.ErrSym
	}
	// helper rules are keyed by name, as in lox; the error terminal is spelled
	// "@error" there, so that a rule called ERROR does not share its helpers
	symName := func(r Ref) string {
		if r.Kind == KErr {
			return "@error"
		}
		return g.RefName(r)
	}
	nt := func(n int) int { return c.NumT + n }
	addProd := func(lhs int, rhs ...int) {
		c.Prods = append(c.Prods, CProd{LHS: lhs, RHS: rhs, UserRule: -1, UserProd: -1, Method: -1})
	}
	var helper func(t Term) int
	helper = func(t Term) int {
		x := enc(t.Ref)
		xn := symName(t.Ref)
		mk := func(name string, k HelperKind, build func(h int)) int {
			if h, ok := ntIndex[name]; ok {
				return nt(h)
			}
			h := addNT(name, k)
			c.Elem[h] = x
			build(h)
			return nt(h)
		}
		switch t.Sugar {
		case Opt:
			return mk(xn+"?", HOpt, func(h int) {
				addProd(h, x)
				addProd(h)
			})
		case Plus:
			return mk(xn+"+", HPlus, func(h int) {
				addProd(h, nt(h), x)
				addProd(h, x)
			})
		case Star:
			return mk(xn+"*", HStar, func(h int) {
				plus := helper(Term{Ref: t.Ref, Sugar: Plus})
				addProd(h, plus)
				addProd(h)
			})
		case StarF:
			return mk(xn+"*!", HStarF, func(h int) {
				plus := mk(xn+"+!", HPlusF, func(h2 int) {
					addProd(h2, nt(h2), x)
					addProd(h2, x)
				})
				addProd(h, plus)
				addProd(h)
			})
		case List:
			s := enc(t.Sep)
			return mk(fmt.Sprintf("@list(%s,%s)", xn, symName(t.Sep)), HList, func(h int) {
				c.Sep[h] = s
				addProd(h, nt(h), s, x)
				addProd(h, x)
			})
		case ListOpt:
			return mk(fmt.Sprintf("@list(%s,%s)?", xn, symName(t.Sep)), HListOpt, func(h int) {
				l := helper(Term{Ref: t.Ref, Sugar: List, Sep: t.Sep})
				c.Sep[h] = enc(t.Sep)
				addProd(h, l)
				addProd(h)
			})
		}
		panic("helper")
	}
	method := 0
	for ri, r := range g.Rules {
		for pi, p := range r.Prods {
			rhs := make([]int, 0, len(p.Terms))
			for _, t := range p.Terms {
				if t.Sugar == None {
					rhs = append(rhs, enc(t.Ref))
				} else {
					rhs = append(rhs, helper(t))
				}
			}
			cp := CProd{LHS: ri, RHS: rhs, UserRule: ri, UserProd: pi, Method: method}
			if p.Qual != nil {
				cp.Prec = p.Qual.N
				cp.Right = p.Qual.Right
			}
			method++
			c.Prods = append(c.Prods, cp)
		}
	}
	c.Start = g.Start
	return c
}

func (c *CFG) NumN() int { return len(c.NTs) }

func (c *CFG) SymName(s int) string {
	if s < c.NumT {
		return c.TNames[s]
	}
	return c.NTs[s-c.NumT]
}

func (c *CFG) ProdString(p CProd) string {
	parts := []string{}
	for _, s := range p.RHS {
		parts = append(parts, c.SymName(s))
	}
	if len(parts) == 0 {
		parts = []string{"ε"}
	}
	return c.NTs[p.LHS] + " = " + strings.Join(parts, " ")
}

// Alphabet returns the token types of the user tokens (sorted).
func (g *Grammar) Alphabet() []int {
	out := make([]int, len(g.Tokens))
	for i := range g.Tokens {
		out[i] = TokType(i)
	}
	sort.Ints(out)
	return out
}

// NumUserProds is the number of user productions (= harness methods when
// methods are not shared).
func (g *Grammar) NumUserProds() int {
	n := 0
	for _, r := range g.Rules {
		n += len(r.Prods)
	}
	return n
}

// HasErr reports whether any production mentions @error.
func (g *Grammar) HasErr() bool {
	for _, r := range g.Rules {
		for _, p := range r.Prods {
			for _, t := range p.Terms {
				if t.Ref.Kind == KErr {
					return true
				}
			}
		}
	}
	return false
}

// WithoutErr returns a copy of c without the productions that mention the
// @error symbol: the language that real input (which can never supply @error)
// can match.
func (c *CFG) WithoutErr() *CFG {
	d := *c
	d.Prods = nil
	for _, p := range c.Prods {
		has := false
		for _, s := range p.RHS {
			if s == c.ErrSym {
				has = true
			}
		}
		if !has {
			d.Prods = append(d.Prods, p)
		}
	}
	return &d
}

// PermuteRules reorders the rules (declaration order): rule i moves to
// position perm[i]. References and the start rule follow.
func (g *Grammar) PermuteRules(perm []int) {
	nr := make([]Rule, len(g.Rules))
	for i, r := range g.Rules {
		nr[perm[i]] = r
	}
	fix := func(r *Ref) {
		if r.Kind == KRule {
			r.Idx = perm[r.Idx]
		}
	}
	for ri := range nr {
		for pi := range nr[ri].Prods {
			for ti := range nr[ri].Prods[pi].Terms {
				fix(&nr[ri].Prods[pi].Terms[ti].Ref)
				fix(&nr[ri].Prods[pi].Terms[ti].Sep)
			}
		}
	}
	g.Rules = nr
	g.Start = perm[g.Start]
}
