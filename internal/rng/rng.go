// Package rng is the deterministic PRNG used for every random choice
// (splitmix64; streams are derived by name so that adding a draw in one
// place does not shift the others).
package rng

import "hash/fnv"

type R struct{ s uint64 }

func New(seed uint64) *R { return &R{s: seed*0x9E3779B97F4A7C15 + 0x1234567} }

// Derive returns an independent stream named by label and n.
func (r *R) Derive(label string, n int) *R {
	h := fnv.New64a()
	h.Write([]byte(label))
	return New(r.s ^ h.Sum64() ^ (uint64(n)+1)*0xD1B54A32D192ED03)
}

func (r *R) U64() uint64 {
	r.s += 0x9E3779B97F4A7C15
	z := r.s
	z = (z ^ (z >> 30)) * 0xBF58476D1CE4E5B9
	z = (z ^ (z >> 27)) * 0x94D049BB133111EB
	return z ^ (z >> 31)
}

// Intn returns a uniform int in [0,n); n <= 0 yields 0.
func (r *R) Intn(n int) int {
	if n <= 1 {
		return 0
	}
	return int(r.U64() % uint64(n))
}

// Range returns a uniform int in [lo,hi].
func (r *R) Range(lo, hi int) int { return lo + r.Intn(hi-lo+1) }

// Chance is true with probability num/den.
func (r *R) Chance(num, den int) bool { return r.Intn(den) < num }

func (r *R) Pick(n int) int { return r.Intn(n) }

// Perm returns a random permutation of 0..n-1.
func (r *R) Perm(n int) []int {
	p := make([]int, n)
	for i := range p {
		p[i] = i
	}
	for i := n - 1; i > 0; i-- {
		j := r.Intn(i + 1)
		p[i], p[j] = p[j], p[i]
	}
	return p
}
