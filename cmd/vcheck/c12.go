package main

import (
	"sort"
	"bufio"
	"bytes"
	"context"
	"encoding/json"
	"errors"
	"fmt"
	goparser "go/parser"
	gotoken "go/token"
	"os"
	"os/exec"
	"path/filepath"
	"regexp"
	"runtime/debug"
	"strings"
	"sync"
	"syscall"
	"time"

	"github.com/dcaiafa/lox/verifhook"

	"verif/internal/evidence"
	"verif/internal/gram"
	"verif/internal/rng"
	"verif/internal/run"
)

func init() { register("C12", checkC12) }

// ---------------------------------------------------------------------------
// worker: in-process front end under recover, one input at a time, each input
// announced before it runs (a Go fatal error kills the process; the parent
// then knows which input did it)
// ---------------------------------------------------------------------------

type fuzzIn struct {
	ID    int               `json:"id"`
	Files map[string][]byte `json:"files"`
}

type fuzzOut struct {
	CPU   bool   `json:"cpu,omitempty"` // the per-input CPU budget was exhausted
	ID    int    `json:"id"`
	OK    bool   `json:"ok"`
	Panic string `json:"panic,omitempty"`
	Diag  int    `json:"diag"` // bytes of diagnostics
}

// cpuNow returns the CPU time consumed by this process.
func cpuNow() time.Duration {
	var ru syscall.Rusage
	if syscall.Getrusage(syscall.RUSAGE_SELF, &ru) != nil {
		return 0
	}
	return time.Duration(ru.Utime.Nano() + ru.Stime.Nano())
}

func fuzzWorker(dir string) {
	// per-input CPU budget (decided on CPU time): report and exit, the parent
	// restarts a worker for the remaining inputs
	var wmu sync.Mutex
	curID, curStart := -1, time.Duration(0)
	go func() {
		for {
			time.Sleep(200 * time.Millisecond)
			wmu.Lock()
			if curID >= 0 && cpuNow()-curStart > 15*time.Second {
				fmt.Fprintf(os.Stdout, "{\"id\":%d,\"cpu\":true}\n", curID)
				os.Exit(3)
			}
			wmu.Unlock()
		}
	}()
	in := bufio.NewReaderSize(os.Stdin, 1<<20)
	dec := json.NewDecoder(in)
	out := bufio.NewWriter(os.Stdout)
	defer out.Flush()
	enc := json.NewEncoder(out)
	for {
		var fi fuzzIn
		if err := dec.Decode(&fi); err != nil {
			return
		}
		fmt.Fprintf(out, "{\"start\":%d}\n", fi.ID)
		out.Flush()
		wmu.Lock()
		curID, curStart = fi.ID, cpuNow()
		wmu.Unlock()
		os.RemoveAll(dir)
		os.MkdirAll(dir, 0o755)
		for fn, data := range fi.Files {
			os.WriteFile(filepath.Join(dir, fn), data, 0o644)
		}
		res := fuzzOut{ID: fi.ID}
		func() {
			var diag bytes.Buffer
			defer func() {
				if r := recover(); r != nil {
					res.Panic = fmt.Sprintf("%v\n%s", r, trimTo(string(debug.Stack()), 3000))
				}
				res.Diag = diag.Len()
			}()
			fe := verifhook.ParseLox(dir, &diag, nil)
			res.OK = fe != nil && fe.OK
			if !res.OK && diag.Len() == 0 {
				res.Panic = "front end failed without printing any diagnostic"
			}
		}()
		wmu.Lock()
		curID = -1
		wmu.Unlock()
		enc.Encode(&res)
		out.Flush()
	}
}

func trimTo(s string, n int) string {
	if len(s) > n {
		return s[:n]
	}
	return s
}

// ---------------------------------------------------------------------------
// input generation
// ---------------------------------------------------------------------------

var loxTokRe = regexp.MustCompile(`'(?:\\.|[^'\\\n])*'|\[(?:\\.|[^\]\\\n])*\]|@[a-z_]+|[A-Za-z_][A-Za-z0-9_]*|[0-9]+|\*!|\*\?|\+\?|\s+|.`)

var loxKeywords = []string{"@lexer", "@parser", "@start", "@discard", "@macro", "@frag", "@mode", "@push_mode", "@pop_mode", "@error", "@left", "@right", "@list", "@emit", "@empty", "@external", "@frog", "@"}

var adversarial = []string{
	"@parser\n@start s = A @left(0)\n", "@parser\n@start s = s A s @left(99999999999999999999)\n", "@parser\n@start s = A @right(-1)\n",
	"@lexer\nA = 'a'\n@parser\n@start s = ''\n", "@lexer\nA = ''\n", "@lexer\nA = [\\q]\n", "@lexer\nA = [\\", "@lexer\nA = '\\", "@lexer\nA = '\\x4'\n", "@lexer\nA = '\\u12'\n",
	"@lexer\nA = [a-]\n", "@lexer\nA = [-a]\n", "@lexer\nA = [--]\n", "@lexer\nA = [a--b]\n", "@lexer\nA = []\n", "@lexer\nA = ~[]\n", "@lexer\nA = [\\U00110000]\n", "@lexer\nA = [\\UFFFFFFFF]\n", "@lexer\nA = '\\UFFFFFFFF'\n", "@lexer\nA = [\\uD800-\\uDFFF]\n",
	"@lexer\nA = .\n@parser\n", "@lexer\n@mode M {\n", "@lexer\n@mode M {\nA = 'a'\n", "@lexer\n}\n", "@lexer\n@mode {\n}\n", "@lexer\n@mode M\n\n\n{\nA='a'\n}\n",
	"@parser\n", "@lexer\n", "@parser\n@start s = @empty\n@start t = @empty\n", "@parser\ns = @empty\n", "@parser\n@start s = s\n", "@parser\n@start s = s s\n", "@parser\n@start s = t\nt = s\n",
	"@parser\n@start s = @list(@list(A, B), C)\n", "@parser\n@start s = @list(A, B)*\n", "@parser\n@start s = @error*\n", "@parser\n@start s = @error?\n", "@parser\n@start s = @list(@error, @error)\n", "@lexer\nA='a'\nB='b'\n@parser\n@start s = @list(A?, B)\n",
	"@lexer\nA = 'a' @push_mode()\n", "@lexer\nA = 'a' @pop_mode @pop_mode @pop_mode\n", "@lexer\n@frag 'a' @emit(A)\nA = 'b'\n", "@lexer\n@macro M = M\nA = M\n", "@lexer\n@macro M = N\n@macro N = M\nA = M N\n",
	"@lexer\nA = 'a'*\n", "@lexer\nA = ('a'*)*\n", "@lexer\nA = (('a'?)+)*\n", "@lexer\nA = 'a'*?\n", "@lexer\nA = .*? \n",
	"\xef\xbb\xbf@lexer\nA = 'a'\n", "@lexer\r\nA = 'a'\r\n@parser\r\n@start s = A\r\n", "@lexer\nA = 'a'", "@lexer\nA = 'a' \\\n", "@lexer\nA = 'a' \\ x\n", "\\\n", "|\n", "@lexer\n| A = 'a'\n",
	"@lexer\nA = 'a'\n@parser\n@start s = A\n| A A\n\n| A\n", "\x00", "@lexer\nA = '\x00'\n", "@lexer\nA = [\x00-\x01]\n", "@lexer\n@external\n", "@lexer\n@external A A\n", "@lexer\n@external A\nA = 'a'\n",
	"@lexer\nEOF = 'a'\n", "@lexer\nERROR = 'a'\n", "@parser\n@start lox = @empty\n", "@parser\n@start _s = @empty\n", "@parser\n@start s = @empty\n@lexer\nA='a'\n@parser\nt = A\n",
	"@lexer\nA = 'a'\n@parser\n@start s = A @left(1) @left(2)\n", "@lexer\nA = 'a'\n@parser\n@start s = @left(1)\n", "@lexer\nA = 'a'\n@parser\n@start s = A | @empty @left(1)\n",
	"@lexer\n@macro DIGITS = [0-9] DIGITS\n@macro NUMBER = '-'? DIGITS\n", "@lexer\n@macro DIGITS = [0-9] DIGITS\n@macro NUMBER = '-'? DIGITS\nN = NUMBER\n",
	"@lexer\n@macro A = B\n@macro B = C 'x'\n@macro C = B\nT = A\n", "@lexer\n@macro OUT = IN1 | IN2\n@macro IN1 = IN2 'a'\n@macro IN2 = IN1 'b'\n",
	"@lexer\nA = 'a' @push_mode(A)\n", "@lexer\n@macro M = 'm'\nA = 'a' @push_mode(M)\n", "@lexer\nA = 'a' @push_mode(s)\n@parser\n@start s = A\n", "@lexer\n@external X\nA = 'a' @push_mode(X)\n",
	"@lexer\n@mode M {\n  A = 'a' @pop_mode\n}\n@frag 'b' @emit(M)\nB = 'c' @push_mode(M)\n", "@lexer\nA = 'a'\n@frag 'b' @emit(s)\n@parser\n@start s = A\n", "@lexer\n@macro M = 'm'\nA = M\n@frag 'b' @emit(M)\n",
	"@lexer\n@mode M {\n  A = 'a' @pop_mode\n}\nB = 'b' M+ @push_mode(M)\n", "@lexer\nA = 'a'\nB = 'b' A+\n", "@lexer\nA = 'a'\nB = 'b' s\n@parser\n@start s = A\n",
	"@lexer\n@mode M {\n  A = 'a' @pop_mode\n}\nB = 'b' @push_mode(M)\n@parser\n@start s = B M\n", "@lexer\n@macro M = 'm'\nA = M\n@parser\n@start s = A M\n",
	"@lexer\nA = '\\U80000000'\n", "@lexer\nA = [a-\\UF0938583]\n", "@lexer\nA = '\\xFF'\n", "@lexer\nA = [\\x80-\\xFF]\n",
	"@lexer\nA = [a-z] - [a-z]\n", "@lexer\nA = [a-z] - [b] - [c]\n", "@lexer\nA = 'a' - 'b'\n", "@lexer\nA = ~~[a]\n", "@lexer\nA = ~'a'\n",
}

// adversarialMulti are multi-file specifications.
var adversarialMulti = []map[string]string{
	{"a.lox": "@lexer\nA = 'a'\n", "b.lox": "@lexer\nB = 'a'\n"},
	{"a.lox": "@lexer\nA = 'a'+\n", "b.lox": "@lexer\n@frag [a-c]+ @discard\n"},
	{"a.lox": "@lexer\n@mode M {\n  A = 'a' @pop_mode\n}\n", "b.lox": "@lexer\nB = 'b' @push_mode(M)\n@mode M {\n  C = 'a'\n}\n"},
	{"a.lox": "@lexer\nA = 'a'\n", "b.lox": "@parser\n@start s = A\n", "c.lox": "@parser\n@start t = A\n"},
	{"a.lox": "@parser\n@start s = t\n", "b.lox": "@parser\nt = s\n"},
	{"a.lox": "", "b.lox": "@lexer\nA = 'a'\n"},
	{"a.lox": "@lexer\n@macro M = N\n", "b.lox": "@lexer\n@macro N = M\nA = M\n"},
}

func c12Mutate(r *rng.R, src string) string {
	toks := loxTokRe.FindAllString(src, -1)
	if len(toks) == 0 {
		return src
	}
	n := 1 + r.Intn(3)
	for k := 0; k < n; k++ {
		i := r.Intn(len(toks))
		switch r.Intn(16) {
		case 0: // delete
			toks = append(toks[:i], toks[i+1:]...)
		case 1: // duplicate
			toks = append(toks[:i+1], toks[i:]...)
		case 2: // transpose
			j := r.Intn(len(toks))
			toks[i], toks[j] = toks[j], toks[i]
		case 3: // numeric extremes
			toks[i] = []string{"0", "-1", "99999999999999999999", "00000000001", "2147483648", "9223372036854775808"}[r.Intn(6)]
		case 4: // literals
			toks[i] = []string{"''", "'", "'\\", "'\\x'", "'\\u'", "'\\U0011FFFF'", "'" + strings.Repeat("a", 400) + "'", "'\\''", "'\n'"}[r.Intn(9)]
		case 5: // classes
			toks[i] = []string{"[]", "[", "[\\", "[z-a]", "[a-", "[\\U00110000]", "~[\\u0000-\\U0010FFFF]", "[" + strings.Repeat("a-z", 300) + "]", "[a-b-c-d]"}[r.Intn(9)]
		case 6: // keyword in any position
			toks = append(toks[:i], append([]string{" " + loxKeywords[r.Intn(len(loxKeywords))] + " "}, toks[i:]...)...)
		case 7: // brackets
			toks[i] = []string{"(", ")", "{", "}", "((((((((", "))))))))", "|", "||", ",", "=", "=="}[r.Intn(11)]
		case 8: // newline games
			toks[i] = []string{"\n", "\n\n", "\\\n", "\\", "\r\n", "\n|", "\n  |"}[r.Intn(7)]
		case 9: // cardinalities
			toks = append(toks[:i+1], append([]string{[]string{"*", "+", "?", "*!", "*?", "+?", "**", "?*+", "+!"}[r.Intn(9)]}, toks[i+1:]...)...)
		case 10: // deep nesting
			d := []int{20, 200, 1500}[r.Intn(3)]
			toks[i] = strings.Repeat("(", d) + "'x'" + strings.Repeat(")", d)
		case 11: // truncate
			toks = toks[:i]
			if len(toks) == 0 {
				toks = []string{""}
			}
		case 12: // bytes
			toks[i] = []string{"\x00", "\xff\xfe", "\xef\xbb\xbf", "\xc0\x80", "\xed\xa0\x80", "\u2028", "\t", "\v", "\f"}[r.Intn(9)]
		case 13: // case flips on names
			if strings.ToUpper(toks[i]) != toks[i] {
				toks[i] = strings.ToUpper(toks[i])
			} else {
				toks[i] = strings.ToLower(toks[i])
			}
		case 14: // qualifier / list shapes
			toks = append(toks[:i], append([]string{[]string{" @left(1) ", " @right(2) ", " @list(", " @list(A,", " @error ", " @empty ", " @left() ", " @left(x) ", " @push_mode(", " @emit() "}[r.Intn(10)]}, toks[i:]...)...)
		default: // underscores and odd identifiers
			toks[i] = []string{"_", "__", "a__b", "A__B", "A_", "_A", "9A", "a9", "Ünï", "EOF", "ERROR", "lox", "on_x"}[r.Intn(13)]
		}
		if len(toks) == 0 {
			toks = []string{""}
		}
	}
	return strings.Join(toks, "")
}

func c12Raw(r *rng.R) []byte {
	switch r.Intn(6) {
	case 0:
		n := r.Intn(400)
		b := make([]byte, n)
		for i := range b {
			b[i] = byte(r.Intn(256))
		}
		return b
	case 1:
		n := r.Intn(300)
		b := make([]byte, n)
		pool := []byte("@lexerparstmodfgi'[]()|*+?!-=~,.{}\\ \n\nAZaz09_")
		for i := range b {
			b[i] = pool[r.Intn(len(pool))]
		}
		return b
	case 2:
		// long lines: a long literal (DFA construction is quadratic in its
		// length, so moderate sizes), or a 1 MB comment / garbage line
		switch r.Intn(150) {
		case 0:
			return []byte("@lexer\n// " + strings.Repeat("c", 1<<20) + "\nA = 'a'\n")
		case 1:
			return []byte("@lexer\nA = " + strings.Repeat("'a' ", 1<<12) + "\n")
		}
		n := 1 << uint(6+r.Intn(5))
		return []byte("@lexer\nA = '" + strings.Repeat("x", n) + "'\n")
	case 3:
		return []byte("@lexer\n" + strings.Repeat("A = 'a'\n", 1+r.Intn(3)) + string(rune(r.Intn(0x110000))))
	case 4:
		return bytes.Repeat([]byte{byte(r.Intn(256))}, r.Intn(5000))
	default:
		return []byte(strings.Repeat("@lexer\n@parser\n", r.Intn(200)))
	}
}

const tinyGo = "package PKGNAME\n\nimport \"batch/hc\"\n\ntype Token = hc.Token\n\ntype P struct{ lox }\n"

// goVariants are Go packages that are missing, empty, ill-typed or lack
// Token / the parser struct, for a fixed tiny valid specification.
func c12GoVariants() []map[string]string {
	lox := "@lexer\nA = 'a'\nB = 'b'\n\n@parser\n@start s = A t\nt = B | @empty\n"
	ok := "package PKGNAME\n\nimport \"batch/hc\"\n\ntype Token = hc.Token\n\ntype P struct{ lox }\n\nfunc (p *P) on_s(a Token, t int) int { return 0 }\nfunc (p *P) on_t(b Token) int { return 0 }\nfunc (p *P) on_t__e() int { return 0 }\n"
	v := func(files map[string]string) map[string]string {
		files["g.lox"] = lox
		return files
	}
	return []map[string]string{
		v(map[string]string{"p.go": ok}),
		v(map[string]string{}), // no Go file
		v(map[string]string{"p.go": ""}),
		v(map[string]string{"p.go": "package PKGNAME\n"}),
		v(map[string]string{"p.go": "package PKGNAME\nfunc broken( {\n"}),
		v(map[string]string{"p.go": strings.Replace(ok, "type Token = hc.Token\n", "", 1)}),
		v(map[string]string{"p.go": strings.Replace(ok, "type P struct{ lox }", "type P struct{}", 1)}),
		v(map[string]string{"p.go": ok + "\ntype Q struct{ lox }\n"}),
		v(map[string]string{"p.go": strings.Replace(ok, "type P struct{ lox }", "type P[T any] struct{ lox }", 1)}),
		v(map[string]string{"p.go": ok + "\nfunc (p *P) on_s__two(a Token, t int) (int, error) { return 0, nil }\n"}),
		v(map[string]string{"p.go": ok + "\nfunc (p *P) on_s__none(a Token, t int) { }\n"}),
		v(map[string]string{"p.go": ok + "\nvar x int = \"ill-typed\"\n"}),
		v(map[string]string{"p_test.go": ok}),
		v(map[string]string{"p.go": ok, "q.go": "package other\n"}),
		v(map[string]string{"p.go": ok + "\nfunc (p *P) on_nosuch(a Token) int { return 0 }\n"}),
		v(map[string]string{"p.go": strings.Replace(ok, "func (p *P) on_t__e() int { return 0 }\n", "", 1)}),
		v(map[string]string{"p.go": strings.Replace(ok, "on_t(b Token) int", "on_t(b Token) string", 1)}),
		v(map[string]string{"p.go": ok, "parser.gen.go/keep.txt": "the output path is a directory"}),
		v(map[string]string{"p.go": ok, "lexer.gen.go/keep.txt": "the output path is a directory"}),
		v(map[string]string{"p.go": ok + "\nimport \"nosuch/pkg\"\n"}),
		v(map[string]string{"p.go": strings.Replace(ok, "type Token = hc.Token", "type Token int", 1)}),
		v(map[string]string{"p.go": strings.Replace(ok, "type Token = hc.Token", "type Token struct{}; type Error int", 1)}),
	}
}

// ---------------------------------------------------------------------------

type cliVerdict struct {
	exit     int
	stderr   string
	timedOut bool
	cpuKill  bool
}

func runLoxLimited(env *run.Env, cwd string, cpuSec int, args ...string) cliVerdict {
	ctx, cancel := context.WithTimeout(context.Background(), time.Duration(cpuSec)*4*time.Second+2*time.Minute)
	defer cancel()
	script := fmt.Sprintf("ulimit -t %d; exec %q", cpuSec, env.Lox)
	for _, a := range args {
		script += fmt.Sprintf(" %q", a)
	}
	cmd := exec.CommandContext(ctx, "/bin/sh", "-c", script)
	cmd.Dir = cwd
	cmd.Env = append(os.Environ(), "GOFLAGS=-mod=mod", "GOPROXY=off", "GOSUMDB=off", "GOTOOLCHAIN=local", "GOCACHE="+env.GoCache, "GOMAXPROCS=2")
	var se bytes.Buffer
	cmd.Stderr = &se
	err := cmd.Run()
	v := cliVerdict{stderr: se.String()}
	if err != nil {
		var ee *exec.ExitError
		if errors.As(err, &ee) {
			v.exit = ee.ExitCode()
			if ws, ok := ee.Sys().(syscall.WaitStatus); ok && ws.Signaled() {
				v.exit = 128 + int(ws.Signal())
				if (ws.Signal() == syscall.SIGXCPU || ws.Signal() == syscall.SIGKILL) && ctx.Err() == nil {
					v.cpuKill = true
				}
			}
		} else {
			v.exit = -1
		}
	}
	if ctx.Err() != nil {
		v.timedOut = true
	}
	return v
}

// judgeCLI applies the property's oracle to one CLI run. dir is the package
// directory (sentinel files were planted before the run).
func judgeCLI(v cliVerdict, dir string) (kind, why string) {
	crash := strings.Contains(v.stderr, "panic:") || strings.Contains(v.stderr, "fatal error:") || strings.Contains(v.stderr, "goroutine ")
	switch {
	case v.cpuKill:
		return "generator-hangs", "lox exhausted its CPU-time limit"
	case v.timedOut:
		return "", "" // wall-clock watchdog: inconclusive, handled by the caller
	case crash || v.exit == 2 || v.exit > 128:
		return "generator-crashes", fmt.Sprintf("exit %d:\n%s", v.exit, trimTo(v.stderr, 2500))
	case v.exit == 0:
		for _, fn := range []string{"base.gen.go", "lexer.gen.go", "parser.gen.go"} {
			data, err := os.ReadFile(filepath.Join(dir, fn))
			if err != nil {
				return "exit-0-with-missing-output", fn + " is missing"
			}
			if strings.HasPrefix(string(data), "STALE") {
				return "exit-0-with-stale-output", fn + " was not rewritten"
			}
			if _, err := goparser.ParseFile(gotoken.NewFileSet(), fn, data, 0); err != nil {
				return "exit-0-with-partial-output", fn + " is not a complete Go file: " + err.Error()
			}
		}
	default:
		if strings.TrimSpace(v.stderr) == "" {
			return "failure-without-diagnostic", fmt.Sprintf("exit %d and nothing on stderr", v.exit)
		}
	}
	return "", ""
}

// panicSite extracts the top lox frame of a panic (for known-finding keys and
// for deduplication).
var siteRe = regexp.MustCompile(`github\.com/dcaiafa/lox/internal/([\w/]+)\.([\w.()*\[\]]+)\(`)

func panicSite(text string) string {
	for _, m := range siteRe.FindAllStringSubmatch(text, -1) {
		if strings.Contains(m[1], "base/assert") {
			continue
		}
		return m[1] + "." + m[2]
	}
	return "unknown-site"
}

func checkC12(c *Ctx) error {
	c.Ev = evidence.New("C12", c.Tier, c.Seed, "fault_enumeration",
		"inputs: (a) grammar-aware mutation of valid specifications (lox's own parser.lox, the bundled examples, generated multi-file specifications): token deletion / duplication / transposition, numeric extremes, empty and huge literals, unterminated literals / classes / modes, deep nesting, every keyword in every position, odd identifiers, newline and continuation games, byte-level garbage; (b) raw bytes: random, NUL, BOM, CRLF, invalid UTF-8, a 1 MB line; (c) a catalogue of adversarial snippets; (d) Go packages that are missing, empty, syntactically broken, ill-typed, lack Token or the parser struct, have two or a generic parser struct, action methods with zero or two results, only test files, or an output path occupied by a directory. Volume through the real front end in-process (hook ParseLox under recover, in worker child processes that announce each input before running it, under a CPU-time limit); every in-process panic or kill is re-run alone through the real CLI and only reported if the CLI reproduces it; plus direct CLI runs with stale sentinel files planted. Oracle: exit 0 => the three generated files exist, were rewritten and are complete Go files; otherwise at least one diagnostic line, no panic / fatal error / goroutine trace, never exit status 2 or a signal; CPU-limit kill = hang. Non-trivial: inputs that the front end rejects after having read at least one declaration, or accepts; distinct by input bytes.")
	c.Ev.Assumptions = []string{
		"hang = exhausting a 60 s CPU-time limit on an input below 1.1 MB (decided on CPU time; the wall-clock watchdog only yields 'inconclusive')",
		"in-process volume uses the ParseLox stage (front end, analysis, LALR construction); the Go analysis stages are exercised by the CLI runs",
	}
	r := c.R.Derive("inputs", 0)
	// base texts
	var bases []map[string]string
	for _, rel := range []string{"internal/parser/parser.lox", "examples/calc/calc.lox", "examples/jsonc/jsonc.lox", "examples/bolox/bolox.lox"} {
		if data, err := os.ReadFile(filepath.Join(run.RepoDir, rel)); err == nil {
			bases = append(bases, map[string]string{filepath.Base(rel): string(data)})
		}
	}
	d := newDrawer()
	for i := 0; i < 6; i++ {
		if b := c17Base(r, d); b != nil {
			bases = append(bases, b.render())
		}
	}
	for i := 0; i < 4; i++ {
		cc := drawC19(r)
		m := map[string]string{}
		for fn, src := range cc.Files {
			if strings.HasSuffix(fn, ".lox") {
				m[fn] = src
			}
		}
		bases = append(bases, m)
	}
	type input struct {
		files map[string][]byte
		kind  string
	}
	var inputs []input
	nMut := c.N(6000, 200000)
	for i := 0; i < nMut; i++ {
		b := bases[r.Intn(len(bases))]
		files := map[string][]byte{}
		var names []string
		for fn := range b {
			names = append(names, fn)
		}
		victim := names[r.Intn(len(names))]
		for fn, src := range b {
			if fn == victim {
				files[fn] = []byte(c12Mutate(r, src))
			} else {
				files[fn] = []byte(src)
			}
		}
		inputs = append(inputs, input{files, "mutation"})
	}
	for i := 0; i < c.N(600, 20000); i++ {
		inputs = append(inputs, input{map[string][]byte{"raw.lox": c12Raw(r)}, "raw-bytes"})
	}
	for _, a := range adversarial {
		inputs = append(inputs, input{map[string][]byte{"adv.lox": []byte(a)}, "catalogue"})
		inputs = append(inputs, input{map[string][]byte{"adv.lox": []byte(c12Mutate(r, a))}, "catalogue-mutated"})
	}
	// interleave the kinds so that every worker gets a similar load
	for i, j := range r.Perm(len(inputs)) {
		if i < j {
			inputs[i], inputs[j] = inputs[j], inputs[i]
		}
	}
	for _, m := range adversarialMulti {
		files := map[string][]byte{}
		for fn, src := range m {
			files[fn] = []byte(src)
		}
		inputs = append(inputs, input{files, "catalogue-multi-file"})
	}
	c.Logf("%d inputs prepared", len(inputs))

	// ---- in-process volume ---------------------------------------------------
	type suspect struct {
		idx   int
		panic string
		kill  bool
	}
	var suspects []suspect
	var mu sync.Mutex
	nW := 8
	chunk := (len(inputs) + nW - 1) / nW
	parallel(nW, nW, func(w int) {
		lo, hi := w*chunk, (w+1)*chunk
		if hi > len(inputs) {
			hi = len(inputs)
		}
		pos := lo
		dir := filepath.Join(c.Env.Scratch, fmt.Sprintf("fz%d", w))
		for pos < hi {
			var in bytes.Buffer
			enc := json.NewEncoder(&in)
			for i := pos; i < hi; i++ {
				enc.Encode(&fuzzIn{ID: i, Files: inputs[i].files})
			}
			ctx, cancel := context.WithTimeout(context.Background(), 30*time.Minute)
			cmd := exec.CommandContext(ctx, "/bin/sh", "-c", fmt.Sprintf("ulimit -t 7200; exec %q fuzzworker %q", c.Env.Self, dir))
			cmd.Env = append(os.Environ(), "GOMAXPROCS=2")
			cmd.Stdin = &in
			var so, se bytes.Buffer
			cmd.Stdout, cmd.Stderr = &so, &se
			cmd.Run()
			cancel()
			last := -1
			done := map[int]bool{}
			sc := bufio.NewScanner(&so)
			sc.Buffer(make([]byte, 1<<20), 1<<26)
			for sc.Scan() {
				line := sc.Bytes()
				if bytes.HasPrefix(line, []byte(`{"start":`)) {
					var s struct{ Start int }
					json.Unmarshal(line, &s)
					last = s.Start
					continue
				}
				var fo fuzzOut
				if json.Unmarshal(line, &fo) != nil {
					continue
				}
				done[fo.ID] = true
				c.Ev.Eval(1)
				if fo.CPU {
					size := 0
					for _, data := range inputs[fo.ID].files {
						size += len(data)
					}
					if size > 8192 {
						// large inputs may legitimately take long
						c.Ev.Count("large_inputs_over_cpu_budget(not judged)", 1)
					} else {
						mu.Lock()
						suspects = append(suspects, suspect{idx: fo.ID, kill: true, panic: "cpu-budget"})
						mu.Unlock()
					}
					pos = fo.ID + 1
					last = -2
					continue
				}
				if fo.OK {
					c.Ev.Count("front_end_accepted", 1)
				} else {
					c.Ev.Count("front_end_rejected_with_diagnostic", 1)
				}
				if fo.OK || fo.Diag > 0 {
					c.Ev.Distinct(fmt.Sprint(inputs[fo.ID].files))
				}
				if fo.Panic != "" {
					mu.Lock()
					suspects = append(suspects, suspect{idx: fo.ID, panic: fo.Panic})
					mu.Unlock()
				}
			}
			if last == -2 {
				continue
			}
			if last >= 0 && !done[last] {
				// the process died (fatal error, CPU limit) while running this input
				mu.Lock()
				suspects = append(suspects, suspect{idx: last, kill: true, panic: trimTo(se.String(), 3000)})
				mu.Unlock()
				pos = last + 1
				continue
			}
			break
		}
	})
	c.Logf("in-process volume done: %d evaluations, %d suspects", c.Ev.Evals(), len(suspects))
	c.Ev.Count("in_process_suspects", len(suspects))

	// ---- CLI: suspects (deduplicated by site), sample, catalogue, Go variants ----
	type cliCase struct {
		files  map[string]string
		origin string
		site   string
	}
	var cli []cliCase

	// ---- coverage-guided stage (Go fuzzing engine over the same front end) ----
	{
		var seeds [][]byte
		for _, a := range adversarial {
			seeds = append(seeds, []byte(a))
		}
		join := func(m map[string]string) []byte {
			var names []string
			for fn := range m {
				names = append(names, fn)
			}
			sort.Strings(names)
			var parts []string
			for _, fn := range names {
				parts = append(parts, m[fn])
			}
			return []byte(strings.Join(parts, c12Sep))
		}
		for _, m := range adversarialMulti {
			seeds = append(seeds, join(m))
		}
		for _, b := range bases {
			seeds = append(seeds, join(b))
		}
		crashers, st := c12CoverageGuided(c, seeds, c.N(40000, 1500000))
		c.Ev.Set("coverage_guided", map[string]any{"executions": st.Execs, "seeds": st.Seeds, "interesting_inputs_kept_by_the_engine": st.Interesting, "failing_inputs_reported": len(crashers), "note": st.Note})
		c.Logf("coverage-guided stage: %d executions from %d seeds, %d interesting, %d failing inputs %s", st.Execs, st.Seeds, st.Interesting, len(crashers), st.Note)
		c.Ev.Eval(st.Execs)
		if !st.Ran && len(crashers) == 0 {
			c.Inconclusive("coverage-guided-stage-did-not-run: " + st.Note)
		}
		for _, data := range crashers {
			files := c12SplitFuzzInput(data)
			files["p.go"] = tinyGo
			cli = append(cli, cliCase{files, "coverage-guided suspect", "fuzz"})
		}
	}
	bySite := map[string]int{}
	for _, s := range suspects {
		site := panicSite(s.panic)
		if s.kill {
			site = "killed:" + site
		}
		bySite[site]++
		if bySite[site] > 2 {
			continue
		}
		files := map[string]string{"p.go": tinyGo}
		for fn, data := range inputs[s.idx].files {
			files[fn] = string(data)
		}
		cli = append(cli, cliCase{files, "in-process suspect (" + inputs[s.idx].kind + ")", site})
	}
	c.Ev.Set("in_process_suspect_sites", bySite)
	nSample := c.N(150, 3000)
	for i := 0; i < nSample; i++ {
		in := inputs[r.Intn(len(inputs))]
		files := map[string]string{"p.go": tinyGo}
		for fn, data := range in.files {
			files[fn] = string(data)
		}
		cli = append(cli, cliCase{files, "cli sample (" + in.kind + ")", ""})
	}
	for _, a := range adversarial {
		cli = append(cli, cliCase{map[string]string{"p.go": tinyGo, "adv.lox": a}, "catalogue", ""})
	}
	for _, m := range adversarialMulti {
		files := map[string]string{"p.go": tinyGo}
		for fn, src := range m {
			files[fn] = src
		}
		cli = append(cli, cliCase{files, "catalogue-multi-file", ""})
	}
	for _, v := range c12GoVariants() {
		cli = append(cli, cliCase{v, "go-package-variant", ""})
	}
	cli = append(cli, cliCase{map[string]string{"p.go": tinyGo, "g.lox": "@lexer\nA = 'a'\n\n@parser\n@start s = A\n"}, "outside-any-go-module", ""})
	// valid specifications with a complete package must succeed completely
	for i := 0; i < c.N(6, 40); i++ {
		pc := d.draw(r, drawOpts{errPct: 10})
		if pc == nil {
			break
		}
		f := map[string]string{}
		for fn, src := range pc.Files {
			f[fn] = src
		}
		f["internals.go"] = pc.Stub
		cli = append(cli, cliCase{f, "valid-spec-with-package", ""})
	}
	// valid specifications of unusual but legal shapes: every generated file has
	// to be (re)written whatever the specification contains
	okGo := "package PKGNAME\n\nimport \"batch/hc\"\n\ntype Token = hc.Token\n\ntype P struct{ lox }\n\nfunc (p *P) on_s(a Token, b Token) int { return 0 }\n"
	for _, lx := range []string{
		"@lexer\n@external A B\n\n@parser\n@start s = A B\n",                                       // no lexer rule at all
		"@lexer\n@external A\n@external B\n@frag [ \\n]+ @discard\n\n@parser\n@start s = A B\n",     // only a discarding fragment
		"@lexer\n@external A B\n@mode M {\n  @frag 'x' @pop_mode\n}\n\n@parser\n@start s = A B\n", // a mode nobody enters, no token
		"@parser\n@start s = A B\n@lexer\n@external A B\n",                                          // parser section first
	} {
		cli = append(cli, cliCase{map[string]string{"p.go": okGo, "g.lox": lx}, "valid-spec-with-package (unusual shape)", ""})
	}
	cli = append(cli, cliCase{map[string]string{"p.go": tinyGo, "g.lox": "@lexer\nA = 'a'\n@frag [ \\n]+ @discard\n"}, "valid-spec-with-package (no parser section)", ""})
	b, err := c.Env.NewBatch()
	if err != nil {
		return err
	}
	defer b.Remove()
	reported := map[string]bool{}
	parallel(len(cli), 8, func(i int) {
		cc := cli[i]
		name := fmt.Sprintf("c%04d", i)
		dir := filepath.Join(b.Dir, name)
		os.MkdirAll(dir, 0o755)
		for fn, src := range cc.files {
			p := filepath.Join(dir, fn)
			os.MkdirAll(filepath.Dir(p), 0o755)
			os.WriteFile(p, []byte(strings.ReplaceAll(src, "package PKGNAME", "package "+name)), 0o644)
		}
		for _, fn := range []string{"base.gen.go", "lexer.gen.go", "parser.gen.go"} {
			p := filepath.Join(dir, fn)
			if st, err := os.Stat(p); err == nil && st.IsDir() {
				continue
			}
			os.WriteFile(p, []byte("STALE sentinel, not Go\n"), 0o644)
		}
		cwd := b.Dir
		if cc.origin == "outside-any-go-module" {
			// same files, but in a directory that belongs to no module
			cwd = filepath.Join(c.Env.Scratch, "nomodule")
			os.MkdirAll(cwd, 0o755)
			os.Rename(dir, filepath.Join(cwd, name))
			dir = filepath.Join(cwd, name)
		}
		v := runLoxLimited(c.Env, cwd, 60, name)
		c.Ev.Eval(1)
		c.Ev.Count("cli_runs", 1)
		c.Ev.Count("cli_origin_"+strings.Fields(cc.origin)[0], 1)
		if v.exit == 0 {
			c.Ev.Count("cli_exit_0", 1)
		}
		c.Ev.Distinct("cli" + fmt.Sprint(cc.files))
		if v.timedOut && !v.cpuKill {
			c.Inconclusive("cli-wall-clock-watchdog")
			return
		}
		if v.cpuKill {
			size := 0
			for fn, src := range cc.files {
				if strings.HasSuffix(fn, ".lox") {
					size += len(src)
				}
			}
			if size > 8192 {
				c.Ev.Count("large_inputs_over_cpu_budget(not judged)", 1)
				return
			}
		}
		kind, why := judgeCLI(v, dir)
		if strings.HasPrefix(cc.origin, "valid-spec-with-package") && kind == "" && v.exit != 0 {
			kind, why = "valid-spec-rejected", fmt.Sprintf("exit %d:\n%s", v.exit, trimTo(v.stderr, 1500))
		}
		if kind == "" {
			if strings.Contains(cc.origin, "suspect") {
				c.Ev.Count("suspects_not_reproduced_by_cli", 1)
			}
			if c.Ev.WantSample() {
				c.Ev.Sample(map[string]any{"origin": cc.origin, "exit": v.exit, "stderr": trimTo(v.stderr, 300), "files": trimFiles(cc.files)})
			}
			return
		}
		site := panicSite(v.stderr)
		key := kind + "@" + site
		mu.Lock()
		dup := reported[key]
		reported[key] = true
		mu.Unlock()
		if c.KnownFinding("crash@" + site) {
			return
		}
		if dup {
			c.mu.Lock()
			c.nviol++
			c.violKinds[key]++
			c.mu.Unlock()
			return
		}
		c.Violation(key, &Replay{Kind: "batch", Why: fmt.Sprintf("%s (%s): %s", kind, cc.origin, why), Files: cc.files, Observed: map[string]any{"exit": v.exit, "stderr": trimTo(v.stderr, 3000)}})
	})
	c.nontrivMin = 200
	return nil
}

func trimFiles(m map[string]string) map[string]string {
	out := map[string]string{}
	for k, v := range m {
		out[k] = trimTo(v, 400)
	}
	return out
}

var _ = gram.None
