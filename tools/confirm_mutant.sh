#!/bin/bash
# usage: tools/confirm_mutant.sh <worktree>   — confirms a seeded change left uncommitted in a scratch worktree:
# builds, unedited suite green, _demo/run.sh exits 1 with the change and 0 without it. Writes <worktree>.patch.
export GOFLAGS=-mod=mod GOPROXY=off GOSUMDB=off GOTOOLCHAIN=local
wt="$1"; cd "$wt" || exit 2
git diff > "$wt.patch"
[ -s "$wt.patch" ] || { echo "CONFIRM $wt: no change in the worktree"; exit 1; }
if git diff --name-only | grep -q '_test\.go$\|_baseline\|testdata'; then echo "CONFIRM $wt: touches tests/golden files"; fi
go build ./... > "$wt.build.log" 2>&1 || { echo "CONFIRM $wt: build FAILED"; exit 1; }
go test -vet=off -count=1 -timeout 25m ./... > "$wt.suite.log" 2>&1; suite=$?
bash _demo/run.sh > "$wt.demo_with.log" 2>&1; with=$?
git apply -R "$wt.patch" || { echo "CONFIRM $wt: cannot reverse the patch"; exit 1; }
bash _demo/run.sh > "$wt.demo_without.log" 2>&1; without=$?
git apply "$wt.patch"
git diff > "$wt.patch2"; cmp -s "$wt.patch" "$wt.patch2" || echo "CONFIRM $wt: patch changed after stash/pop!"
rm -f "$wt.patch2"
echo "CONFIRM $wt: suite_exit=$suite demo_with=$with (want 1) demo_without=$without (want 0) files: $(git diff --name-only | tr '\n' ' ')"
