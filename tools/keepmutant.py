#!/usr/bin/env python3
"""usage: keepmutant.py <name> <property> <worktree> <caught_by,comma> <needs...>
Stores a confirmed seeded change under /verif/seeded/<name>/ (patch.diff, demo/, meta.json)."""
import json, os, shutil, subprocess, sys
name, prop, wt, caught = sys.argv[1:5]
needs = " ".join(sys.argv[5:])
dst = f"/verif/seeded/{name}"
os.makedirs(dst, exist_ok=True)
patch = subprocess.run(["git", "-C", wt, "diff"], capture_output=True, text=True).stdout
open(f"{dst}/patch.diff", "w").write(patch)
demo = f"{dst}/demo"
if os.path.exists(demo):
    shutil.rmtree(demo)
shutil.copytree(f"{wt}/_demo", demo, ignore=shutil.ignore_patterns("work"))
# keep the Go tool from treating demo sources as packages of module verif
for root, _, files in os.walk(demo):
    for fn in files:
        if fn.endswith(".go"):
            os.rename(os.path.join(root, fn), os.path.join(root, fn + ".txt"))
head = subprocess.run(["git", "-C", "/repo", "rev-parse", "--short", "HEAD"], capture_output=True, text=True).stdout.strip()
meta = {
    "name": name,
    "breaks_property": prop,
    "needs_to_manifest": needs,
    "files_changed": [l.split(" b/")[-1] for l in patch.splitlines() if l.startswith("diff --git")],
    "confirmed": {
        "builds_and_passes_repo_suite": "go build ./... && go test -vet=off -count=1 ./... in a scratch worktree: PASS (run by the main session, log /tmp/mut/<id>.suite.log at the time)",
        "demonstration": "demo/run.sh (bash; Go sources stored with a .txt suffix, rename back to use) exits 1 with the change and 0 with the change reversed (git apply -R), run by the main session",
        "applies_to_repo_commit": head,
    },
    "caught_by_quick_checks": [c for c in caught.split(",") if c],
    "how_run": "tools/trymutant.sh seeded/%s/patch.diff <check ids> (git -C /repo apply; ./check.sh <id> quick; git -C /repo checkout -- .)" % name,
}
json.dump(meta, open(f"{dst}/meta.json", "w"), indent=1)
print("kept", dst)
