// Package specgen generates specifications from a deterministic PRNG.
package specgen

import (
	"sort"
	"fmt"

	"verif/internal/gram"
	"verif/internal/rng"
)

var tokNames = []string{"A", "B", "C", "D", "E", "F", "G", "H", "K", "J"}
var tokNamesAlt = []string{"PLUS", "MINUS", "STAR", "LP", "RP", "NUM", "ID", "SEMI", "COMMA", "KW_IF"}
var tokLitsAlt = []string{"+", "-", "*", "(", ")", "0", "id", ";", ",", "if"}
var ruleNames = []string{"s", "a", "b", "c", "d", "e", "f", "g"}
var ruleNamesAlt = []string{"prog", "stmt", "expr", "term", "item", "opt_x", "tail", "blk"}

// GrammarOpts tunes RandomGrammar.
type GrammarOpts struct {
	MaxTok    int
	MaxRules  int
	MaxProds  int
	MaxLen    int
	SugarPct  int  // percent of terms that get sugar
	ErrPct    int  // percent chance that a grammar gets @error terms at all
	AllowStarF bool
}

func DefaultGrammarOpts() GrammarOpts {
	return GrammarOpts{MaxTok: 5, MaxRules: 5, MaxProds: 4, MaxLen: 4, SugarPct: 28, ErrPct: 0, AllowStarF: true}
}

func mkTokens(r *rng.R, n int) []gram.Token {
	toks := make([]gram.Token, n)
	if r.Chance(1, 3) {
		p := r.Perm(len(tokNamesAlt))
		for i := range toks {
			toks[i] = gram.Token{Name: tokNamesAlt[p[i]], Lit: tokLitsAlt[p[i]]}
		}
		return toks
	}
	for i := range toks {
		toks[i] = gram.Token{Name: tokNames[i], Lit: string(rune('a' + i))}
	}
	return toks
}

func mkRuleNames(r *rng.R, n int) []string {
	out := make([]string, n)
	pool := ruleNames
	if r.Chance(1, 3) {
		pool = ruleNamesAlt
	}
	for i := range out {
		out[i] = pool[i]
	}
	return out
}

func randSugar(r *rng.R, o GrammarOpts) gram.Sugar {
	for {
		s := gram.Sugar(1 + r.Intn(6))
		if s == gram.StarF && !o.AllowStarF {
			continue
		}
		return s
	}
}

// RandomGrammar draws a grammar; nothing guarantees that it is LALR(1) — the
// caller asks the reference builder.
func RandomGrammar(r *rng.R, o GrammarOpts) *gram.Grammar {
	g := &gram.Grammar{}
	nTok := r.Range(2, o.MaxTok)
	nRules := r.Range(1, o.MaxRules)
	g.Tokens = mkTokens(r, nTok)
	names := mkRuleNames(r, nRules)
	leading := r.Chance(1, 2) // alternatives start with distinct tokens
	forward := r.Chance(1, 2) // rule references mostly point forward
	withErr := r.Intn(100) < o.ErrPct
	litPct := 0
	if r.Chance(1, 3) {
		litPct = 40
	}
	tokRef := func() gram.Ref { return gram.Ref{Kind: gram.KTok, Idx: r.Intn(nTok)} }
	for ri := 0; ri < nRules; ri++ {
		rule := gram.Rule{Name: names[ri]}
		nProds := r.Range(1, o.MaxProds)
		usedLead := map[int]bool{}
		hasEmpty := false
		for pi := 0; pi < nProds; pi++ {
			var p gram.Prod
			n := r.Range(0, o.MaxLen)
			if n == 0 && hasEmpty {
				n = 1
			}
			if n == 0 {
				hasEmpty = true
			}
			for ti := 0; ti < n; ti++ {
				var t gram.Term
				switch {
				case ti == 0 && leading && r.Chance(4, 5):
					// distinct leading token when one is left
					idx := -1
					for _, k := range r.Perm(nTok) {
						if !usedLead[k] {
							idx = k
							break
						}
					}
					if idx < 0 {
						idx = r.Intn(nTok)
					}
					usedLead[idx] = true
					t.Ref = gram.Ref{Kind: gram.KTok, Idx: idx}
				case r.Chance(45, 100):
					idx := r.Intn(nRules)
					if forward && r.Chance(3, 4) && ri+1 < nRules {
						idx = r.Range(ri+1, nRules-1)
					}
					t.Ref = gram.Ref{Kind: gram.KRule, Idx: idx}
				default:
					t.Ref = tokRef()
				}
				if !(ti == 0 && leading) && r.Intn(100) < o.SugarPct {
					t.Sugar = randSugar(r, o)
					if t.Sugar == gram.List || t.Sugar == gram.ListOpt {
						t.Sep = tokRef()
						if r.Chance(1, 8) && nRules > 1 {
							t.Sep = gram.Ref{Kind: gram.KRule, Idx: r.Intn(nRules)}
						}
						t.SepLit = t.Sep.Kind == gram.KTok && r.Intn(100) < litPct
					}
				}
				t.AsLit = t.Ref.Kind == gram.KTok && r.Intn(100) < litPct
				p.Terms = append(p.Terms, t)
			}
			if withErr && n > 0 && r.Chance(1, 4) {
				k := r.Intn(len(p.Terms))
				p.Terms[k] = gram.Term{Ref: gram.Ref{Kind: gram.KErr}}
			}
			rule.Prods = append(rule.Prods, p)
		}
		g.Rules = append(g.Rules, rule)
	}
	g.Start = 0
	return g
}

// ---------------------------------------------------------------------------
// Structured grammars: combinators that are likely (not guaranteed) LALR(1)
// and that aim at the mechanisms the properties name: shared nullable
// prefixes/suffixes, nullable rules in every position, left/right recursion,
// layered expressions, bracketed and separated lists.
// ---------------------------------------------------------------------------

type builder struct {
	r     *rng.R
	g     *gram.Grammar
	ntok  int
	nrule int
}

func (b *builder) tok() gram.Ref {
	i := len(b.g.Tokens)
	if i >= 10 {
		return gram.Ref{Kind: gram.KTok, Idx: b.r.Intn(10)}
	}
	b.g.Tokens = append(b.g.Tokens, gram.Token{Name: tokNames[i], Lit: string(rune('a' + i))})
	return gram.Ref{Kind: gram.KTok, Idx: i}
}

func (b *builder) oldTok() gram.Ref {
	if len(b.g.Tokens) == 0 || b.r.Chance(1, 3) {
		return b.tok()
	}
	return gram.Ref{Kind: gram.KTok, Idx: b.r.Intn(len(b.g.Tokens))}
}

func (b *builder) rule(prods ...gram.Prod) gram.Ref {
	i := len(b.g.Rules)
	b.g.Rules = append(b.g.Rules, gram.Rule{Name: fmt.Sprintf("r%d", i), Prods: prods})
	return gram.Ref{Kind: gram.KRule, Idx: i}
}

func (b *builder) reserve() int {
	i := len(b.g.Rules)
	b.g.Rules = append(b.g.Rules, gram.Rule{Name: fmt.Sprintf("r%d", i)})
	return i
}

func T(r gram.Ref) gram.Term                 { return gram.Term{Ref: r} }
func TS(r gram.Ref, s gram.Sugar) gram.Term  { return gram.Term{Ref: r, Sugar: s} }
func TL(r, sep gram.Ref, opt bool) gram.Term {
	s := gram.List
	if opt {
		s = gram.ListOpt
	}
	return gram.Term{Ref: r, Sugar: s, Sep: sep}
}
func P(ts ...gram.Term) gram.Prod { return gram.Prod{Terms: ts} }

// unit builds a sub-grammar and returns the symbol that derives it.
func (b *builder) unit(depth int) gram.Ref {
	r := b.r
	if depth <= 0 {
		return b.tok()
	}
	switch r.Intn(18) {
	case 16, 17:
		// adjacent lists with values of one Go type (two rule lists or two
		// token lists side by side, the second one possibly empty): an empty
		// list must be empty, whatever lies below it on the stack
		mk := func() gram.Ref {
			if r.Chance(1, 2) {
				return b.tok()
			}
			// a rule that begins with a token of its own
			return b.rule(P(T(b.tok()), TS(b.oldTok(), gram.Opt)))
		}
		x, y := mk(), mk()
		for y == x {
			y = mk()
		}
		if x.Kind != y.Kind {
			// same Go type needs the same kind of element
			if x.Kind == gram.KTok {
				y = b.tok()
			} else {
				y = b.rule(P(T(b.tok())))
			}
		}
		first := []gram.Term{TS(x, gram.Star), TS(x, gram.Plus), TL(x, b.tok(), false)}[r.Intn(3)]
		second := []gram.Term{TS(y, gram.Star), TS(y, gram.Star), TL(y, b.tok(), true)}[r.Intn(3)]
		if r.Chance(1, 2) {
			return b.rule(P(T(b.tok()), first, second, T(b.tok())))
		}
		return b.rule(P(first, second, T(b.tok())))
	case 14, 15:
		// the same element under several sugar forms and with different
		// separators in one specification (helper rules are shared by name)
		x := b.unit(depth - 1)
		s1, s2 := b.tok(), b.tok()
		k1, k2, k3 := b.tok(), b.tok(), b.tok()
		forms := []gram.Term{TL(x, s1, false), TL(x, s2, false), TL(x, s1, true), TS(x, gram.Plus), TS(x, gram.Star), TS(x, gram.Opt), TL(x, s2, true)}
		p := r.Perm(len(forms))
		switch r.Intn(4) {
		case 0:
			// both optional lists: same element, same kind of helper, only the
			// separator tells them apart
			return b.rule(P(T(k1), forms[2]), P(T(k2), forms[6]), P(T(k3), forms[p[2]]))
		case 1:
			return b.rule(P(T(k1), forms[0]), P(T(k2), forms[1]), P(T(k3), forms[p[2]]))
		}
		return b.rule(P(T(k1), forms[p[0]]), P(T(k2), forms[p[1]]), P(T(k3), forms[p[2]]))
	case 12, 13:
		// nullable chain: nullability has to travel several steps, against
		// declaration order, through rules that already own terminals:
		//   c0 = T U | c1 ;  c1 = T V | c2 ;  c2 = T? (or @empty)
		// (the rules are declared first-to-last, the nullable one last)
		n := r.Range(2, 4)
		common := b.tok()
		idx := make([]int, n)
		for i := range idx {
			idx[i] = b.reserve()
		}
		for i := 0; i < n; i++ {
			me := idx[i]
			if i == n-1 {
				switch r.Intn(3) {
				case 0:
					b.g.Rules[me].Prods = []gram.Prod{P(TS(common, gram.Opt))}
				case 1:
					b.g.Rules[me].Prods = []gram.Prod{P(T(common)), P()}
				default:
					b.g.Rules[me].Prods = []gram.Prod{P(TS(common, gram.Star))}
				}
				continue
			}
			next := gram.Ref{Kind: gram.KRule, Idx: idx[i+1]}
			b.g.Rules[me].Prods = []gram.Prod{P(T(common), T(b.tok())), P(T(next))}
			if r.Chance(1, 2) {
				b.g.Rules[me].Prods[0], b.g.Rules[me].Prods[1] = b.g.Rules[me].Prods[1], b.g.Rules[me].Prods[0]
			}
		}
		// put it where its nullability decides a reduce lookahead: after a
		// rule (which must be reduced on FIRST(chain post)) and before a token
		head := gram.Ref{Kind: gram.KRule, Idx: idx[0]}
		pre := b.rule(P(T(b.tok())))
		if r.Chance(1, 3) {
			return b.rule(P(T(pre), T(head)), P(T(pre), T(head), T(b.tok())))
		}
		return b.rule(P(T(b.tok()), T(pre), T(head), T(b.tok())))
	case 0: // optional thing as a rule: o = X | ε
		return b.rule(P(T(b.unit(depth-1))), P())
	case 1: // left-recursive list
		i := b.reserve()
		me := gram.Ref{Kind: gram.KRule, Idx: i}
		x := b.unit(depth - 1)
		if r.Chance(1, 2) {
			b.g.Rules[i].Prods = []gram.Prod{P(T(me), T(x)), P(T(x))}
		} else {
			b.g.Rules[i].Prods = []gram.Prod{P(T(me), T(x)), P()}
		}
		return me
	case 2: // right-recursive list
		i := b.reserve()
		me := gram.Ref{Kind: gram.KRule, Idx: i}
		x := b.tok()
		if r.Chance(1, 2) {
			b.g.Rules[i].Prods = []gram.Prod{P(T(x), T(me)), P(T(x))}
		} else {
			b.g.Rules[i].Prods = []gram.Prod{P(T(x), T(me)), P()}
		}
		return me
	case 3: // bracketed
		open, close := b.tok(), b.tok()
		inner := b.unit(depth - 1)
		return b.rule(P(T(open), T(inner), T(close)))
	case 4: // alternatives with distinct leading tokens
		n := r.Range(2, 3)
		var prods []gram.Prod
		for k := 0; k < n; k++ {
			p := P(T(b.tok()))
			if r.Chance(1, 2) {
				p.Terms = append(p.Terms, b.sugared(depth-1))
			}
			if r.Chance(1, 3) {
				p.Terms = append(p.Terms, T(b.oldTok()))
			}
			prods = append(prods, p)
		}
		return b.rule(prods...)
	case 5: // shared nullable prefix: m = o K | o J ; o = O | ε   (FIRST shape)
		o := b.rule(P(T(b.tok())), P())
		k, j := b.tok(), b.tok()
		return b.rule(P(T(o), T(k)), P(T(o), T(j)))
	case 6: // shared nullable suffix
		o := b.rule(P(T(b.tok())), P())
		k, j := b.tok(), b.tok()
		return b.rule(P(T(k), T(o)), P(T(j), T(o)))
	case 7: // nullable in the middle
		o := b.rule(P(T(b.tok())), P())
		o2 := b.rule(P(T(b.tok())), P())
		return b.rule(P(T(b.tok()), T(o), T(o2), T(b.tok())))
	case 8: // layered expression
		plus, star, lp, rp, id := b.tok(), b.tok(), b.tok(), b.tok(), b.tok()
		ei, ti, fi := b.reserve(), b.reserve(), b.reserve()
		e := gram.Ref{Kind: gram.KRule, Idx: ei}
		t := gram.Ref{Kind: gram.KRule, Idx: ti}
		f := gram.Ref{Kind: gram.KRule, Idx: fi}
		b.g.Rules[ei].Prods = []gram.Prod{P(T(e), T(plus), T(t)), P(T(t))}
		b.g.Rules[ti].Prods = []gram.Prod{P(T(t), T(star), T(f)), P(T(f))}
		b.g.Rules[fi].Prods = []gram.Prod{P(T(lp), T(e), T(rp)), P(T(id))}
		return e
	case 9: // sequence of sugared terms separated by tokens
		n := r.Range(1, 3)
		var ts []gram.Term
		for k := 0; k < n; k++ {
			ts = append(ts, b.sugared(depth-1))
			if r.Chance(2, 3) {
				ts = append(ts, T(b.tok()))
			}
		}
		return b.rule(P(ts...))
	case 10: // two nullable rules in a row followed by a token
		o1 := b.rule(P(T(b.tok())), P())
		o2 := b.rule(P(T(b.tok()), T(b.oldTok())), P())
		return b.rule(P(T(o1), T(o2), T(b.tok())), P(T(o1), T(b.tok())))
	default:
		return b.tok()
	}
}

func (b *builder) sugared(depth int) gram.Term {
	r := b.r
	x := b.unit(depth)
	switch r.Intn(8) {
	case 0:
		return TS(x, gram.Opt)
	case 1:
		return TS(x, gram.Star)
	case 2:
		return TS(x, gram.Plus)
	case 3:
		return TS(x, gram.StarF)
	case 4:
		return TL(x, b.tok(), false)
	case 5:
		return TL(x, b.tok(), true)
	default:
		return T(x)
	}
}

// StructuredGrammar builds a grammar from the combinators above.
func StructuredGrammar(r *rng.R) *gram.Grammar {
	b := &builder{r: r, g: &gram.Grammar{}}
	start := b.reserve()
	b.g.Rules[start].Name = "s"
	n := r.Range(1, 3)
	var prods []gram.Prod
	switch r.Intn(3) {
	case 0:
		// one production: sequence of sugared units
		var ts []gram.Term
		for k := 0; k < n; k++ {
			ts = append(ts, b.sugared(2))
		}
		prods = []gram.Prod{P(ts...)}
	case 1:
		// alternatives with distinct leading tokens
		for k := 0; k < n+1; k++ {
			prods = append(prods, P(T(b.tok()), b.sugared(2)))
		}
	default:
		prods = []gram.Prod{P(b.sugared(2), T(b.tok()), b.sugared(1))}
	}
	b.g.Rules[start].Prods = prods
	b.g.Start = start
	if len(b.g.Tokens) == 0 {
		b.tok()
	}
	// Literal aliases sometimes.
	if r.Chance(1, 3) {
		for ri := range b.g.Rules {
			for pi := range b.g.Rules[ri].Prods {
				for ti := range b.g.Rules[ri].Prods[pi].Terms {
					t := &b.g.Rules[ri].Prods[pi].Terms[ti]
					if t.Ref.Kind == gram.KTok && r.Chance(1, 2) {
						t.AsLit = true
					}
					if (t.Sugar == gram.List || t.Sugar == gram.ListOpt) && t.Sep.Kind == gram.KTok && r.Chance(1, 2) {
						t.SepLit = true
					}
				}
			}
		}
	}
	return b.g
}

// AddErrors sprinkles @error terms over a grammar (for the recovery checks):
// new alternatives `@error`, `@error T`, `T @error`, `T @error T2` on a few
// rules, which is how error productions are written in practice.
func AddErrors(r *rng.R, g *gram.Grammar) {
	n := r.Range(1, 3)
	for k := 0; k < n; k++ {
		ri := r.Intn(len(g.Rules))
		e := gram.Term{Ref: gram.Ref{Kind: gram.KErr}}
		tok := func() gram.Term { return gram.Term{Ref: gram.Ref{Kind: gram.KTok, Idx: r.Intn(len(g.Tokens))}} }
		var p gram.Prod
		switch r.Intn(5) {
		case 0:
			p = P(e)
		case 1:
			p = P(e, tok())
		case 2:
			p = P(tok(), e)
		case 3:
			p = P(tok(), e, tok())
		default:
			// replace one term of an existing production by @error
			rule := &g.Rules[ri]
			pi := r.Intn(len(rule.Prods))
			if len(rule.Prods[pi].Terms) > 0 {
				np := gram.Prod{Terms: append([]gram.Term(nil), rule.Prods[pi].Terms...)}
				np.Terms[r.Intn(len(np.Terms))] = e
				p = np
			} else {
				p = P(e)
			}
		}
		g.Rules[ri].Prods = append(g.Rules[ri].Prods, p)
	}
}

// ErrorSugarRecoveryGrammar: @error?, @error* or @error+ at a place where a
// recovery has to pop a value of such a term off the stack: the zero Error of
// an empty '@error?' (no error at all), or the slice of '@error+' holding an
// Error that has not reached a user action yet.
func ErrorSugarRecoveryGrammar(r *rng.R) *gram.Grammar {
	g := &gram.Grammar{}
	for i := 0; i < 6; i++ {
		g.Tokens = append(g.Tokens, gram.Token{Name: tokNames[i], Lit: string(rune('a' + i))})
	}
	perm := r.Perm(6)
	tk := func(i int) gram.Term { return gram.Term{Ref: gram.Ref{Kind: gram.KTok, Idx: perm[i]}} }
	rl := func(i int, s gram.Sugar) gram.Term { return gram.Term{Ref: gram.Ref{Kind: gram.KRule, Idx: i}, Sugar: s} }
	es := func(s gram.Sugar) gram.Term { return gram.Term{Ref: gram.Ref{Kind: gram.KErr}, Sugar: s} }
	sg := []gram.Sugar{gram.Opt, gram.Star, gram.Plus}[r.Intn(3)]
	switch r.Intn(4) {
	case 0:
		// a list of items that begin with the error term
		item := gram.Rule{Name: "item", Prods: []gram.Prod{P(es(sg), tk(0), tk(1), tk(2))}}
		if r.Chance(1, 2) {
			item.Prods = append(item.Prods, P(tk(3)))
		}
		g.Rules = []gram.Rule{{Name: "s", Prods: []gram.Prod{P(rl(1, []gram.Sugar{gram.Star, gram.Plus}[r.Intn(2)]))}}, item}
	case 1:
		// the error term between two tokens, the error comes after the second
		p := P(tk(0), es(sg), tk(1))
		if r.Chance(1, 2) {
			p.Terms = append(p.Terms, tk(2))
		}
		g.Rules = []gram.Rule{{Name: "s", Prods: []gram.Prod{p}}}
		if r.Chance(1, 2) {
			g.Rules[0].Prods = append(g.Rules[0].Prods, P(tk(3), tk(3)))
		}
	case 2:
		// the same token before and after, next to other alternatives
		g.Rules = []gram.Rule{
			{Name: "s", Prods: []gram.Prod{P(tk(0), es(sg), tk(0)), P(tk(1), rl(1, gram.Plus), tk(2)), P(es(gram.None))}},
			{Name: "elem", Prods: []gram.Prod{P(tk(3)), P(es(gram.None)), P(tk(1), rl(1, gram.None), tk(2))}},
		}
	default:
		// the error term in an inner rule, more tokens behind it in the outer one
		g.Rules = []gram.Rule{
			{Name: "s", Prods: []gram.Prod{P(rl(1, gram.Plus))}},
			{Name: "stmt", Prods: []gram.Prod{P(rl(2, gram.None), tk(0), tk(1)), P(tk(2), tk(1))}},
			{Name: "head", Prods: []gram.Prod{P(tk(3), es(sg)), P(tk(4))}},
		}
	}
	return g
}

// AddErrorsUnderSugar is AddErrors with the @error term written @error?,
// @error* or @error+ half of the time ("any placement of @error terms").
func AddErrorsUnderSugar(r *rng.R, g *gram.Grammar) {
	before := make([]int, len(g.Rules))
	for i := range g.Rules {
		before[i] = len(g.Rules[i].Prods)
	}
	AddErrors(r, g)
	for ri := range g.Rules {
		for pi := before[ri]; pi < len(g.Rules[ri].Prods); pi++ {
			for ti := range g.Rules[ri].Prods[pi].Terms {
				t := &g.Rules[ri].Prods[pi].Terms[ti]
				if t.Ref.Kind == gram.KErr && t.Sugar == gram.None && r.Chance(1, 2) {
					t.Sugar = []gram.Sugar{gram.Opt, gram.Star, gram.Plus}[r.Intn(3)]
				}
			}
		}
	}
}

// ---------------------------------------------------------------------------
// Operator grammars (C04, C05)
// ---------------------------------------------------------------------------

type OpLevel struct {
	Right bool
	Ops   []int // token indices
}

// ExprSpec describes an operator table and the grammar built from it.
type ExprSpec struct {
	G        *gram.Grammar
	Levels   []OpLevel // Levels[i] has precedence i+1
	Num      int       // token index of the atom
	LP, RP   int       // token indices, -1 when there are no parentheses
	Unary    int       // token index of a prefix operator (-1 none)
	UnaryLvl int       // its precedence
	Call     bool      // primary rule p = p LP2 RP2 | NUM
	CallLP, CallRP int
	ExprRule int
	// Twists that must NOT be settled by precedence (C04):
	Twist string // "", "unqualified-op", "unqualified-prefix", "unqualified-postfix", "cross-rule", "reduce-reduce", "mixed-assoc-level", "mixed-shift-levels"
}

var opTokNames = []string{"PLUS", "MINUS", "STAR", "SLASH", "POW", "EQ", "LT", "AND"}
var opTokLits = []string{"+", "-", "*", "/", "^", "=", "<", "&"}

// ExprGrammar draws an operator grammar. twist selects a deliberately
// unresolvable variant ("" for a clean table).
func ExprGrammar(r *rng.R, twist string) *ExprSpec {
	es := &ExprSpec{G: &gram.Grammar{}, LP: -1, RP: -1, Unary: -1, Twist: twist}
	g := es.G
	addTok := func(name, lit string) int {
		g.Tokens = append(g.Tokens, gram.Token{Name: name, Lit: lit})
		return len(g.Tokens) - 1
	}
	es.Num = addTok("NUM", "0")
	nLevels := r.Range(1, 3)
	// The numbers written in @left(n) / @right(n): only their order matters,
	// so any increasing sequence must behave like 1, 2, 3, 4 (numbers above
	// one byte or two, numbers that collide modulo 256 or 65536, very large ones).
	lvlPools := [][4]int{{1, 2, 3, 4}, {1, 2, 3, 4}, {1, 2, 3, 4}, {100, 200, 300, 400}, {255, 256, 257, 258}, {1, 257, 513, 769},
		{2, 256, 65536, 65538}, {44, 300, 556, 65580}, {9, 10, 99, 100}, {127, 128, 32767, 32768}, {65535, 65536, 16777216, 2147483647}, {3, 70000, 70001, 1000000000}}
	pool := lvlPools[r.Intn(len(lvlPools))]
	if r.Chance(1, 6) {
		vals := map[int]bool{}
		for len(vals) < 4 {
			vals[1+r.Intn(1<<uint(r.Range(3, 31))-1)] = true
		}
		var vs []int
		for v := range vals {
			vs = append(vs, v)
		}
		sort.Ints(vs)
		copy(pool[:], vs)
	}
	lvl := func(i int) int { // i = 1-based level index
		if i >= 1 && i <= 4 {
			return pool[i-1]
		}
		return pool[3] + i
	}
	perm := r.Perm(len(opTokNames))
	k := 0
	for l := 0; l < nLevels; l++ {
		lv := OpLevel{Right: r.Chance(1, 3)}
		n := r.Range(1, 2)
		for i := 0; i < n && k < len(perm); i++ {
			lv.Ops = append(lv.Ops, addTok(opTokNames[perm[k]], opTokLits[perm[k]]))
			k++
		}
		es.Levels = append(es.Levels, lv)
	}
	if r.Chance(2, 3) {
		es.LP, es.RP = addTok("LP", "("), addTok("RP", ")")
	}
	tok := func(i int) gram.Term { return gram.Term{Ref: gram.Ref{Kind: gram.KTok, Idx: i}, AsLit: r.Chance(1, 3)} }
	e := gram.Ref{Kind: gram.KRule, Idx: 0}
	g.Rules = append(g.Rules, gram.Rule{Name: "expr"})
	es.ExprRule = 0
	var prods []gram.Prod
	for li, lv := range es.Levels {
		for oi, op := range lv.Ops {
			p := gram.Prod{Terms: []gram.Term{{Ref: e}, tok(op), {Ref: e}}, Qual: &gram.Qual{Right: lv.Right, N: lvl(li + 1)}}
			if twist == "unqualified-op" && li == 0 && oi == 0 {
				p.Qual = nil
			}
			if twist == "mixed-assoc-level" && li == 0 && oi == 0 && len(lv.Ops) > 1 {
				p.Qual.Right = !lv.Right
			}
			prods = append(prods, p)
		}
	}
	if twist == "" && r.Chance(1, 4) {
		es.Unary = addTok("NEG", "~")
		es.UnaryLvl = r.Range(1, nLevels+1)
		prods = append(prods, gram.Prod{Terms: []gram.Term{tok(es.Unary), {Ref: e}}, Qual: &gram.Qual{Right: r.Chance(1, 2), N: lvl(es.UnaryLvl)}})
	}
	switch twist {
	case "unqualified-prefix":
		// a prefix operator alternative without a qualifier next to the
		// qualified binary ones: its conflicts with them are not settled
		neg := addTok("NEG", "~")
		prods = append(prods, gram.Prod{Terms: []gram.Term{tok(neg), {Ref: e}}})
	case "unqualified-postfix":
		bang := addTok("BANG", "!")
		if r.Chance(1, 2) {
			prods = append(prods, gram.Prod{Terms: []gram.Term{{Ref: e}, tok(bang)}})
		} else {
			lb, rb := addTok("LB", "["), addTok("RB", "]")
			prods = append(prods, gram.Prod{Terms: []gram.Term{{Ref: e}, tok(lb), {Ref: e}, tok(rb)}})
		}
	case "unqualified-shares-operator":
		// an alternative without qualifier that wants to shift the very
		// operator of a qualified one (expr OP OP, expr OP BANG), written before
		// or after the qualified alternatives: after "expr OP expr" the shift
		// of OP is wanted by a qualified and by an unqualified production, so
		// precedence must not settle the cell
		if len(es.Levels) > 0 {
			lvx := es.Levels[r.Intn(len(es.Levels))]
			op := lvx.Ops[r.Intn(len(lvx.Ops))]
			var up gram.Prod
			if r.Chance(1, 2) {
				up = gram.Prod{Terms: []gram.Term{{Ref: e}, tok(op), tok(op)}}
			} else {
				bang := addTok("BANG", "!")
				up = gram.Prod{Terms: []gram.Term{{Ref: e}, tok(op), tok(bang)}}
			}
			if r.Chance(1, 2) {
				prods = append([]gram.Prod{up}, prods...)
			} else {
				prods = append(prods, up)
			}
		}
	}
	if es.LP >= 0 {
		prods = append(prods, gram.Prod{Terms: []gram.Term{tok(es.LP), {Ref: e}, tok(es.RP)}})
	}
	if twist == "" && r.Chance(1, 3) {
		// call syntax lives in a lower rule so that it stays unqualified
		es.Call = true
		es.CallLP, es.CallRP = addTok("LB", "["), addTok("RB", "]")
		g.Rules = append(g.Rules, gram.Rule{Name: "prim", Prods: []gram.Prod{
			{Terms: []gram.Term{{Ref: gram.Ref{Kind: gram.KRule, Idx: 1}}, tok(es.CallLP), tok(es.CallRP)}},
			{Terms: []gram.Term{tok(es.Num)}},
		}})
		prods = append(prods, gram.Prod{Terms: []gram.Term{{Ref: gram.Ref{Kind: gram.KRule, Idx: 1}}}})
	} else {
		prods = append(prods, gram.Prod{Terms: []gram.Term{tok(es.Num)}})
	}
	switch twist {
	case "cross-rule":
		// the highest level moves to another rule: conflicts now span rules
		nr := len(g.Rules)
		op := addTok("XOP", "%")
		g.Rules = append(g.Rules, gram.Rule{Name: "other", Prods: []gram.Prod{
			{Terms: []gram.Term{{Ref: e}, tok(op), {Ref: e}}, Qual: &gram.Qual{N: lvl(nLevels + 1)}},
		}})
		prods = append(prods, gram.Prod{Terms: []gram.Term{{Ref: gram.Ref{Kind: gram.KRule, Idx: nr}}}})
	case "reduce-reduce":
		// two qualified alternatives that derive the same token
		x := addTok("XX", "x")
		prods = append(prods,
			gram.Prod{Terms: []gram.Term{tok(x)}, Qual: &gram.Qual{N: lvl(1)}},
			gram.Prod{Terms: []gram.Term{tok(x)}, Qual: &gram.Qual{N: lvl(2)}})
	case "three-way-cell":
		// total = expr OP expr next to the qualified expr OP expr, both
		// reachable: after "expr OP expr" the cell on OP holds a shift and two
		// reductions (expr and total); the reduce/reduce part spans two rules
		// and must be reported whatever the qualifiers say
		if len(es.Levels) > 0 {
			op := es.Levels[0].Ops[0]
			nr := len(g.Rules)
			g.Rules = append(g.Rules, gram.Rule{Name: "total", Prods: []gram.Prod{
				{Terms: []gram.Term{{Ref: e}, tok(op), {Ref: e}}},
			}})
			g.Rules = append(g.Rules, gram.Rule{Name: "top", Prods: []gram.Prod{
				{Terms: []gram.Term{{Ref: gram.Ref{Kind: gram.KRule, Idx: nr}}, tok(op), tok(es.Num)}},
				{Terms: []gram.Term{{Ref: e}}},
			}})
			g.Rules[0].Prods = prods
			g.Start = len(g.Rules) - 1
			return es
		}
	case "mixed-shift-levels":
		// expr OP expr with the same operator at two levels: the productions
		// wanting the shift carry different levels
		if len(es.Levels) > 0 {
			op := es.Levels[0].Ops[0]
			prods = append(prods, gram.Prod{Terms: []gram.Term{{Ref: e}, tok(op), tok(op), {Ref: e}}, Qual: &gram.Qual{N: lvl(len(es.Levels) + 1)}})
		}
	}
	g.Rules[0].Prods = prods
	g.Start = 0
	if r.Chance(1, 3) {
		// wrap: s = expr (SEMI expr)* style, to put the table below the start
		semi := addTok("SEMI", ";")
		g.Rules = append(g.Rules, gram.Rule{Name: "prog", Prods: []gram.Prod{
			{Terms: []gram.Term{{Ref: e, Sugar: gram.List, Sep: gram.Ref{Kind: gram.KTok, Idx: semi}}}},
		}})
		g.Start = len(g.Rules) - 1
	}
	return es
}

// NotLALRGrammar grafts the classic LR(1)-but-not-LALR(1) pattern
// (s = A x D | B y D | A y E | B x E; x = C; y = C) into a small grammar.
func NotLALRGrammar(r *rng.R) *gram.Grammar {
	g := &gram.Grammar{}
	for i := 0; i < 6; i++ {
		g.Tokens = append(g.Tokens, gram.Token{Name: tokNames[i], Lit: string(rune('a' + i))})
	}
	t := func(i int) gram.Term { return gram.Term{Ref: gram.Ref{Kind: gram.KTok, Idx: i}} }
	rl := func(i int) gram.Term { return gram.Term{Ref: gram.Ref{Kind: gram.KRule, Idx: i}} }
	g.Rules = []gram.Rule{
		{Name: "s", Prods: []gram.Prod{P(t(0), rl(1), t(3)), P(t(1), rl(2), t(3)), P(t(0), rl(2), t(4)), P(t(1), rl(1), t(4))}},
		{Name: "x", Prods: []gram.Prod{P(t(2))}},
		{Name: "y", Prods: []gram.Prod{P(t(2))}},
	}
	if r.Chance(1, 2) {
		g.Rules[1].Prods = append(g.Rules[1].Prods, P(t(2), t(5)))
	}
	if r.Chance(1, 2) {
		// wrap in a list
		g.Rules = append(g.Rules, gram.Rule{Name: "top", Prods: []gram.Prod{P(TS(gram.Ref{Kind: gram.KRule, Idx: 0}, gram.Plus))}})
		g.Start = 3
	}
	return g
}

var renameRulePool = []string{"Aa", "Bee", "alpha", "Delta", "eps", "Expr", "Gam", "item", "Kap", "lam", "Mu", "nu", "Omega", "pi", "Quo", "rho", "Sig", "tau", "Ups", "v1", "Wye", "xi", "Yod", "zed", "Zz", "q_1", "T9", "a0"}
var renameTokPool = []string{"AA", "BEE", "CH", "D1", "EPS", "FF", "GAM", "HH", "II", "JOT", "KAP", "LPAREN", "MU", "NUM", "OO", "PLUS", "QQ", "RPAREN", "SIG", "TAU", "UU", "VEE", "WYE", "XI", "YOD", "ZED", "ZZ", "Z_9", "A_0", "M1"}

// RenameSymbols gives rules and tokens names whose relative order (ASCII:
// upper case before lower case) is arbitrary: capitalised and lower-case rule
// names, token names from A to Z. Anything in the generator that depends on
// the order of symbol names sees every arrangement, not only "all tokens
// before all rules".
func RenameSymbols(r *rng.R, g *gram.Grammar) {
	if g.CustomLexer != "" || len(g.LexExtra) > 0 || len(g.Rules) > len(renameRulePool) || len(g.Tokens) > len(renameTokPool) {
		return
	}
	pr := r.Perm(len(renameRulePool))
	for i := range g.Rules {
		g.Rules[i].Name = renameRulePool[pr[i]]
	}
	pt := r.Perm(len(renameTokPool))
	for i := range g.Tokens {
		g.Tokens[i].Name = renameTokPool[pt[i]]
	}
}

// ErrorNameClashGrammar: a parser rule may be called ERROR (only token names
// are reserved). Next to @error terms under the same sugar (ERROR* and @error*,
// ERROR+ and @error+, ERROR? and @error?) two different symbols, a rule and the error terminal, carry one name, and
// the helper rules generated for them must not be mistaken for each other.
func ErrorNameClashGrammar(r *rng.R) *gram.Grammar {
	g := &gram.Grammar{}
	for i := 0; i < 6; i++ {
		g.Tokens = append(g.Tokens, gram.Token{Name: tokNames[i], Lit: string(rune('a' + i))})
	}
	perm := r.Perm(6)
	tk := func(i int) gram.Term { return gram.Term{Ref: gram.Ref{Kind: gram.KTok, Idx: perm[i]}} }
	sugar := []gram.Sugar{gram.Star, gram.Plus, gram.Opt}[r.Intn(3)] // @list(@error, S) is not accepted by lox
	mk := func(ref gram.Ref) gram.Term {
		t := gram.Term{Ref: ref, Sugar: sugar}
		if sugar == gram.List {
			t.Sep = gram.Ref{Kind: gram.KTok, Idx: perm[5]}
		}
		return t
	}
	ruleT := mk(gram.Ref{Kind: gram.KRule, Idx: 1})
	errT := mk(gram.Ref{Kind: gram.KErr})
	errRule := gram.Rule{Name: "ERROR", Prods: []gram.Prod{P(tk(3), tk(3))}}
	if r.Chance(1, 2) {
		errRule.Prods = append(errRule.Prods, P(tk(4)))
	}
	switch r.Intn(3) {
	case 0:
		// both in one production
		first, second := ruleT, errT
		if r.Chance(1, 2) {
			first, second = errT, ruleT
		}
		g.Rules = []gram.Rule{{Name: "s", Prods: []gram.Prod{P(tk(0), first, tk(1), second, tk(2))}}, errRule}
	case 1:
		// in two alternatives of one rule
		g.Rules = []gram.Rule{{Name: "s", Prods: []gram.Prod{P(tk(0), ruleT, tk(1)), P(tk(2), errT, tk(1))}}, errRule}
	default:
		// in two rules
		g.Rules = []gram.Rule{
			{Name: "s", Prods: []gram.Prod{P(tk(0), ruleT, gram.Term{Ref: gram.Ref{Kind: gram.KRule, Idx: 2}})}},
			errRule,
			{Name: "tail", Prods: []gram.Prod{P(tk(1), errT, tk(2))}},
		}
	}
	return g
}

// ErrorContextsGrammar: a rule with an @error alternative used in two or
// three contexts that are followed by different tokens (bare, A x B, C x D, as
// elements of a list). LALR(1) merges the states after the error production,
// so it is reduced on lookaheads the actual context rejects: recovery inside
// recovery, also at the end of the input.
func ErrorContextsGrammar(r *rng.R) *gram.Grammar {
	g := &gram.Grammar{}
	n := 8
	for i := 0; i < n; i++ {
		g.Tokens = append(g.Tokens, gram.Token{Name: tokNames[i], Lit: string(rune('a' + i))})
	}
	perm := r.Perm(n)
	tk := func(i int) gram.Term { return gram.Term{Ref: gram.Ref{Kind: gram.KTok, Idx: perm[i]}} }
	rl := func(i int) gram.Term { return gram.Term{Ref: gram.Ref{Kind: gram.KRule, Idx: i}} }
	e := gram.Term{Ref: gram.Ref{Kind: gram.KErr}}
	// rule 1: item
	item := gram.Rule{Name: "item", Prods: []gram.Prod{P(tk(0))}}
	switch r.Intn(4) {
	case 0:
		item.Prods = append(item.Prods, P(e))
	case 1:
		item.Prods = append(item.Prods, P(e, tk(1)))
	case 2:
		item.Prods = append(item.Prods, P(e), P(tk(1), e))
	default:
		item.Prods = append(item.Prods, P(tk(1), tk(0)), P(e))
	}
	inner := -1
	s := gram.Rule{Name: "s"}
	ctx := [][]gram.Term{{rl(1)}, {tk(2), rl(1), tk(3)}, {tk(4), rl(1), tk(5)}, {tk(2), tk(2), rl(1), tk(5)}, {tk(6), rl(1)}}
	cp := r.Perm(len(ctx))
	k := r.Range(2, 3)
	for i := 0; i < k; i++ {
		s.Prods = append(s.Prods, P(ctx[cp[i]]...))
	}
	g.Rules = []gram.Rule{s, item}
	if r.Chance(1, 3) {
		// one more level: item = wrap; wrap carries the error alternative
		inner = len(g.Rules)
		g.Rules = append(g.Rules, gram.Rule{Name: "wrap", Prods: g.Rules[1].Prods})
		g.Rules[1].Prods = []gram.Prod{P(rl(inner)), P(tk(7), rl(inner))}
	}
	if r.Chance(1, 3) {
		// the contexts repeat: prog = s (SEP s)*
		top := len(g.Rules)
		g.Rules = append(g.Rules, gram.Rule{Name: "prog", Prods: []gram.Prod{P(gram.Term{Ref: gram.Ref{Kind: gram.KRule, Idx: 0}, Sugar: gram.List, Sep: gram.Ref{Kind: gram.KTok, Idx: perm[7]}})}})
		g.Start = top
	}
	return g
}

// LargeGrammar: some hundred statement forms, each introduced by its own pair
// of keywords: several hundred productions and well over a thousand states
// (the reference LALR(1) builder keeps lookahead sets in 64 bits, so the
// number of tokens stays below that). Anything the generator or the generated
// code stores in fewer bits than it needs (production, state or row numbers,
// negative reduce entries) shows.
func LargeGrammar(r *rng.R) *gram.Grammar {
	const nk = 18
	n := r.Range(258, 300)
	g := &gram.Grammar{}
	tok := func(name, lit string) gram.Ref {
		g.Tokens = append(g.Tokens, gram.Token{Name: name, Lit: lit})
		return gram.Ref{Kind: gram.KTok, Idx: len(g.Tokens) - 1}
	}
	x, y, end, sep := tok("X", "x"), tok("Y", "y"), tok("END", ";"), tok("SEP", ",")
	var kw []gram.Ref
	for i := 0; i < nk; i++ {
		kw = append(kw, tok(fmt.Sprintf("K%02d", i), fmt.Sprintf("k%02d", i)))
	}
	g.Rules = append(g.Rules, gram.Rule{Name: "s"}, gram.Rule{Name: "stmt"})
	stmt := gram.Ref{Kind: gram.KRule, Idx: 1}
	g.Rules[0].Prods = []gram.Prod{P(TS(stmt, gram.Plus))}
	pairs := r.Perm(nk * nk)
	for i := 0; i < n; i++ {
		k1, k2 := kw[pairs[i]/nk], kw[pairs[i]%nk]
		var body []gram.Term
		switch r.Intn(6) {
		case 0:
			body = []gram.Term{T(x)}
		case 1:
			body = []gram.Term{T(x), TS(y, gram.Opt)}
		case 2:
			body = []gram.Term{TL(x, sep, false)}
		case 3:
			body = []gram.Term{TS(x, gram.Star), T(y)}
		case 4:
			// a rule of its own
			ri := len(g.Rules)
			self := gram.Ref{Kind: gram.KRule, Idx: ri}
			g.Rules = append(g.Rules, gram.Rule{Name: fmt.Sprintf("in%03d", i), Prods: []gram.Prod{P(T(x)), P(T(y), T(self))}})
			body = []gram.Term{T(self)}
		default:
			body = []gram.Term{T(y), T(x), T(x)}
		}
		terms := append([]gram.Term{T(k1), T(k2)}, body...)
		terms = append(terms, T(end))
		g.Rules[1].Prods = append(g.Rules[1].Prods, P(terms...))
	}
	g.Start = 0
	return g
}

// ErrorNestedGrammar: an @error term followed, inside the same production, by
// a rule that has an error production of its own (or a production with two
// @error terms): two Error values can sit on the parser stack at once, and a
// third error can pop both.
//
//	stmt = K L body R stmt | K L @error R stmt | body S | @error S
func ErrorNestedGrammar(r *rng.R) *gram.Grammar {
	g := &gram.Grammar{}
	n := 8
	for i := 0; i < n; i++ {
		g.Tokens = append(g.Tokens, gram.Token{Name: tokNames[i], Lit: string(rune('a' + i))})
	}
	perm := r.Perm(n)
	tk := func(i int) gram.Term { return gram.Term{Ref: gram.Ref{Kind: gram.KTok, Idx: perm[i]}} }
	rl := func(i int) gram.Term { return gram.Term{Ref: gram.Ref{Kind: gram.KRule, Idx: i}} }
	e := gram.Term{Ref: gram.Ref{Kind: gram.KErr}}
	// rule 0: prog, rule 1: stmt, rule 2: body
	stmt := gram.Rule{Name: "stmt"}
	switch r.Intn(3) {
	case 0:
		stmt.Prods = []gram.Prod{P(tk(0), tk(1), rl(2), tk(2), rl(1)), P(tk(0), tk(1), e, tk(2), rl(1)), P(rl(2), tk(3)), P(e, tk(3))}
	case 1:
		// no opening bracket: the outer error term comes right after the keyword
		stmt.Prods = []gram.Prod{P(tk(0), rl(2), tk(2), rl(1)), P(tk(0), e, tk(2), rl(1)), P(rl(2), tk(3)), P(e, tk(3))}
	default:
		// one production with two error terms
		stmt.Prods = []gram.Prod{P(tk(0), rl(2), tk(2), rl(2), tk(3)), P(tk(0), e, tk(2), e, tk(3)), P(rl(2), tk(3))}
	}
	body := gram.Rule{Name: "body", Prods: []gram.Prod{P(tk(4)), P(tk(5))}}
	if r.Chance(1, 3) {
		body.Prods = append(body.Prods, P(tk(1), rl(2), tk(2)))
	}
	prog := gram.Rule{Name: "prog", Prods: []gram.Prod{P(gram.Term{Ref: gram.Ref{Kind: gram.KRule, Idx: 1}, Sugar: gram.Plus})}}
	if r.Chance(1, 3) {
		prog.Prods = []gram.Prod{P(rl(1))}
	}
	g.Rules = []gram.Rule{prog, stmt, body}
	g.Start = 0
	return g
}
