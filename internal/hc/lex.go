package hc

import (
	"fmt"
	gotoken "go/token"
	"os"
	"runtime/debug"

	"github.com/dcaiafa/loxlex/simplelexer"
)

// LexCfg is the lexer state machine configuration read by internals.go.
type LexCfg struct {
	State int
	Mode  int   // index into _lexerModes of the current table (0 when nil)
	Stack []int // mode indices on the mode stack, bottom first
}

// LexEntry is what a generated package registers for its lexer.
type LexEntry struct {
	New func() (simplelexer.StateMachine, func() LexCfg)
}

// LexJob: kind "lex".
type LexJob struct {
	Inputs [][]byte `json:"inputs"`
	Rec    bool     `json:"rec"`
	MaxTok int      `json:"maxtok,omitempty"`
}

// LexRun is what one input produced.
//
//	Toks: (type, byte offset, byte length) per token returned by the reference
//	driver, up to and including EOF. ERROR tokens have length 0 (the driver
//	does not report the skipped stretch) and ErrCh holds the offending rune.
//	PR (when recorded): flattened (rune, state before, result, state after,
//	mode after, stack depth after) per PushRune call.
type LexRun struct {
	Toks  [][3]int `json:"toks"`
	ErrCh []int    `json:"errch,omitempty"`
	End   string   `json:"end"`
	PR    []int32  `json:"pr,omitempty"`
	NPush int      `json:"npush"`
	// Resets: calls of Reset() by the driver; ResetDirty: how many of them left
	// the machine outside the default mode or with a non-empty mode stack
	// (read through the tap right after the call; -1 when there is no tap).
	Resets     int `json:"resets,omitempty"`
	ResetDirty int `json:"reset_dirty,omitempty"`
	DirtyDepth int `json:"dirty_depth,omitempty"`
}

type LexRes struct {
	Runs []LexRun `json:"runs"`
}

type wrapSM struct {
	inner simplelexer.StateMachine
	tap   func() LexCfg
	rec   bool
	pr    []int32
	calls int
	idle  int
	seen  map[string]int
	yield func()
	resets, resetDirty, dirtyDepth int
}

func (w *wrapSM) PushRune(r rune) int {
	if w.yield != nil {
		w.yield()
	}
	w.calls++
	var before LexCfg
	if w.tap != nil {
		before = w.tap()
		k := fmt.Sprint(r, before.State, before.Mode, before.Stack)
		if w.seen == nil {
			w.seen = map[string]int{}
		}
		w.seen[k]++
		if w.seen[k] > 20 {
			// The driver and the state machine are deterministic: the same
			// rune offered in the same configuration with no input consumed
			// in between repeats forever. (20 repeats rather than 2 so that a
			// machine with a little state the tap does not show is not
			// accused wrongly.)
			panic(stop{"lex-config-repeat"})
		}
	}
	res := w.inner.PushRune(r)
	switch {
	case res == 0:
		w.idle = 0
		w.seen = nil
	case res == -1 && r != -1:
		// the driver skips to the next line: progress
		w.idle = 0
		w.seen = nil
	default:
		w.idle++
		if w.idle > 100000 {
			panic(stop{"lex-runaway"})
		}
	}
	if w.rec {
		var after LexCfg
		if w.tap != nil {
			after = w.tap()
		}
		w.pr = append(w.pr, int32(r), int32(before.State), int32(res), int32(after.State), int32(after.Mode), int32(len(after.Stack)))
	}
	return res
}

func (w *wrapSM) Token() int { return w.inner.Token() }
func (w *wrapSM) Reset() {
	w.inner.Reset()
	w.resets++
	if w.tap != nil {
		if cfg := w.tap(); cfg.Mode != 0 || len(cfg.Stack) != 0 {
			w.resetDirty++
			if len(cfg.Stack) > w.dirtyDepth {
				w.dirtyDepth = len(cfg.Stack)
			}
		}
	}
}

func runLex(e *LexEntry, input []byte, rec bool, maxTok int) (run LexRun) {
	return runLexWith(e, input, rec, maxTok, nil)
}

func runLexWith(e *LexEntry, input []byte, rec bool, maxTok int, yield func()) (run LexRun) {
	if watch.on {
		watch.begin(fmt.Sprintf("%q", input))
		defer watch.end()
	}
	if Trace {
		fmt.Fprintf(os.Stderr, "TRACE %q\n", input)
	}
	sm, tap := e.New()
	w := &wrapSM{inner: sm, tap: tap, rec: rec, yield: yield}
	defer func() {
		if r := recover(); r != nil {
			if s, ok := r.(stop); ok {
				run.End = "stop:" + s.why
			} else {
				run.End = fmt.Sprintf("panic:%v\n%s", r, trimStack(debug.Stack()))
			}
		}
		run.PR = w.pr
		run.NPush = w.calls
		run.Resets, run.ResetDirty, run.DirtyDepth = w.resets, w.resetDirty, w.dirtyDepth
	}()
	fset := gotoken.NewFileSet()
	file := fset.AddFile("input", -1, len(input))
	lex := simplelexer.New(simplelexer.Config{StateMachine: w, File: file, Input: input})
	if maxTok == 0 {
		maxTok = 4*len(input) + 64
	}
	for {
		tok, ty := lex.ReadToken()
		off := -1
		if tok.Pos.IsValid() {
			off = file.Offset(tok.Pos)
		}
		run.Toks = append(run.Toks, [3]int{ty, off, len(tok.Str)})
		if ty == simplelexer.ERROR {
			ch := -2
			if ue, ok := tok.Err.(simplelexer.UnexpectedCharacterError); ok {
				ch = int(ue.Char)
			}
			run.ErrCh = append(run.ErrCh, ch)
		}
		if ty == simplelexer.EOF {
			run.End = "eof"
			return
		}
		if len(run.Toks) > maxTok {
			run.End = "stop:too-many-tokens"
			return
		}
	}
}

func runLexJob(e *LexEntry, j *LexJob) *LexRes {
	res := &LexRes{}
	for _, in := range j.Inputs {
		res.Runs = append(res.Runs, runLex(e, in, j.Rec, j.MaxTok))
	}
	return res
}

// FullJob / FullRes: lexer + parser of one package run together on text
// (used by the concurrency check); the package supplies the implementation.
type FullJob struct {
	Input []byte `json:"input"`
}

type FullRes struct {
	OK    bool   `json:"ok"`
	Trace string `json:"trace"`
	Panic string `json:"panic,omitempty"`
}
