// re.go: hash-consed regular expressions and Brzozowski derivatives.
package rx

import (
	"encoding/binary"
	"fmt"
	"sort"
	"strings"
)

// Kind is the node kind of a canonical expression.
type Kind uint8

const (
	KEmpty Kind = iota // ∅, matches nothing
	KEps               // ε
	KClass             // one code point out of Set
	KCat               // A · B   (A is never a Cat: right-associated)
	KAlt               // Alts[0] | Alts[1] | ...   (len >= 2)
	KStar              // A*
)

// Re is an immutable, hash-consed regular expression. Within one Ctx two
// canonical expressions are structurally equal iff they are the same pointer
// iff they have the same ID. Fields are exported for inspection only; never
// modify them.
type Re struct {
	ID   int
	Kind Kind
	Set  Set   // KClass: never empty
	A, B *Re   // KCat: A·B; KStar: A
	Alts []*Re // KAlt: sorted by ID, strictly increasing, no ∅, no Alt, at most one Class

	nullable bool
	minLen   int // length of the shortest match, -1 for ∅
}

// Ctx owns the hash-cons tables and memo tables. A Ctx is not safe for
// concurrent use. Nodes of different contexts must not be mixed (the
// constructors panic if they are).
//
// Canonical-form invariant (INV), maintained by the smart constructors:
//
//	(1) the only node of kind KEmpty is c.Empty(), and it never occurs as a
//	    proper sub-node of any node;
//	(2) every KClass node has a non-empty Set.
//
// Why (INV) holds: Class(∅-set) returns the ∅ node instead of building a
// class; Cat returns ∅ when either operand is ∅ and otherwise stores two
// non-∅ operands; Alt drops ∅ operands (and returns ∅ if nothing is left);
// Star(∅) returns ε. No other code creates nodes; Deriv, Restrict etc. build
// their results exclusively through these constructors.
//
// Consequence (EMPTINESS): a canonical expression r denotes the empty
// language IFF r is the ∅ node. "⇐" is the definition of ∅. "⇒" by structural
// induction over a node r ≠ ∅, whose sub-nodes are all ≠ ∅ by (1):
//
//	ε        contains the empty word;
//	Class S  S ≠ {} by (2), so it contains a one-letter word;
//	A·B      A, B ≠ ∅, by induction u ∈ L(A), v ∈ L(B), so uv ∈ L(A·B);
//	A1|..|An some Ai ≠ ∅ (all of them, in fact) has a word by induction;
//	A*       contains the empty word.
//
// Hence L(r) ≠ {} for every node other than ∅. Since derivatives are
// canonical expressions too, Deriv(...Deriv(r,w1)...,wn) != ∅ IFF w is a
// prefix of some word of L(r): an exact "still viable" test.
// The same induction shows that minLen/FirstSet can be computed structurally.
type Ctx struct {
	nodes   []*Re
	empty   *Re
	eps     *Re
	classes map[string]*Re
	cats    map[[2]int]*Re
	stars   map[int]*Re
	alts    map[string]*Re

	// bounds is the sorted list of cut points of every class ever created in
	// this context (always contains 0). The half-open intervals between
	// consecutive cut points are the context-wide atoms; they refine the
	// atoms of every expression of the context. Derivatives are memoised on
	// (node ID, Lo of the context-wide atom containing ch).
	bounds []rune
	dmemo  map[uint64]*Re

	first     map[int]Set
	atomsMemo map[int][]Range
}

// NewCtx returns an empty context. Empty() has ID 0, Eps() has ID 1.
func NewCtx() *Ctx {
	c := &Ctx{
		classes:   map[string]*Re{},
		cats:      map[[2]int]*Re{},
		stars:     map[int]*Re{},
		alts:      map[string]*Re{},
		bounds:    []rune{0},
		dmemo:     map[uint64]*Re{},
		first:     map[int]Set{},
		atomsMemo: map[int][]Range{},
	}
	c.empty = c.add(&Re{Kind: KEmpty, minLen: -1})
	c.eps = c.add(&Re{Kind: KEps, nullable: true})
	return c
}

func (c *Ctx) add(r *Re) *Re {
	r.ID = len(c.nodes)
	c.nodes = append(c.nodes, r)
	return r
}

func (c *Ctx) own(r *Re) {
	if r == nil || r.ID < 0 || r.ID >= len(c.nodes) || c.nodes[r.ID] != r {
		panic("rx: expression does not belong to this Ctx")
	}
}

// NumNodes returns the number of distinct nodes created so far.
func (c *Ctx) NumNodes() int { return len(c.nodes) }

// Empty returns ∅.
func (c *Ctx) Empty() *Re { return c.empty }

// Eps returns ε.
func (c *Ctx) Eps() *Re { return c.eps }

// Class matches exactly one code point of s. Class(empty set) == Empty().
// s need not be canonical; it is canonicalised (and copied).
func (c *Ctx) Class(s Set) *Re {
	s = NewSet(s...)
	if s.Empty() {
		return c.empty
	}
	key := s.Key()
	if r, ok := c.classes[key]; ok {
		return r
	}
	r := c.add(&Re{Kind: KClass, Set: s, minLen: 1})
	c.classes[key] = r
	c.addBounds(s)
	return r
}

// addBounds merges the cut points of s into c.bounds.
func (c *Ctx) addBounds(s Set) {
	cuts := make([]rune, 0, 2*len(s))
	for _, r := range s {
		cuts = append(cuts, r.Lo)
		if r.Hi < MaxRune {
			cuts = append(cuts, r.Hi+1)
		}
	}
	// cuts is strictly increasing because s is canonical.
	old := c.bounds
	merged := make([]rune, 0, len(old)+len(cuts))
	i, j := 0, 0
	for i < len(old) || j < len(cuts) {
		var v rune
		switch {
		case j >= len(cuts) || (i < len(old) && old[i] < cuts[j]):
			v = old[i]
			i++
		case i >= len(old) || cuts[j] < old[i]:
			v = cuts[j]
			j++
		default:
			v = old[i]
			i++
			j++
		}
		merged = append(merged, v)
	}
	c.bounds = merged
}

// atomLo returns the Lo of the context-wide atom containing ch (0<=ch<=MaxRune).
func (c *Ctx) atomLo(ch rune) rune {
	b := c.bounds
	// last index with b[i] <= ch; b[0] == 0 so it exists.
	i := sort.Search(len(b), func(i int) bool { return b[i] > ch }) - 1
	return b[i]
}

// Lit is the concatenation of single-code-point classes. Lit(nil) == Eps().
func (c *Ctx) Lit(runes []rune) *Re {
	r := c.eps
	for i := len(runes) - 1; i >= 0; i-- {
		r = c.Cat(c.Class(Set{{runes[i], runes[i]}}), r)
	}
	return r
}

// Cat is concatenation: ∅·x = x·∅ = ∅, ε·x = x·ε = x, right-associated.
func (c *Ctx) Cat(a, b *Re) *Re {
	c.own(a)
	c.own(b)
	return c.cat(a, b)
}

func (c *Ctx) cat(a, b *Re) *Re {
	if a == c.empty || b == c.empty {
		return c.empty
	}
	if a == c.eps {
		return b
	}
	if b == c.eps {
		return a
	}
	if a.Kind == KCat {
		return c.cat(a.A, c.cat(a.B, b))
	}
	key := [2]int{a.ID, b.ID}
	if r, ok := c.cats[key]; ok {
		return r
	}
	r := c.add(&Re{Kind: KCat, A: a, B: b,
		nullable: a.nullable && b.nullable, minLen: a.minLen + b.minLen})
	c.cats[key] = r
	return r
}

// CatN is the concatenation of xs (ε if none).
func (c *Ctx) CatN(xs ...*Re) *Re {
	r := c.eps
	for i := len(xs) - 1; i >= 0; i-- {
		r = c.Cat(xs[i], r)
	}
	return r
}

// Alt is alternation in associative/commutative/idempotent normal form:
// nested alternations are flattened, ∅ is dropped, all single-class
// alternatives are merged into one Class (Class(a)|Class(b) = Class(a∪b)),
// ε is dropped when another alternative is already nullable, the rest is
// sorted by ID and deduplicated. Zero alternatives give ∅, one gives itself.
func (c *Ctx) Alt(a, b *Re) *Re {
	c.own(a)
	c.own(b)
	if a == b || b == c.empty {
		return a
	}
	if a == c.empty {
		return b
	}
	return c.altN([]*Re{a, b})
}

// AltN is the alternation of xs (∅ if none), same normal form as Alt.
func (c *Ctx) AltN(xs ...*Re) *Re {
	for _, x := range xs {
		c.own(x)
	}
	return c.altN(xs)
}

func (c *Ctx) altN(xs []*Re) *Re {
	parts := make([]*Re, 0, len(xs)+2)
	var cls Set
	var oneCls *Re
	ncls := 0
	leaf := func(y *Re) {
		if y.Kind == KClass {
			if ncls == 0 {
				cls = y.Set
			} else {
				cls = cls.Union(y.Set)
			}
			oneCls = y
			ncls++
			return
		}
		parts = append(parts, y)
	}
	for _, x := range xs {
		switch x.Kind {
		case KEmpty:
		case KAlt:
			for _, y := range x.Alts { // members are never ∅ or Alt
				leaf(y)
			}
		default:
			leaf(x)
		}
	}
	if ncls == 1 {
		parts = append(parts, oneCls)
	} else if ncls > 1 {
		parts = append(parts, c.Class(cls))
	}
	if len(parts) <= 16 { // insertion sort: the common case is 2..4 members
		for i := 1; i < len(parts); i++ {
			for j := i; j > 0 && parts[j-1].ID > parts[j].ID; j-- {
				parts[j-1], parts[j] = parts[j], parts[j-1]
			}
		}
	} else {
		sort.Slice(parts, func(i, j int) bool { return parts[i].ID < parts[j].ID })
	}
	// dedupe; drop ε if some other member is nullable.
	otherNullable := false
	for _, p := range parts {
		if p != c.eps && p.nullable {
			otherNullable = true
			break
		}
	}
	out := parts[:0]
	for _, p := range parts {
		if n := len(out); n > 0 && out[n-1] == p {
			continue
		}
		if p == c.eps && otherNullable {
			continue
		}
		out = append(out, p)
	}
	switch len(out) {
	case 0:
		return c.empty
	case 1:
		return out[0]
	}
	kb := make([]byte, 0, len(out)*3)
	for _, p := range out {
		kb = binary.AppendUvarint(kb, uint64(p.ID))
	}
	key := string(kb)
	if r, ok := c.alts[key]; ok {
		return r
	}
	r := &Re{Kind: KAlt, Alts: append([]*Re(nil), out...), minLen: out[0].minLen}
	for _, p := range out {
		if p.nullable {
			r.nullable = true
		}
		if p.minLen < r.minLen {
			r.minLen = p.minLen
		}
	}
	c.add(r)
	c.alts[key] = r
	return r
}

// Star is Kleene closure: (a*)* = a*, ε* = ε, ∅* = ε.
func (c *Ctx) Star(a *Re) *Re {
	c.own(a)
	if a == c.empty || a == c.eps {
		return c.eps
	}
	if a.Kind == KStar {
		return a
	}
	if r, ok := c.stars[a.ID]; ok {
		return r
	}
	r := c.add(&Re{Kind: KStar, A: a, nullable: true, minLen: 0})
	c.stars[a.ID] = r
	return r
}

// Plus is Cat(a, Star(a)).
func (c *Ctx) Plus(a *Re) *Re { return c.Cat(a, c.Star(a)) }

// Opt is Alt(a, Eps()).
func (c *Ctx) Opt(a *Re) *Re { return c.Alt(a, c.eps) }

// Nullable reports whether r matches the empty string.
func (c *Ctx) Nullable(r *Re) bool { return r.nullable }

// IsEmpty reports whether r denotes the empty language. By (EMPTINESS) in the
// Ctx comment this is exactly r == Empty().
func (c *Ctx) IsEmpty(r *Re) bool { return r == c.empty }

// MinLen is the length of the shortest match, -1 for ∅. It is computed
// structurally at construction time, which is exact because no sub-node of a
// non-∅ node is ∅ (see INV).
func (c *Ctx) MinLen(r *Re) int { return r.minLen }

// Deriv is the Brzozowski derivative of r by ch: the canonical expression for
// { w | ch·w ∈ L(r) }. Out-of-range ch gives ∅. Results are memoised on
// (r.ID, context-wide atom of ch); see Ctx.bounds. Entries stay valid when
// later classes refine the partition: an entry keyed by atom start lo was
// computed for an atom that contained every later atom starting at lo.
func (c *Ctx) Deriv(r *Re, ch rune) *Re {
	c.own(r)
	if ch < 0 || ch > MaxRune {
		return c.empty
	}
	return c.deriv(r, ch, c.atomLo(ch), true)
}

// derivNoMemo computes the derivative from the definition without consulting
// or filling the memo table (tests use it to check the atom property).
func (c *Ctx) derivNoMemo(r *Re, ch rune) *Re {
	if ch < 0 || ch > MaxRune {
		return c.empty
	}
	return c.deriv(r, ch, 0, false)
}

func (c *Ctx) deriv(r *Re, ch, lo rune, memo bool) *Re {
	switch r.Kind {
	case KEmpty, KEps:
		return c.empty
	case KClass:
		if r.Set.Contains(ch) {
			return c.eps
		}
		return c.empty
	}
	var key uint64
	if memo {
		key = uint64(r.ID)<<21 | uint64(lo)
		if d, ok := c.dmemo[key]; ok {
			return d
		}
	}
	var d *Re
	switch r.Kind {
	case KCat:
		d = c.cat(c.deriv(r.A, ch, lo, memo), r.B)
		if r.A.nullable {
			d = c.altN([]*Re{d, c.deriv(r.B, ch, lo, memo)})
		}
	case KAlt:
		ds := make([]*Re, len(r.Alts))
		for i, a := range r.Alts {
			ds[i] = c.deriv(a, ch, lo, memo)
		}
		d = c.altN(ds)
	case KStar:
		d = c.cat(c.deriv(r.A, ch, lo, memo), r)
	default:
		panic("rx: bad kind")
	}
	if memo {
		c.dmemo[key] = d
	}
	return d
}

// Matches reports whether r matches exactly s.
func (c *Ctx) Matches(r *Re, s []rune) bool {
	c.own(r)
	for _, ch := range s {
		if r == c.empty {
			return false
		}
		r = c.Deriv(r, ch)
	}
	return r.nullable
}

// Boundaries returns the sorted distinct cut points of rs: code points b such
// that some class occurring anywhere inside rs has a range starting at b or
// ending at b-1. 0 is always included; MaxRune+1 never is. The half-open
// intervals between consecutive cut points (the last ending at MaxRune+1)
// are the atoms of rs: every derivative of every sub-expression of rs (and
// of their derivatives) is the same for all code points of one atom.
func (c *Ctx) Boundaries(rs ...*Re) []rune {
	seen := map[int]bool{}
	cut := map[rune]bool{0: true}
	var walk func(r *Re)
	walk = func(r *Re) {
		if seen[r.ID] {
			return
		}
		seen[r.ID] = true
		switch r.Kind {
		case KClass:
			for _, g := range r.Set {
				cut[g.Lo] = true
				if g.Hi < MaxRune {
					cut[g.Hi+1] = true
				}
			}
		case KCat:
			walk(r.A)
			walk(r.B)
		case KStar:
			walk(r.A)
		case KAlt:
			for _, a := range r.Alts {
				walk(a)
			}
		}
	}
	for _, r := range rs {
		c.own(r)
		walk(r)
	}
	out := make([]rune, 0, len(cut))
	for b := range cut {
		out = append(out, b)
	}
	sort.Slice(out, func(i, j int) bool { return out[i] < out[j] })
	return out
}

// Atoms returns the atoms of rs (see Boundaries) as closed ranges, sorted,
// covering exactly 0..MaxRune.
func (c *Ctx) Atoms(rs ...*Re) []Range {
	b := c.Boundaries(rs...)
	out := make([]Range, len(b))
	for i := range b {
		hi := rune(MaxRune)
		if i+1 < len(b) {
			hi = b[i+1] - 1
		}
		out[i] = Range{b[i], hi}
	}
	return out
}

// FirstSet returns the set of code points ch with Deriv(r, ch) != ∅.
// Computed structurally (exact by INV) and memoised per node.
func (c *Ctx) FirstSet(r *Re) Set {
	c.own(r)
	return c.firstSet(r)
}

func (c *Ctx) firstSet(r *Re) Set {
	switch r.Kind {
	case KEmpty, KEps:
		return nil
	case KClass:
		return r.Set
	}
	if s, ok := c.first[r.ID]; ok {
		return s
	}
	var s Set
	switch r.Kind {
	case KCat:
		// r.B != ∅, so Cat(Deriv(A), B) != ∅ iff Deriv(A) != ∅.
		s = c.firstSet(r.A)
		if r.A.nullable {
			s = s.Union(c.firstSet(r.B))
		}
	case KAlt:
		for _, a := range r.Alts {
			s = s.Union(c.firstSet(a))
		}
	case KStar:
		s = c.firstSet(r.A)
	}
	c.first[r.ID] = s
	return s
}

// Restrict returns the canonical expression for L(r) ∩ allowed*: every class
// is intersected with allowed and the expression is rebuilt with the smart
// constructors. Typical use: removing surrogates before sampling.
func (c *Ctx) Restrict(r *Re, allowed Set) *Re {
	c.own(r)
	allowed = NewSet(allowed...)
	memo := map[int]*Re{}
	var walk func(r *Re) *Re
	walk = func(r *Re) *Re {
		switch r.Kind {
		case KEmpty, KEps:
			return r
		case KClass:
			return c.Class(r.Set.Intersect(allowed))
		}
		if x, ok := memo[r.ID]; ok {
			return x
		}
		var x *Re
		switch r.Kind {
		case KCat:
			x = c.cat(walk(r.A), walk(r.B))
		case KStar:
			x = c.Star(walk(r.A))
		case KAlt:
			xs := make([]*Re, len(r.Alts))
			for i, a := range r.Alts {
				xs[i] = walk(a)
			}
			x = c.altN(xs)
		}
		memo[r.ID] = x
		return x
	}
	return walk(r)
}

func (c *Ctx) atomsFor(r *Re) []Range {
	if a, ok := c.atomsMemo[r.ID]; ok {
		return a
	}
	a := c.Atoms(r)
	c.atomsMemo[r.ID] = a
	return a
}

// Sample returns a random string matched by r of length <= maxLen, or
// (nil, false) if there is none (r is ∅ or MinLen(r) > maxLen). next(n) must
// return a uniform integer in [0, n) from the caller's deterministic PRNG; the
// result is a deterministic function of r, maxLen and the values returned by
// next.
//
// The string is produced by walking derivatives. At each step the candidate
// atoms of r are those whose derivative d is not ∅ and still completable
// within the remaining budget (MinLen(d) <= remaining-1). Candidates are
// grouped by derivative; a group, then an atom of the group, are chosen
// uniformly, so that a class made of many atoms does not crowd out the other
// continuations. Inside an atom of more than two code points the end points
// are chosen with probability 1/2 (1/4 each), otherwise a uniform code point
// of the atom. When the current state is nullable the walk stops with
// probability 1/4 (always, if no candidate is left).
//
// Sample may return any code point, surrogates included; use Restrict first
// to exclude some.
func (c *Ctx) Sample(r *Re, next func(n int) int, maxLen int) ([]rune, bool) {
	c.own(r)
	if r.minLen < 0 || r.minLen > maxLen {
		return nil, false
	}
	atoms := c.atomsFor(r)
	out := []rune{}
	cur := r
	type group struct {
		d     *Re
		atoms []Range
	}
	for {
		rem := maxLen - len(out)
		var groups []group
		if rem > 0 {
			idx := map[*Re]int{}
			for _, fr := range c.firstSet(cur) {
				// Classes of derivatives of r are unions of classes of r, so
				// fr is a union of consecutive atoms of r.
				i := sort.Search(len(atoms), func(i int) bool { return atoms[i].Lo >= fr.Lo })
				for ; i < len(atoms) && atoms[i].Hi <= fr.Hi; i++ {
					d := c.Deriv(cur, atoms[i].Lo)
					if d.minLen < 0 || d.minLen > rem-1 {
						continue
					}
					g, ok := idx[d]
					if !ok {
						g = len(groups)
						idx[d] = g
						groups = append(groups, group{d: d})
					}
					groups[g].atoms = append(groups[g].atoms, atoms[i])
				}
			}
		}
		if cur.nullable && (len(groups) == 0 || next(4) == 0) {
			return out, true
		}
		if len(groups) == 0 {
			// Unreachable: cur is not nullable and MinLen(cur) <= rem, so the
			// first letter of a shortest word of cur is a candidate.
			panic("rx: Sample: no continuation")
		}
		g := groups[next(len(groups))]
		a := g.atoms[next(len(g.atoms))]
		out = append(out, pickRune(a, next))
		cur = g.d
	}
}

func pickRune(a Range, next func(n int) int) rune {
	size := int(a.Hi) - int(a.Lo) + 1
	switch {
	case size == 1:
		return a.Lo
	case size == 2:
		return a.Lo + rune(next(2))
	}
	switch next(4) {
	case 0:
		return a.Lo
	case 1:
		return a.Hi
	}
	return a.Lo + rune(next(size))
}

// String renders r for debugging: ∅, ε, classes as [..] with \u{X} escapes
// ('.' for the full set), juxtaposition, '|' and '*'.
func (c *Ctx) String(r *Re) string {
	var sb strings.Builder
	c.str(&sb, r, 0)
	return sb.String()
}

// prec: 0 = alternation context, 1 = concatenation context, 2 = operand of *.
func (c *Ctx) str(sb *strings.Builder, r *Re, prec int) {
	switch r.Kind {
	case KEmpty:
		sb.WriteString("∅")
	case KEps:
		sb.WriteString("ε")
	case KClass:
		writeClass(sb, r.Set)
	case KCat:
		if prec > 1 {
			sb.WriteByte('(')
		}
		for x := r; ; x = x.B {
			if x.Kind != KCat {
				c.str(sb, x, 1)
				break
			}
			c.str(sb, x.A, 1)
		}
		if prec > 1 {
			sb.WriteByte(')')
		}
	case KAlt:
		if prec > 0 {
			sb.WriteByte('(')
		}
		for i, a := range r.Alts {
			if i > 0 {
				sb.WriteByte('|')
			}
			c.str(sb, a, 0)
		}
		if prec > 0 {
			sb.WriteByte(')')
		}
	case KStar:
		c.str(sb, r.A, 2)
		sb.WriteByte('*')
	}
}

func writeClass(sb *strings.Builder, s Set) {
	if s.Equal(Any()) {
		sb.WriteByte('.')
		return
	}
	one := func(r rune) {
		switch {
		case r == ']' || r == '\\' || r == '-' || r == '^' || r == '[':
			sb.WriteByte('\\')
			sb.WriteRune(r)
		case r > 0x20 && r < 0x7F:
			sb.WriteRune(r)
		default:
			fmt.Fprintf(sb, "\\u{%X}", r)
		}
	}
	sb.WriteByte('[')
	for _, g := range s {
		one(g.Lo)
		if g.Hi != g.Lo {
			if g.Hi != g.Lo+1 {
				sb.WriteByte('-')
			}
			one(g.Hi)
		}
	}
	sb.WriteByte(']')
}
