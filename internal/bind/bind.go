// Package bind builds "binding plans" for the action-binding property (C06):
// a grammar, a Go type per rule from a palette (named struct pointers, named
// and unnamed int / slice / map / func types, an interface with several
// implementers, generic instantiations, imported std types, any), and per
// production the parameter types of its action method, chosen among the
// types the term's value type is assignable to. Every value carries the id of
// the hc.Node it stands for, so that the recorded action log has the same
// shape as in C03 and can be checked by the same oracle.
package bind

import (
	"fmt"
	"sort"
	"strings"

	"verif/internal/gram"
	"verif/internal/rng"
)

// Carrier is a Go type that can carry a node.
type Carrier struct {
	Type   string // Go type expression
	Wrap   string // expression building a value from `n` (*hc.Node)
	Import string
}

// Carriers is the palette of rule types.
var Carriers = []Carrier{
	{"*NodeA", "&NodeA{N: n}", ""},
	{"*NodeB", "&NodeB{N: n}", ""},
	{"TagInt", "TagInt(idOf(n))", ""},
	{"TagInt2", "TagInt2(idOf(n))", ""}, // a second named type with the same underlying type: not assignable to or from TagInt
	{"[]int", "[]int{idOf(n)}", ""},
	{"TagList", "TagList{idOf(n)}", ""},
	{"map[string]int", "map[string]int{\"id\": idOf(n)}", ""},
	{"TagMap", "TagMap{\"id\": idOf(n)}", ""},
	{"func() int", "func() int { return idOf(n) }", ""},
	{"TagFunc", "TagFunc(func() int { return idOf(n) })", ""},
	{"Box[int]", "Box[int]{V: idOf(n)}", ""},
	{"*Box[string]", "&Box[string]{V: strconv.Itoa(idOf(n))}", "strconv"},
	{"*big.Int", "big.NewInt(int64(idOf(n)))", "math/big"},
	{"time.Duration", "time.Duration(idOf(n))", "time"},
	{"Tagged", "tagged(n)", ""},
	{"any", "anyOf(n)", ""},
	// aliases declared in another package whose right-hand sides cannot be
	// spelled here (an unnamed struct with unexported fields, a pointer to an
	// unexported type)
	{"hc.Span", "hc.MkSpan(idOf(n))", ""},
	{"hc.Handle", "hc.MkHandle(idOf(n))", ""},
}

// Wider lists, for a value type, the other types it is assignable to (decided
// by the Go compiler through a probe, see Probe; this table is only the list
// of candidates the generator tries).
var Wider = map[string][]string{
	"*NodeA":         {"any", "Tagged"},
	"*NodeB":         {"any", "Tagged"},
	"TagInt":         {"any", "Tagged"},
	"TagInt2":        {"any", "Tagged"},
	"[]int":          {"any", "TagList"},
	"TagList":        {"any", "[]int"},
	"map[string]int": {"any", "TagMap"},
	"TagMap":         {"any", "map[string]int"},
	"func() int":     {"any", "TagFunc"},
	"TagFunc":        {"any", "func() int"},
	"Box[int]":       {"any"},
	"*Box[string]":   {"any"},
	"*big.Int":       {"any", "fmt.Stringer"},
	"time.Duration":  {"any", "fmt.Stringer"},
	"Tagged":         {"any"},
	"any":            {},
	"hc.Span":        {"any"},
	"hc.Handle":      {"any"},
	"Token":          {"any", "Discarder"},
	"Error":          {"any"},
}

// AllTypes is every type name that can occur as a value or parameter type.
func AllTypes() []string {
	seen := map[string]bool{}
	var out []string
	add := func(t string) {
		if !seen[t] {
			seen[t] = true
			out = append(out, t)
		}
	}
	for _, c := range Carriers {
		add(c.Type)
	}
	for t, ws := range Wider {
		add(t)
		for _, w := range ws {
			add(w)
		}
	}
	sort.Strings(out)
	return out
}

// Prelude is the Go code shared by every C06 harness.
const Prelude = `
type Token = hc.Token

type NodeA struct{ N *hc.Node }
type NodeB struct{ N *hc.Node }
type TagInt int
type TagInt2 int
type TagList []int
type TagMap map[string]int
type TagFunc func() int
type Box[T any] struct{ V T }

type Tagged interface{ Tag() int }
type Discarder interface{ Discard() bool }

func (a *NodeA) Tag() int { return idOf(a.N) }
func (b *NodeB) Tag() int { return idOf(b.N) }
func (t TagInt) Tag() int { return int(t) }
func (t TagInt2) Tag() int { return int(t) }

func idOf(n *hc.Node) int {
	if n == nil {
		return 0
	}
	return n.ID
}

// tagged returns an implementer of Tagged chosen by the node id, so that an
// interface-typed rule carries several dynamic types.
func tagged(n *hc.Node) Tagged {
	switch idOf(n) % 3 {
	case 0:
		return &NodeA{N: n}
	case 1:
		return &NodeB{N: n}
	}
	return TagInt(idOf(n))
}

func anyOf(n *hc.Node) any {
	switch idOf(n) % 4 {
	case 0:
		return &NodeA{N: n}
	case 1:
		return []int{idOf(n)}
	case 2:
		return Box[int]{V: idOf(n)}
	}
	return TagInt(idOf(n))
}

// nodeOf decodes any carrier value back into the node it stands for (nil for
// zero values): this is how a substituted zero value becomes visible.
func nodeOf(h *hc.H, v any) any {
	switch x := v.(type) {
	case nil:
		return (*hc.Node)(nil)
	case Token:
		return x
	case Error:
		return hc.Err{Tok: x.Token, Exp: x.Expected}
	case *hc.Node:
		return x
	case *NodeA:
		if x == nil {
			return (*hc.Node)(nil)
		}
		return x.N
	case *NodeB:
		if x == nil {
			return (*hc.Node)(nil)
		}
		return x.N
	case TagInt:
		return h.NodeByID(int(x))
	case TagInt2:
		return h.NodeByID(int(x))
	case []int:
		if len(x) != 1 {
			return (*hc.Node)(nil)
		}
		return h.NodeByID(x[0])
	case TagList:
		if len(x) != 1 {
			return (*hc.Node)(nil)
		}
		return h.NodeByID(x[0])
	case map[string]int:
		return h.NodeByID(x["id"])
	case TagMap:
		return h.NodeByID(x["id"])
	case func() int:
		if x == nil {
			return (*hc.Node)(nil)
		}
		return h.NodeByID(x())
	case TagFunc:
		if x == nil {
			return (*hc.Node)(nil)
		}
		return h.NodeByID(x())
	case Box[int]:
		return h.NodeByID(x.V)
	case *Box[string]:
		if x == nil {
			return (*hc.Node)(nil)
		}
		id, _ := strconv.Atoi(x.V)
		return h.NodeByID(id)
	case *big.Int:
		if x == nil {
			return (*hc.Node)(nil)
		}
		return h.NodeByID(int(x.Int64()))
	case time.Duration:
		return h.NodeByID(int(x))
	case hc.Span:
		return h.NodeByID(hc.SpanID(x))
	case hc.Handle:
		return h.NodeByID(hc.HandleID(x))
	}
	// lists of carriers (sugar terms)
	rv := reflect.ValueOf(v)
	if rv.Kind() == reflect.Slice {
		if rv.Type().Elem() == reflect.TypeOf(Token{}) {
			out := make([]Token, rv.Len())
			for i := range out {
				out[i] = rv.Index(i).Interface().(Token)
			}
			return out
		}
		out := make([]*hc.Node, rv.Len())
		for i := range out {
			n, _ := nodeOf(h, rv.Index(i).Interface()).(*hc.Node)
			out[i] = n
		}
		return out
	}
	return (*hc.Node)(nil)
}

var _ = fmt.Sprint
var _ = sort.Ints
`

// Method is one action method of the plan.
type Method struct {
	Name    string
	Rule    int
	Params  []string // Go parameter types
	Result  string   // Go result type(s): usually the rule's carrier type
	Prods   []int    // productions (indices within the rule) it is meant to serve
	ID      int      // id passed to H.Act (global number of its first production)
	Results int      // number of results (1 normally)
	// Variadic: the last parameter, an unnamed slice type []X, is written
	// "...X" (the same parameter type as far as binding is concerned; the
	// generated call has to spread the slice).
	Variadic bool
}

// Plan is a binding plan.
type Plan struct {
	G        *gram.Grammar
	RuleType []Carrier
	Methods  []Method
	Fault    string // "" for a well-formed plan
	// FaultWhere names what a diagnostic must mention: method names and/or
	// "rule:<name>" (a line inside that rule's declaration).
	FaultWhere []string
	ListTypes  map[string]string // named list types declared: name -> element type
	O          *Oracle
}

// ValueType is the Go type of the value a term produces.
func (p *Plan) ValueType(t gram.Term) string {
	base := ""
	switch t.Ref.Kind {
	case gram.KTok:
		base = "Token"
	case gram.KRule:
		base = p.RuleType[t.Ref.Idx].Type
	case gram.KErr:
		base = "Error"
	}
	switch t.Sugar {
	case gram.None, gram.Opt:
		return base
	}
	return "[]" + base
}

// NewPlan draws a well-formed plan for g: rule types from the palette,
// parameter types widened at random. assignable(vt, pt) is the compiler's
// verdict (from Probe).
func NewPlan(r *rng.R, g *gram.Grammar, o *Oracle) *Plan {
	p := &Plan{G: g, ListTypes: map[string]string{}, O: o}
	assignable := p.Assignable
	for range g.Rules {
		p.RuleType = append(p.RuleType, Carriers[r.Intn(len(Carriers))])
	}
	if len(g.Rules) >= 2 && r.Chance(1, 4) {
		// twin named types: two rules carry distinct named types with the
		// same underlying type
		pm := r.Perm(len(g.Rules))
		for _, c := range Carriers {
			if c.Type == "TagInt" {
				p.RuleType[pm[0]] = c
			}
			if c.Type == "TagInt2" {
				p.RuleType[pm[1]] = c
			}
		}
	}
	for attempt := 0; attempt < 30; attempt++ {
		p.Methods = nil
		id := 0
		widen := 40 - attempt*2 // percent of parameters that get a wider type
		for ri, rule := range g.Rules {
			type sigM struct {
				sig string
				mi  int
			}
			var bySig []sigM
			for pi, prod := range rule.Prods {
				params := make([]string, len(prod.Terms))
				for i, t := range prod.Terms {
					vt := p.ValueType(t)
					params[i] = vt
					if r.Intn(100) < widen {
						var cands []string
						if strings.HasPrefix(vt, "[]") && t.Sugar != gram.None && t.Sugar != gram.Opt {
							cands = []string{"any"}
							ln := "ListOf" + fmt.Sprint(len(p.ListTypes))
							if r.Chance(1, 2) {
								p.ListTypes[ln] = strings.TrimPrefix(vt, "[]")
								cands = append(cands, ln)
							}
						} else {
							cands = Wider[vt]
						}
						if len(cands) > 0 {
							c := cands[r.Intn(len(cands))]
							if assignable(vt, c) {
								params[i] = c
							}
						}
					}
				}
				sig := strings.Join(params, ",")
				found := -1
				for _, s := range bySig {
					if s.sig == sig {
						found = s.mi
					}
				}
				if found >= 0 {
					p.Methods[found].Prods = append(p.Methods[found].Prods, pi)
				} else {
					bySig = append(bySig, sigM{sig, len(p.Methods)})
					suffix := []string{"p%d", "alt%d", "x_%d", "%d"}[r.Intn(4)]
					name := fmt.Sprintf("on_%s__"+suffix, rule.Name, pi)
					if pi == 0 && r.Chance(1, 2) {
						name = "on_" + rule.Name
					}
					variadic := len(params) > 0 && strings.HasPrefix(params[len(params)-1], "[]") && r.Chance(1, 3)
					p.Methods = append(p.Methods, Method{Name: name, Rule: ri, Params: params, Result: p.RuleType[ri].Type, Prods: []int{pi}, ID: id, Results: 1, Variadic: variadic})
				}
				id++
			}
		}
		if p.Verdict() == "" {
			return p
		}
	}
	return nil
}

// Assignable is the Go compiler's verdict on "a value of type vt can be
// passed as a parameter of type pt".
func (p *Plan) Assignable(vt, pt string) bool {
	if pt == "any" {
		return true
	}
	if el, ok := p.ListTypes[pt]; ok {
		// type ListOfN []el: an unnamed []el is assignable to it, nothing else here is
		return vt == "[]"+el
	}
	if _, ok := p.ListTypes[vt]; ok {
		return false
	}
	return p.O.Assignable(vt, pt)
}

// Verdict applies the documented binding rule to the plan and returns "" if
// lox must succeed, or a description of why it must fail.
func (p *Plan) Verdict() string {
	g := p.G
	assignable := p.Assignable
	used := map[int]bool{}
	ruleNames := map[string]int{}
	for i, r := range g.Rules {
		ruleNames[r.Name] = i
	}
	byRule := map[int][]int{}
	for mi, m := range p.Methods {
		rn := strings.TrimPrefix(m.Name, "on_")
		if i := strings.Index(rn, "__"); i >= 0 {
			rn = rn[:i]
		}
		ri, ok := ruleNames[rn]
		if !ok {
			return "method " + m.Name + " names no rule"
		}
		if m.Results != 1 {
			return "method " + m.Name + " does not return a single value"
		}
		byRule[ri] = append(byRule[ri], mi)
	}
	for ri := range g.Rules {
		ms := byRule[ri]
		if len(ms) == 0 {
			return "rule " + g.Rules[ri].Name + " has no action method"
		}
		for _, mi := range ms[1:] {
			if p.Methods[mi].Result != p.Methods[ms[0]].Result {
				return "methods of rule " + g.Rules[ri].Name + " return different types"
			}
		}
	}
	for ri, rule := range g.Rules {
		for pi, prod := range rule.Prods {
			n := 0
			for _, mi := range byRule[ri] {
				m := p.Methods[mi]
				if len(m.Params) != len(prod.Terms) {
					continue
				}
				ok := true
				for i, t := range prod.Terms {
					if !assignable(p.valueTypeWith(t, byRule), m.Params[i]) {
						ok = false
					}
				}
				if ok {
					n++
					used[mi] = true
				}
			}
			if n == 0 {
				return fmt.Sprintf("production %d of rule %s has no matching method", pi, rule.Name)
			}
			if n > 1 {
				return fmt.Sprintf("production %d of rule %s matches %d methods", pi, rule.Name, n)
			}
		}
	}
	for mi, m := range p.Methods {
		if !used[mi] {
			return "method " + m.Name + " matches no production"
		}
	}
	return ""
}

// valueTypeWith is ValueType with the rule types taken from the methods'
// result types (which is what lox does).
func (p *Plan) valueTypeWith(t gram.Term, byRule map[int][]int) string {
	if t.Ref.Kind != gram.KRule {
		return p.ValueType(t)
	}
	base := p.Methods[byRule[t.Ref.Idx][0]].Result
	switch t.Sugar {
	case gram.None, gram.Opt:
		return base
	}
	return "[]" + base
}

// ClashName returns the name of an imported package that appears in a rule
// type of the plan ("big" or "time"), or "".
func (p *Plan) ClashName() string {
	for _, c := range p.RuleType {
		switch c.Type {
		case "*big.Int":
			return "big"
		case "time.Duration":
			return "time"
		}
	}
	return ""
}

// HarnessClash renders the harness for a user package that is itself called
// like one of the packages it imports (pkg = "big" or "time"): the import is
// renamed locally, and generated code must still qualify the imported types.
func (p *Plan) HarnessClash(bounds bool, pkg string) string {
	src := p.Harness(bounds)
	switch pkg {
	case "big":
		src = strings.Replace(src, "\t\"math/big\"\n", "\tmbig \"math/big\"\n", 1)
		src = strings.ReplaceAll(src, "big.Int", "mbig.Int")
		src = strings.ReplaceAll(src, "big.NewInt", "mbig.NewInt")
		src = strings.ReplaceAll(src, "mmbig.", "mbig.")
	case "time":
		src = strings.Replace(src, "\t\"time\"\n", "\tmtime \"time\"\n", 1)
		src = strings.ReplaceAll(src, "time.Duration", "mtime.Duration")
		src = strings.ReplaceAll(src, "mmtime.", "mtime.")
	}
	return src
}

// Harness renders harness.go for the plan.
func (p *Plan) Harness(bounds bool) string {
	var sb strings.Builder
	sb.WriteString("package PKGNAME\n\nimport (\n\t\"fmt\"\n\t\"math/big\"\n\t\"reflect\"\n\t\"sort\"\n\t\"strconv\"\n\t\"time\"\n\n\t\"batch/hc\"\n)\n")
	sb.WriteString(Prelude)
	var lts []string
	for n := range p.ListTypes {
		lts = append(lts, n)
	}
	sort.Strings(lts)
	for _, n := range lts {
		fmt.Fprintf(&sb, "type %s []%s\n", n, p.ListTypes[n])
	}
	sb.WriteString("\ntype P struct {\n\tlox\n\tH *hc.H\n}\n\n")
	for _, m := range p.Methods {
		params := make([]string, len(m.Params))
		args := make([]string, len(m.Params))
		for i, pt := range m.Params {
			params[i] = fmt.Sprintf("a%d %s", i, pt)
			if m.Variadic && i == len(m.Params)-1 && strings.HasPrefix(pt, "[]") {
				params[i] = fmt.Sprintf("a%d ...%s", i, strings.TrimPrefix(pt, "[]"))
			}
			args[i] = fmt.Sprintf("nodeOf(p.H, a%d)", i)
		}
		call := fmt.Sprintf("p.H.Act(%d", m.ID)
		if len(args) > 0 {
			call += ", " + strings.Join(args, ", ")
		}
		call += ")"
		wrap := "any(nil)"
		for _, c := range Carriers {
			if c.Type == m.Result {
				wrap = c.Wrap
			}
		}
		switch m.Results {
		case 1:
			fmt.Fprintf(&sb, "func (p *P) %s(%s) %s {\n\tn := %s\n\t_ = n\n\treturn %s\n}\n\n", m.Name, strings.Join(params, ", "), m.Result, call, wrap)
		case 0:
			fmt.Fprintf(&sb, "func (p *P) %s(%s) {\n\t_ = %s\n}\n\n", m.Name, strings.Join(params, ", "), call)
		default:
			fmt.Fprintf(&sb, "func (p *P) %s(%s) (%s, error) {\n\tn := %s\n\t_ = n\n\treturn %s, nil\n}\n\n", m.Name, strings.Join(params, ", "), m.Result, call, wrap)
		}
	}
	if bounds {
		sb.WriteString("func (p *P) _onBounds(r any, b, e Token) { p.H.Bounds(nodeOf(p.H, r), b, e) }\n\n")
	}
	names := []string{"EOF", "ERROR"}
	for _, t := range p.G.Tokens {
		names = append(names, t.Name)
	}
	sort.Strings(names)
	sb.WriteString("var Entry = &hc.Entry{\n\tConsts: map[string]int{")
	for i, n := range names {
		if i > 0 {
			sb.WriteString(", ")
		}
		fmt.Fprintf(&sb, "%q: %s", n, n)
	}
	sb.WriteString("},\n\tTokStr: _TokenToString,\n\tParse: func(h *hc.H) bool {\n\t\tp := &P{H: h}\n\t\th.Tap = tap(p)\n\t\treturn p.parse(h)\n\t},\n}\n")
	return sb.String()
}

