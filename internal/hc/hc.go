// Package hc is the run-time half of the verification harness. Its source is
// copied verbatim into every scratch batch module (import path "batch/hc") and
// linked next to the packages that lox generated; it records what the real
// generated code does (action calls, bounds calls, tokens read, PushRune
// results) and prints it as JSON lines for the offline checkers in the parent
// process. It decides nothing.
package hc

import (
	"bufio"
	"encoding/json"
	"fmt"
	"os"
	"runtime/debug"
	"strings"
	"sync"
	"syscall"
	"time"
)

// ---------------------------------------------------------------------------
// Values flowing through a generated parser
// ---------------------------------------------------------------------------

// Token is the token type of the parser-only harness. Seq is the 1-based
// position in the scripted input (0 = the zero Token); D is what Discard()
// answers (used by `x*!`).
type Token struct {
	Type int
	Seq  int
	D    bool
}

func (t Token) Discard() bool { return t.D }

// Node is what every action returns.
type Node struct {
	ID    int
	M     int   // method id
	First Token // first real token below this node (Seq 0 if it derives nothing)
}

func (n *Node) Discard() bool { return n != nil && n.First.D }

// Err mirrors the generated Error type.
type Err struct {
	Tok Token
	Exp []int
}

// Arg describes one value seen by an action or by _onBounds.
//
//	K = "t" token (V = Seq), "n" node (V = ID), "z" zero value, "e" Error
//	(V = Seq of the token it carries, X = expected), "l" list (L).
type Arg struct {
	K string `json:"k"`
	V int    `json:"v,omitempty"`
	L []Arg  `json:"l,omitempty"`
	X []int  `json:"x,omitempty"`
	T int    `json:"t,omitempty"` // token type for "t" and "e"
}

// Event is one observation. Kind "a" = action call, "b" = _onBounds call,
// "r" = ReadToken call.
type Event struct {
	K    string  `json:"k"`
	M    int     `json:"m,omitempty"`    // method id (a)
	Args []Arg   `json:"args,omitempty"` // (a)
	Ret  int     `json:"ret,omitempty"`  // node id created (a)
	R    *Arg    `json:"r,omitempty"`    // (b)
	B    int     `json:"b,omitempty"`    // begin token seq (b)
	E    int     `json:"e,omitempty"`    // end token seq (b)
	N    int     `json:"n,omitempty"`    // read number (r)
	Top  int32   `json:"top,omitempty"`  // stack top state (r, a) when taps are on
	Dep  int     `json:"dep,omitempty"`  // stack depth
	La   int     `json:"la,omitempty"`
	St   []int32 `json:"st,omitempty"`
}

// Config is the parser configuration read by internals.go.
type Config struct {
	States []int32
	La     int
	Qla    int
	Errs   []int // token seqs of the Error symbols currently on the stack, bottom first
}

type stop struct{ why string }

// H is the per-parse recorder.
type H struct {
	Rec    bool
	Events []Event
	NErr   int
	Reads  int
	Acts   int
	First  *Err // first Error delivered to an action
	ErrSeqs []int // token seq of every Error delivered, in delivery order
	Pending []int // token seqs of the Error symbols on the parser stack when the first Error was delivered
	LastID int
	Tap    func() Config
	Yield  func() // injected scheduling point (concurrency check)

	toks      []Token
	pos       int
	sinceRead int
	seen      map[string]int

	All    []*Node       // every node created, All[id-1]

	States map[int32]int // stack-top states seen at taps
	Meths  map[int]int   // methods called
}

func NewH(toks []Token, rec bool) *H {
	return &H{toks: toks, Rec: rec, States: map[int32]int{}, Meths: map[int]int{}}
}

// ReadToken implements the generated _Lexer interface.
func (h *H) ReadToken() (Token, int) {
	if h.Yield != nil {
		h.Yield()
	}
	h.Reads++
	if h.Reads > len(h.toks)+1000 {
		panic(stop{"runaway-reads"})
	}
	h.sinceRead = 0
	h.seen = nil
	var t Token
	if h.pos < len(h.toks) {
		t = h.toks[h.pos]
		h.pos++
	} else {
		t = Token{Type: 0, Seq: len(h.toks) + 1}
	}
	if h.Tap != nil {
		c := h.Tap()
		if n := len(c.States); n > 0 {
			h.States[c.States[n-1]]++
		}
		if h.Rec {
			ev := Event{K: "r", N: h.Reads, Dep: len(c.States), La: t.Type}
			if n := len(c.States); n > 0 {
				ev.Top = c.States[n-1]
			}
			h.Events = append(h.Events, ev)
		}
	} else if h.Rec {
		h.Events = append(h.Events, Event{K: "r", N: h.Reads, La: t.Type})
	}
	return t, t.Type
}

func firstTok(a any) Token {
	switch v := a.(type) {
	case Token:
		return v
	case *Node:
		if v != nil {
			return v.First
		}
	case Err:
		return v.Tok
	case []Token:
		for _, t := range v {
			if t.Seq != 0 {
				return t
			}
		}
	case []*Node:
		for _, n := range v {
			if n != nil && n.First.Seq != 0 {
				return n.First
			}
		}
	case []any:
		for _, x := range v {
			if t := firstTok(x); t.Seq != 0 {
				return t
			}
		}
	}
	return Token{}
}

func Describe(a any) Arg {
	switch v := a.(type) {
	case Token:
		if v.Seq == 0 {
			return Arg{K: "z"}
		}
		return Arg{K: "t", V: v.Seq, T: v.Type}
	case *Node:
		if v == nil {
			return Arg{K: "z"}
		}
		return Arg{K: "n", V: v.ID}
	case Err:
		if v.Tok.Seq == 0 && v.Exp == nil {
			return Arg{K: "z"}
		}
		return Arg{K: "e", V: v.Tok.Seq, T: v.Tok.Type, X: v.Exp}
	case []Token:
		l := make([]Arg, len(v))
		for i, t := range v {
			l[i] = Describe(t)
		}
		return Arg{K: "l", L: l}
	case []*Node:
		l := make([]Arg, len(v))
		for i, n := range v {
			l[i] = Describe(n)
		}
		return Arg{K: "l", L: l}
	case []any:
		l := make([]Arg, len(v))
		for i, n := range v {
			l[i] = Describe(n)
		}
		return Arg{K: "l", L: l}
	case []Err:
		l := make([]Arg, len(v))
		for i, n := range v {
			l[i] = Describe(n)
		}
		return Arg{K: "l", L: l}
	case nil:
		return Arg{K: "z"}
	}
	return Arg{K: "?", V: 0}
}

// Act is called by every on_<rule> method.
func (h *H) Act(m int, args ...any) *Node {
	if h.Yield != nil {
		h.Yield()
	}
	h.Acts++
	h.LastID++
	n := &Node{ID: h.LastID, M: m}
	h.All = append(h.All, n)
	for _, a := range args {
		if t := firstTok(a); t.Seq != 0 {
			n.First = t
			break
		}
	}
	var errArgs []any
	for _, a := range args {
		// an Error can also arrive inside the list of an @error*, @error+ term
		if l, ok := a.([]Err); ok {
			for _, e := range l {
				errArgs = append(errArgs, e)
			}
		} else {
			errArgs = append(errArgs, a)
		}
	}
	for _, a := range errArgs {
		if e, ok := a.(Err); ok && (e.Tok.Seq != 0 || e.Exp != nil) {
			h.NErr++
			h.ErrSeqs = append(h.ErrSeqs, e.Tok.Seq)
			if h.First == nil {
				c := e
				h.First = &c
				if h.Tap != nil {
					h.Pending = append([]int{}, h.Tap().Errs...)
				}
			}
		}
	}
	h.Meths[m]++
	h.sinceRead++
	var cfg Config
	if h.Tap != nil && (h.Rec || h.sinceRead > 12) {
		cfg = h.Tap()
		if n := len(cfg.States); n > 0 {
			h.States[cfg.States[n-1]]++
		}
	}
	if h.Tap != nil && h.sinceRead > 12 {
		// The parser is a deterministic function of (stack states, lookahead,
		// queued lookahead, lexer position). Seeing the same configuration at
		// the same action twice without a token having been read in between
		// proves that it will never stop.
		var sb strings.Builder
		fmt.Fprintf(&sb, "%d|%d|%d|%d|", m, cfg.La, cfg.Qla, h.pos)
		for _, s := range cfg.States {
			fmt.Fprintf(&sb, "%d,", s)
		}
		k := sb.String()
		if h.seen == nil {
			h.seen = map[string]int{}
		}
		h.seen[k]++
		if h.seen[k] > 4 {
			// (more than 4 times, not twice: the parser may hold a little
			// state the tap does not show)
			panic(stop{"config-repeat"})
		}
	} else if h.Tap == nil && h.sinceRead > 100000 {
		panic(stop{"runaway-actions"})
	}
	if h.Rec {
		ev := Event{K: "a", M: m, Ret: n.ID}
		ev.Args = make([]Arg, len(args))
		for i, a := range args {
			ev.Args[i] = Describe(a)
		}
		if h.Tap != nil {
			ev.Dep = len(cfg.States)
			if k := len(cfg.States); k > 0 {
				ev.Top = cfg.States[k-1]
			}
			ev.La = cfg.La
		}
		h.Events = append(h.Events, ev)
	}
	return n
}

// NodeByID returns the node with the given id (nil for 0 or unknown ids).
func (h *H) NodeByID(id int) *Node {
	if id <= 0 || id > len(h.All) {
		return nil
	}
	return h.All[id-1]
}

// Bounds is called by _onBounds.
func (h *H) Bounds(r any, b, e Token) {
	if h.Rec {
		a := Describe(r)
		h.Events = append(h.Events, Event{K: "b", R: &a, B: b.Seq, E: e.Seq})
	}
}

// ---------------------------------------------------------------------------
// Registry and job loop
// ---------------------------------------------------------------------------

// Entry is what each generated package registers.
type Entry struct {
	Consts map[string]int
	TokStr func(int) string
	Parse  func(h *H) bool
	Lex    *LexEntry
	Full   func(f *FullJob) *FullRes
	Extra  func(kind string, raw json.RawMessage) any
}

type Job struct {
	ID   int             `json:"id"`
	Pkg  string          `json:"pkg"`
	Kind string          `json:"kind"`
	Raw  json.RawMessage `json:"raw,omitempty"`
}

// ParseJob: kind "parse". Toks are (type, discard) pairs.
type ParseJob struct {
	Toks [][2]int `json:"toks"`
	Rec  bool     `json:"rec"`
}

type ParseRes struct {
	OK      bool          `json:"ok"`
	NErr    int           `json:"nerr"`
	Reads   int           `json:"reads"`
	Acts    int           `json:"acts"`
	Stop    string        `json:"stop,omitempty"`
	Panic   string        `json:"panic,omitempty"`
	ErrSeq  int           `json:"errseq,omitempty"` // seq of the token in the first Error delivered
	ErrExp  []int         `json:"errexp,omitempty"`
	ErrSeqs []int         `json:"errseqs,omitempty"` // token seq of every Error delivered, in order
	Pending []int         `json:"pending,omitempty"` // Error symbols on the stack (token seqs) when the first Error was delivered
	Root    int           `json:"root,omitempty"`
	Events  []Event       `json:"ev,omitempty"`
	States  map[int32]int `json:"states,omitempty"`
	Methods map[int]int   `json:"meths,omitempty"`
}

// EnumJob: kind "enum": every string over Alpha (token types) of length <=
// MaxLen in trie (DFS pre-order) order; kind "many": the listed strings.
type EnumJob struct {
	Alpha  []int   `json:"alpha,omitempty"`
	MaxLen int     `json:"maxlen,omitempty"`
	Many   [][]int `json:"many,omitempty"`
	DMod   int     `json:"dmod,omitempty"` // token i (1-based) has D = (DMod>0 && (i+type)%DMod==0)
}

// EnumRes: one compact verdict per string, in order. Verdict = letter
// followed, when Errors were delivered, by the comma-separated seqs of the
// tokens they carry, in delivery order, then "|" and the seqs carried by the
// Error symbols that were on the parser stack when the first one was delivered:
//
//	A accepted, no Error delivered      E accepted, Error(s) delivered
//	R parse()==false, no Error          F parse()==false, Error(s) delivered
//	P panic                             L proven non-termination / runaway
type EnumRes struct {
	V       []string      `json:"v"`
	States  map[int32]int `json:"states,omitempty"`
	Methods map[int]int   `json:"meths,omitempty"`
	Detail  []string      `json:"detail,omitempty"` // panic / stop messages (first few)
}

// Trace makes every parse / lex run announce its input on stderr before it
// starts (used when a job is re-run alone to name the input that hangs).
var Trace = os.Getenv("HC_TRACE") != ""

func runParse(e *Entry, toks []Token, rec bool) (res ParseRes) {
	if watch.on {
		ts := make([]int, len(toks))
		for i, t := range toks {
			ts[i] = t.Type
		}
		watch.begin(fmt.Sprint(ts))
		defer watch.end()
	}
	if Trace {
		ts := make([]int, len(toks))
		for i, t := range toks {
			ts[i] = t.Type
		}
		fmt.Fprintf(os.Stderr, "TRACE %v\n", ts)
	}
	h := NewH(toks, rec)
	defer func() {
		if r := recover(); r != nil {
			if s, ok := r.(stop); ok {
				res.Stop = s.why
			} else {
				res.Panic = fmt.Sprintf("%v\n%s", r, trimStack(debug.Stack()))
			}
		}
		res.NErr, res.Reads, res.Acts = h.NErr, h.Reads, h.Acts
		if h.First != nil {
			res.ErrSeq = h.First.Tok.Seq
			res.ErrExp = h.First.Exp
			res.ErrSeqs = h.ErrSeqs
			res.Pending = h.Pending
		}
		res.Root = h.LastID
		res.Events = h.Events
		res.States = h.States
		res.Methods = h.Meths
	}()
	res.OK = e.Parse(h)
	return
}

func trimStack(b []byte) string {
	s := string(b)
	if len(s) > 1500 {
		s = s[:1500]
	}
	return s
}

func verdict(r *ParseRes) string {
	switch {
	case r.Panic != "":
		return "P"
	case r.Stop != "":
		return "L"
	}
	c := "R"
	switch {
	case r.OK && r.NErr == 0:
		return "A"
	case r.OK:
		c = "E"
	case r.NErr > 0:
		c = "F"
	default:
		return "R"
	}
	s := fmt.Sprintf("%s%d", c, r.ErrSeq)
	for _, q := range r.ErrSeqs[1:] {
		s += fmt.Sprintf(",%d", q)
	}
	if len(r.Pending) > 0 {
		s += "|"
		for i, q := range r.Pending {
			if i > 0 {
				s += ","
			}
			s += fmt.Sprint(q)
		}
	}
	return s
}

func mkToks(types []int, dmod int) []Token {
	toks := make([]Token, len(types))
	for i, ty := range types {
		toks[i] = Token{Type: ty, Seq: i + 1, D: dmod > 0 && (i+1+ty)%dmod == 0}
	}
	return toks
}

func runEnum(e *Entry, j *EnumJob) *EnumRes {
	res := &EnumRes{States: map[int32]int{}, Methods: map[int]int{}}
	one := func(types []int) {
		r := runParse(e, mkToks(types, j.DMod), false)
		res.V = append(res.V, verdict(&r))
		for k, v := range r.States {
			res.States[k] += v
		}
		for k, v := range r.Methods {
			res.Methods[k] += v
		}
		if (r.Panic != "" || r.Stop != "") && len(res.Detail) < 3 {
			res.Detail = append(res.Detail, fmt.Sprintf("%v: %s%s", types, r.Stop, r.Panic))
		}
	}
	if j.Many != nil {
		for _, w := range j.Many {
			one(w)
		}
		return res
	}
	var cur []int
	var visit func()
	visit = func() {
		one(cur)
		if len(cur) == j.MaxLen {
			return
		}
		for _, a := range j.Alpha {
			cur = append(cur, a)
			visit()
			cur = cur[:len(cur)-1]
		}
	}
	visit()
	return res
}

type Result struct {
	ID    int    `json:"id"`
	Error string `json:"error,omitempty"`
	Res   any    `json:"res,omitempty"`
}

// ---------------------------------------------------------------------------
// CPU-budget watchdog. A generated parser or state machine can spin in a loop
// that makes no call the monitors could observe. A goroutine therefore watches
// the CPU time (not the wall-clock time) the process has consumed since the
// current parse / lex run began; when it exceeds the budget (default 5 s, a
// million times the normal cost) it reports the job as "cpu-budget" together
// with the input and exits, and the parent restarts the remaining jobs.
// ---------------------------------------------------------------------------

type watchdog struct {
	on     bool
	mu     sync.Mutex
	active bool
	epoch  int
	cpu0   time.Duration
	input  string
	jobID  int
	budget time.Duration
}

var watch watchdog

func cpuTime() time.Duration {
	var ru syscall.Rusage
	if err := syscall.Getrusage(syscall.RUSAGE_SELF, &ru); err != nil {
		return 0
	}
	return time.Duration(ru.Utime.Nano() + ru.Stime.Nano())
}

func (w *watchdog) begin(input string) {
	w.mu.Lock()
	w.active = true
	w.epoch++
	w.cpu0 = cpuTime()
	w.input = input
	w.mu.Unlock()
}

func (w *watchdog) end() {
	w.mu.Lock()
	w.active = false
	w.mu.Unlock()
}

func (w *watchdog) start() {
	w.on = true
	w.budget = 5 * time.Second
	if v := os.Getenv("HC_CPU_BUDGET_MS"); v != "" {
		var ms int
		fmt.Sscan(v, &ms)
		if ms > 0 {
			w.budget = time.Duration(ms) * time.Millisecond
		}
	}
	go func() {
		for {
			time.Sleep(100 * time.Millisecond)
			w.mu.Lock()
			if w.active && cpuTime()-w.cpu0 > w.budget {
				msg, _ := json.Marshal(Result{ID: w.jobID, Error: "cpu-budget input=" + w.input})
				os.Stdout.Write(append(msg, '\n'))
				os.Exit(3)
			}
			w.mu.Unlock()
		}
	}()
}

// Main is the job loop of a batch binary: JSON jobs on stdin, for every job a
// "start" line (flushed before the job runs, so a crash or kill names its job)
// and a result line on stdout.
func Main(reg map[string]*Entry) {
	in := bufio.NewReaderSize(os.Stdin, 1<<20)
	out := bufio.NewWriterSize(os.Stdout, 1<<20)
	defer out.Flush()
	dec := json.NewDecoder(in)
	enc := json.NewEncoder(out)
	if os.Getenv("HC_NO_WATCHDOG") == "" {
		watch.start()
	}
	for {
		var j Job
		if err := dec.Decode(&j); err != nil {
			return
		}
		watch.mu.Lock()
		watch.jobID = j.ID
		watch.mu.Unlock()
		fmt.Fprintf(out, "{\"start\":%d}\n", j.ID)
		out.Flush()
		res := Result{ID: j.ID}
		e := reg[j.Pkg]
		if j.Kind == "conc" {
			var cj ConcJob
			if err := json.Unmarshal(j.Raw, &cj); err != nil {
				res.Error = err.Error()
			} else {
				res.Res = runConc(reg, &cj)
			}
		} else if e == nil {
			res.Error = "unknown package " + j.Pkg
		} else {
			res.Res, res.Error = dispatch(e, &j)
		}
		if err := enc.Encode(&res); err != nil {
			fmt.Fprintf(out, "{\"id\":%d,\"error\":%q}\n", j.ID, err.Error())
		}
		out.Flush()
	}
}

func dispatch(e *Entry, j *Job) (res any, errStr string) {
	defer func() {
		if r := recover(); r != nil {
			errStr = fmt.Sprintf("harness panic: %v\n%s", r, trimStack(debug.Stack()))
		}
	}()
	switch j.Kind {
	case "consts":
		safe := func(v int) (s string) {
			defer func() {
				if r := recover(); r != nil {
					s = fmt.Sprintf("PANIC(%v)", r)
				}
			}()
			return e.TokStr(v)
		}
		names := map[string]string{}
		for n, v := range e.Consts {
			names[n] = safe(v)
		}
		probe := map[string]string{}
		for _, v := range []int{-2, -1, len(e.Consts), len(e.Consts) + 1, len(e.Consts) + 100, 1 << 30, -1 << 31} {
			probe[fmt.Sprint(v)] = safe(v)
		}
		return map[string]any{"consts": e.Consts, "names": names, "probe": probe}, ""
	case "parse":
		var pj ParseJob
		if err := json.Unmarshal(j.Raw, &pj); err != nil {
			return nil, err.Error()
		}
		toks := make([]Token, len(pj.Toks))
		for i, t := range pj.Toks {
			toks[i] = Token{Type: t[0], Seq: i + 1, D: t[1] != 0}
		}
		r := runParse(e, toks, pj.Rec)
		return &r, ""
	case "enum":
		var ej EnumJob
		if err := json.Unmarshal(j.Raw, &ej); err != nil {
			return nil, err.Error()
		}
		return runEnum(e, &ej), ""
	case "lex":
		var lj LexJob
		if err := json.Unmarshal(j.Raw, &lj); err != nil {
			return nil, err.Error()
		}
		if e.Lex == nil {
			return nil, "package has no lexer entry"
		}
		return runLexJob(e.Lex, &lj), ""
	case "full":
		var fj FullJob
		if err := json.Unmarshal(j.Raw, &fj); err != nil {
			return nil, err.Error()
		}
		if e.Full == nil {
			return nil, "package has no full entry"
		}
		return e.Full(&fj), ""
	default:
		if e.Extra != nil {
			return e.Extra(j.Kind, j.Raw), ""
		}
	}
	return nil, "unknown job kind " + j.Kind
}
