package main

import (
	"bytes"
	"crypto/sha256"
	"fmt"
	"sync"

	"verif/internal/hc"
	"verif/internal/lexspec"
	"verif/internal/oracle/lexref"
	"verif/internal/oracle/rx"
	"verif/internal/rng"
	"verif/internal/run"
	"verif/internal/specgen"
)

// LCase is one generated lexer specification. It embeds PCase only for the
// package plumbing (files, package, replay).
type LCase struct {
	PCase
	Spec  *lexspec.Spec
	Alpha specgen.Alphabet
	Ctx   *rx.Ctx
	Ref   *lexref.Lexer
	Wide  bool
	Res   []*rx.Re // all rule expressions (for input generation)
}

func newLCase(s *lexspec.Spec, a specgen.Alphabet, origin string, wide bool) *LCase {
	lc := &LCase{Spec: s, Alpha: a, Wide: wide}
	lc.Origin = origin
	lc.Ctx = rx.NewCtx()
	lc.Ref = s.Compile(lc.Ctx)
	for _, m := range lc.Ref.Modes {
		for _, r := range m.Rules {
			lc.Res = append(lc.Res, r.Re)
		}
	}
	lc.Files, lc.Intern, lc.Stub = s.Files()
	lc.Lox = lc.Files["l.lox"]
	return lc
}

type lexDrawer struct {
	mu   sync.Mutex
	seen map[[32]byte]bool
	drawn, rejected int
}

func newLexDrawer() *lexDrawer { return &lexDrawer{seen: map[[32]byte]bool{}} }

// draw keeps drawing until accept(lc) holds and the text is new.
func (d *lexDrawer) draw(r *rng.R, o specgen.LexOpts, origin string, accept func(*LCase) bool) *LCase {
	for try := 0; try < 2000; try++ {
		s, a := specgen.RandomLexer(r, o)
		d.mu.Lock()
		d.drawn++
		d.mu.Unlock()
		lc := newLCase(s, a, origin, o.Wide)
		if accept != nil && !accept(lc) {
			d.mu.Lock()
			d.rejected++
			d.mu.Unlock()
			continue
		}
		k := sha256.Sum256([]byte(lc.Lox))
		d.mu.Lock()
		dup := d.seen[k]
		d.seen[k] = true
		d.mu.Unlock()
		if dup {
			continue
		}
		return lc
	}
	return nil
}

// noNullableRule: no rule of any mode matches the empty string and no rule
// is the empty language.
func noNullableRule(lc *LCase) bool {
	for _, m := range lc.Ref.Modes {
		for _, r := range m.Rules {
			if lc.Ctx.Nullable(r.Re) || lc.Ctx.IsEmpty(r.Re) {
				return false
			}
		}
	}
	return true
}

func genLexBatch(c *Ctx, cases []*LCase, fast bool) (*run.Batch, error) {
	pcs := make([]*PCase, len(cases))
	for i, lc := range cases {
		pcs[i] = &lc.PCase
	}
	return genBatch(c, pcs, fast, false)
}

func crossCheckFastLex(c *Ctx, cases []*LCase) bool {
	pcs := make([]*PCase, len(cases))
	for i, lc := range cases {
		pcs[i] = &lc.PCase
	}
	return crossCheckFast(c, pcs)
}

// compareTokens compares the observed token stream with the reference, up to
// and including the first ERROR (or EOF). Returns "" or a description.
func compareTokens(ref *lexref.Result, obs *hc.LexRun) string {
	for i, w := range ref.Toks {
		if i >= len(obs.Toks) {
			return fmt.Sprintf("token %d missing: expected %s, lexer stopped (%s)", i, showRefTok(w), obs.End)
		}
		g := obs.Toks[i]
		if w.Type == 1 {
			if g[0] != 1 || g[1] != w.Off {
				return fmt.Sprintf("token %d: expected %s, observed %s", i, showRefTok(w), showObsTok(g))
			}
			return ""
		}
		if g[0] != w.Type || g[1] != w.Off || (w.Type != 0 && g[2] != w.Len) {
			return fmt.Sprintf("token %d: expected %s, observed %s", i, showRefTok(w), showObsTok(g))
		}
	}
	return ""
}

func showRefTok(t lexref.Token) string {
	switch t.Type {
	case 0:
		return fmt.Sprintf("EOF@%d", t.Off)
	case 1:
		return fmt.Sprintf("ERROR@%d(char %d)", t.Off, t.ErrCh)
	}
	return fmt.Sprintf("type%d@%d+%d", t.Type, t.Off, t.Len)
}

func showObsTok(t [3]int) string {
	switch t[0] {
	case 0:
		return fmt.Sprintf("EOF@%d", t[1])
	case 1:
		return fmt.Sprintf("ERROR@%d", t[1])
	}
	return fmt.Sprintf("type%d@%d+%d", t[0], t[1], t[2])
}

func showObsToks(ts [][3]int, max int) []string {
	var out []string
	for i, t := range ts {
		if i >= max {
			out = append(out, "...")
			break
		}
		out = append(out, showObsTok(t))
	}
	return out
}

func showRefToks(ts []lexref.Token) []string {
	var out []string
	for _, t := range ts {
		out = append(out, showRefTok(t))
	}
	return out
}

// exhaustiveInputs lists every string over the alphabet up to maxLen (as
// UTF-8), capped.
func exhaustiveInputs(a specgen.Alphabet, maxLen, cap int) [][]byte {
	var out [][]byte
	var cur []byte
	var rec func(d int)
	rec = func(d int) {
		if len(out) >= cap {
			return
		}
		out = append(out, append([]byte(nil), cur...))
		if d == maxLen {
			return
		}
		for _, ch := range a {
			n := len(cur)
			cur = append(cur, []byte(string(ch))...)
			rec(d + 1)
			cur = cur[:n]
		}
	}
	rec(0)
	return out
}

func dedupInputs(in [][]byte) [][]byte {
	seen := map[string]bool{}
	var out [][]byte
	for _, b := range in {
		if !seen[string(b)] {
			seen[string(b)] = true
			out = append(out, b)
		}
	}
	return out
}

var _ = bytes.Equal
