// Package lalr is a reference LALR(1) table builder meant to be used as a
// test oracle for a parser generator.
//
// It follows the textbook construction (Aho, Lam, Sethi, Ullman, "Compilers",
// 2nd ed., section 4.7) literally:
//
//  1. build the canonical collection of sets of LR(1) items (Algorithm 4.53,
//     functions CLOSURE / GOTO / items of Figure 4.40);
//  2. merge the sets that have identical cores, taking the union of the
//     lookaheads (Algorithm 4.59, the "easy but space-consuming" construction).
//
// No clever algorithm (DeRemer-Pennello, lookahead propagation, ...) is used:
// the point of the package is to be obviously correct and independent of the
// implementation under test. The only concessions to speed are the data
// representation: LR(0) items are small integers and a lookahead set is one
// uint64 bitset, so a set of LR(1) items is a map item -> bitset. This is why
// the number of terminals is limited to 64.
//
// Conflicts are never resolved: every (state, terminal) cell lists all the
// candidate actions, and it is up to the caller to decide what to do with
// them.
package lalr

import (
	"errors"
	"fmt"
	"math/bits"
	"sort"
)

// Prod is a production LHS -> RHS.
//
// Symbols are ints: terminals are 0..NumT-1 (terminal 0 is the end-of-input
// marker EOF and never appears in a RHS); nonterminal n (0..NumN-1) is encoded
// as NumT+n. LHS is a plain nonterminal index (not encoded). An empty RHS is
// an epsilon production.
type Prod struct {
	LHS int
	RHS []int
}

// Grammar is a context-free grammar. Start is a nonterminal index.
type Grammar struct {
	NumT, NumN int
	Start      int
	Prods      []Prod
}

// Item is an LR(0) item. Prod == -1 denotes the augmented production
// S' -> Start.
type Item struct{ Prod, Dot int }

// Cell holds all the candidate actions of one (state, terminal) pair BEFORE
// any conflict resolution.
type Cell struct {
	// Shift is the target state, or -1 if there is no shift.
	Shift int
	// ShiftProds are the sorted distinct production indices p that have an
	// item [p: alpha . t beta] in the state (the productions "wanting" the
	// shift). Empty iff Shift < 0.
	ShiftProds []int
	// Reduces are the sorted distinct production indices reducible on this
	// terminal.
	Reduces []int
	// Accept is set for [S' -> Start .] with lookahead EOF.
	Accept bool
}

// Count is the number of distinct candidate actions of the cell.
func (c Cell) Count() int {
	n := len(c.Reduces)
	if c.Shift >= 0 {
		n++
	}
	if c.Accept {
		n++
	}
	return n
}

// State is one state of the automaton.
type State struct {
	// Kernel is the sorted list of kernel items (sorted by Prod, then Dot; the
	// augmented production sorts first). In a table made by Build the kernel
	// (= core) identifies the state. In a table made by BuildCanonical the
	// state is identified by Kernel together with KernelLA.
	Kernel []Item
	// KernelLA[i] is the sorted list of lookahead terminals of Kernel[i].
	// (Extra field, not needed to drive a parser; handy for cross-checking.)
	KernelLA [][]int
	// Cells maps a terminal to its cell; only terminals with at least one
	// candidate action are present.
	Cells map[int]*Cell
	// Goto maps a nonterminal index to the target state.
	Goto map[int]int
}

// Table is an LALR(1) (or canonical LR(1), see BuildCanonical) parsing table.
// States[0] is the start state. States are numbered in BFS order from the
// start state, outgoing symbols being explored in increasing encoded-symbol
// order.
type Table struct {
	G      Grammar // the grammar as given (slices are shared, not copied)
	States []State
	// LR1States is the size of the canonical LR(1) collection (before merging).
	LR1States int
}

// ErrStateLimit is wrapped by the error returned when the canonical LR(1)
// collection grows beyond the given limit.
var ErrStateLimit = errors.New("lalr: canonical LR(1) state limit exceeded")

// MaxT is the largest supported number of terminals (lookahead sets are
// uint64 bitsets).
const MaxT = 64

// ---------------------------------------------------------------------------
// Grammar validation, NULLABLE and FIRST.

func validate(g *Grammar) error {
	if g.NumT < 1 {
		return fmt.Errorf("lalr: NumT = %d, need at least the EOF terminal", g.NumT)
	}
	if g.NumT > MaxT {
		return fmt.Errorf("lalr: NumT = %d, at most %d terminals supported", g.NumT, MaxT)
	}
	if g.NumN < 1 {
		return fmt.Errorf("lalr: NumN = %d, need at least one nonterminal", g.NumN)
	}
	if g.Start < 0 || g.Start >= g.NumN {
		return fmt.Errorf("lalr: start nonterminal %d out of range [0,%d)", g.Start, g.NumN)
	}
	for i, p := range g.Prods {
		if p.LHS < 0 || p.LHS >= g.NumN {
			return fmt.Errorf("lalr: production %d: LHS %d out of range [0,%d)", i, p.LHS, g.NumN)
		}
		for j, s := range p.RHS {
			if s == 0 {
				return fmt.Errorf("lalr: production %d: RHS[%d] is the EOF terminal", i, j)
			}
			if s < 0 || s >= g.NumT+g.NumN {
				return fmt.Errorf("lalr: production %d: RHS[%d] = %d out of range (0,%d)", i, j, s, g.NumT+g.NumN)
			}
		}
	}
	return nil
}

// sets holds NULLABLE and FIRST of every nonterminal.
type sets struct {
	numT     int
	nullable []bool
	first    []uint64
}

// ofString is FIRST of a symbol string, and whether the string derives epsilon.
func (s *sets) ofString(syms []int) (uint64, bool) {
	var acc uint64
	for _, x := range syms {
		if x < s.numT {
			return acc | 1<<uint(x), false
		}
		acc |= s.first[x-s.numT]
		if !s.nullable[x-s.numT] {
			return acc, false
		}
	}
	return acc, true
}

// computeSets is the textbook fixpoint: apply the FIRST rules to every
// production until nothing changes.
func computeSets(g *Grammar) *sets {
	s := &sets{numT: g.NumT, nullable: make([]bool, g.NumN), first: make([]uint64, g.NumN)}
	for changed := true; changed; {
		changed = false
		for _, p := range g.Prods {
			f, n := s.ofString(p.RHS)
			if f&^s.first[p.LHS] != 0 {
				s.first[p.LHS] |= f
				changed = true
			}
			if n && !s.nullable[p.LHS] {
				s.nullable[p.LHS] = true
				changed = true
			}
		}
	}
	return s
}

func bitsToSlice(b uint64) []int {
	out := make([]int, 0, bits.OnesCount64(b))
	for b != 0 {
		out = append(out, bits.TrailingZeros64(b))
		b &= b - 1
	}
	return out
}

// First is the textbook FIRST of a string of encoded symbols: the sorted list
// of terminals that can begin a string derived from syms, and whether syms
// derives epsilon. The EOF terminal (0) is accepted in syms (so that
// FIRST(beta a) can be asked for a = EOF). First panics if the grammar or a
// symbol is invalid.
func First(g Grammar, syms []int) (terms []int, nullable bool) {
	if err := validate(&g); err != nil {
		panic(err)
	}
	for _, x := range syms {
		if x < 0 || x >= g.NumT+g.NumN {
			panic(fmt.Sprintf("lalr: First: symbol %d out of range", x))
		}
	}
	f, n := computeSets(&g).ofString(syms)
	return bitsToSlice(f), n
}

// ---------------------------------------------------------------------------
// Integer-encoded LR(0) items.
//
// Internally production 0 is the augmented production S' -> Start and
// production i+1 is g.Prods[i]. Item ids are assigned production by
// production, dot position by dot position, so that sorting item ids sorts by
// (Prod, Dot).

type builder struct {
	g    *Grammar
	numT int
	rhs  [][]int // internal production -> RHS

	itemBase []int // internal production -> id of its item with dot 0
	itemProd []int // item -> internal production
	itemDot  []int // item -> dot position
	itemNext []int // item -> symbol after the dot, -1 if none

	// For an item [A -> alpha . B beta] with B a nonterminal: FIRST(beta) and
	// whether beta is nullable.
	betaFirst []uint64
	betaNull  []bool

	initial [][]int // nonterminal -> ids of the items [B -> . gamma]

	// Scratch space of closure, indexed by item id.
	queued []bool
	cur    []uint64
	list   []int
	work   []int
}

func newBuilder(g *Grammar) (*builder, error) {
	if err := validate(g); err != nil {
		return nil, err
	}
	b := &builder{g: g, numT: g.NumT}
	b.rhs = make([][]int, 0, len(g.Prods)+1)
	b.rhs = append(b.rhs, []int{g.NumT + g.Start})
	for _, p := range g.Prods {
		b.rhs = append(b.rhs, p.RHS)
	}
	fs := computeSets(g)
	b.initial = make([][]int, g.NumN)
	for p, rhs := range b.rhs {
		b.itemBase = append(b.itemBase, len(b.itemProd))
		if p > 0 {
			lhs := g.Prods[p-1].LHS
			b.initial[lhs] = append(b.initial[lhs], len(b.itemProd))
		}
		for dot := 0; dot <= len(rhs); dot++ {
			next := -1
			var bf uint64
			bn := false
			if dot < len(rhs) {
				next = rhs[dot]
				if next >= g.NumT {
					bf, bn = fs.ofString(rhs[dot+1:])
				}
			}
			b.itemProd = append(b.itemProd, p)
			b.itemDot = append(b.itemDot, dot)
			b.itemNext = append(b.itemNext, next)
			b.betaFirst = append(b.betaFirst, bf)
			b.betaNull = append(b.betaNull, bn)
		}
	}
	n := len(b.itemProd)
	b.queued = make([]bool, n)
	b.cur = make([]uint64, n)
	return b, nil
}

// closure is CLOSURE(I) of Figure 4.40 for the set of LR(1) items given by
// kernel/la (kernel[i] has lookahead set la[i]):
//
//	repeat
//	    for each item [A -> alpha . B beta, a] in I
//	        for each production B -> gamma
//	            for each terminal b in FIRST(beta a)
//	                add [B -> . gamma, b] to I
//	until no more items are added
//
// Items with the same LR(0) part are kept together with a set of lookaheads,
// so "for each b in FIRST(beta a)" over all a of the item is
// FIRST(beta) U (lookaheads of the item, if beta is nullable). The result is
// sorted by item id.
func (b *builder) closure(kernel []int, la []uint64) (items []int, las []uint64) {
	b.list = b.list[:0]
	b.work = b.work[:0]
	add := func(it int, l uint64) {
		// Invariant: an item is in the set iff its lookahead set is not
		// empty (an LR(1) item without lookahead does not exist; l == 0
		// happens when FIRST(beta a) is empty, i.e. beta is unproductive).
		if l&^b.cur[it] == 0 {
			return // nothing new
		}
		if b.cur[it] == 0 {
			b.list = append(b.list, it)
		}
		b.cur[it] |= l
		if !b.queued[it] {
			b.queued[it] = true
			b.work = append(b.work, it)
		}
	}
	for i, it := range kernel {
		add(it, la[i])
	}
	for len(b.work) > 0 {
		it := b.work[len(b.work)-1]
		b.work = b.work[:len(b.work)-1]
		b.queued[it] = false
		x := b.itemNext[it]
		if x < b.numT { // no symbol (-1) or a terminal after the dot
			continue
		}
		l := b.betaFirst[it]
		if b.betaNull[it] {
			l |= b.cur[it]
		}
		for _, init := range b.initial[x-b.numT] {
			add(init, l)
		}
	}
	items = append([]int(nil), b.list...)
	sort.Ints(items)
	las = make([]uint64, len(items))
	for i, it := range items {
		las[i] = b.cur[it]
	}
	for _, it := range b.list { // reset the scratch space
		b.cur[it] = 0
	}
	return items, las
}

type edge struct{ sym, to int }

// set is a set of LR(1) items together with its outgoing transitions.
type set struct {
	kernel   []int    // sorted kernel item ids
	kernelLA []uint64 // lookaheads of the kernel items
	items    []int    // sorted item ids of the closure
	las      []uint64 // lookaheads of items
	trans    []edge   // sorted by symbol
}

func appendKey(key []byte, item int, la uint64, withLA bool) []byte {
	key = append(key, byte(item), byte(item>>8), byte(item>>16), byte(item>>24))
	if withLA {
		for s := uint(0); s < 64; s += 8 {
			key = append(key, byte(la>>s))
		}
	}
	return key
}

// canonical builds the canonical collection of sets of LR(1) items
// (procedure items of Figure 4.40), breadth first. A set is identified by its
// kernel items with their lookaheads (the closure is a function of those).
func (b *builder) canonical(limit int) ([]set, error) {
	index := map[string]int{}
	var c []set
	var key []byte
	intern := func(kernel []int, la []uint64) (int, error) {
		key = key[:0]
		for i, it := range kernel {
			key = appendKey(key, it, la[i], true)
		}
		if id, ok := index[string(key)]; ok {
			return id, nil
		}
		if limit > 0 && len(c) >= limit {
			return 0, fmt.Errorf("%w (limit %d)", ErrStateLimit, limit)
		}
		id := len(c)
		index[string(key)] = id
		items, las := b.closure(kernel, la)
		c = append(c, set{kernel: kernel, kernelLA: la, items: items, las: las})
		return id, nil
	}
	// The initial set is CLOSURE({[S' -> . S, $]}).
	if _, err := intern([]int{0}, []uint64{1}); err != nil {
		return nil, err
	}
	var syms []int
	for i := 0; i < len(c); i++ {
		items, las := c[i].items, c[i].las
		syms = syms[:0]
		for _, it := range items {
			if x := b.itemNext[it]; x >= 0 {
				syms = append(syms, x)
			}
		}
		sort.Ints(syms)
		for k, x := range syms {
			if k > 0 && syms[k-1] == x {
				continue
			}
			// GOTO(I, X): advance the dot over X in every item that has X
			// after the dot. items is sorted, hence so is the new kernel.
			var kernel []int
			var la []uint64
			for j, it := range items {
				if b.itemNext[it] == x {
					kernel = append(kernel, it+1)
					la = append(la, las[j])
				}
			}
			to, err := intern(kernel, la)
			if err != nil {
				return nil, err
			}
			c[i].trans = append(c[i].trans, edge{x, to})
		}
	}
	return c, nil
}

func equalInts(a, b []int) bool {
	if len(a) != len(b) {
		return false
	}
	for i := range a {
		if a[i] != b[i] {
			return false
		}
	}
	return true
}

// mergeCores replaces all the sets having the same core by their union
// (Algorithm 4.59, step 3). Merged sets are numbered by the first appearance
// of their core in the canonical collection. Since sets with equal cores have
// the same successors' cores, and the first set with a given core is explored
// before the later ones, this is again the BFS numbering of the merged
// automaton (the test suite checks this).
func mergeCores(c []set) []set {
	index := map[string]int{}
	to := make([]int, len(c)) // canonical set -> merged set
	var m []set
	var key []byte
	for i := range c {
		s := &c[i]
		key = key[:0]
		for _, it := range s.kernel {
			key = appendKey(key, it, 0, false)
		}
		id, ok := index[string(key)]
		if !ok {
			id = len(m)
			index[string(key)] = id
			m = append(m, set{
				kernel:   s.kernel,
				kernelLA: append([]uint64(nil), s.kernelLA...),
				items:    s.items,
				las:      append([]uint64(nil), s.las...),
			})
		} else {
			// The LR(0) part of a closure depends on the core only.
			if !equalInts(m[id].items, s.items) {
				panic("lalr: internal error: equal cores with different closures")
			}
			for j, l := range s.kernelLA {
				m[id].kernelLA[j] |= l
			}
			for j, l := range s.las {
				m[id].las[j] |= l
			}
		}
		to[i] = id
	}
	// GOTO of a merged set: GOTO on equal cores yields equal cores, so the
	// transitions of any constituent can be used; all of them are checked.
	done := make([]bool, len(m))
	for i := range c {
		id := to[i]
		if !done[id] {
			done[id] = true
			for _, e := range c[i].trans {
				m[id].trans = append(m[id].trans, edge{e.sym, to[e.to]})
			}
			continue
		}
		if len(c[i].trans) != len(m[id].trans) {
			panic("lalr: internal error: equal cores with different transitions")
		}
		for j, e := range c[i].trans {
			if m[id].trans[j] != (edge{e.sym, to[e.to]}) {
				panic("lalr: internal error: equal cores with different transitions")
			}
		}
	}
	return m
}

// table turns sets of LR(1) items into parsing-table rows (Algorithm 4.56,
// step 2, without complaining about conflicts).
func (b *builder) table(c []set, lr1 int) *Table {
	t := &Table{G: *b.g, States: make([]State, len(c)), LR1States: lr1}
	for i := range c {
		s := &c[i]
		st := State{
			Kernel:   make([]Item, len(s.kernel)),
			KernelLA: make([][]int, len(s.kernel)),
			Cells:    map[int]*Cell{},
			Goto:     map[int]int{},
		}
		for j, it := range s.kernel {
			st.Kernel[j] = Item{b.itemProd[it] - 1, b.itemDot[it]}
			st.KernelLA[j] = bitsToSlice(s.kernelLA[j])
		}
		cell := func(term int) *Cell {
			c := st.Cells[term]
			if c == nil {
				c = &Cell{Shift: -1}
				st.Cells[term] = c
			}
			return c
		}
		for _, e := range s.trans {
			if e.sym >= b.numT {
				st.Goto[e.sym-b.numT] = e.to
			} else {
				cell(e.sym).Shift = e.to
			}
		}
		// s.items is sorted by (production, dot), so the production lists
		// come out sorted; a production can want the same shift with several
		// dot positions, hence the duplicate check.
		for j, it := range s.items {
			prod := b.itemProd[it] - 1
			x := b.itemNext[it]
			switch {
			case x >= b.numT:
				// nonterminal after the dot: nothing to do
			case x >= 0:
				// (a) [A -> alpha . a beta, b] and GOTO(I, a) = J: shift J.
				c := cell(x)
				if c.Shift < 0 {
					panic("lalr: internal error: shift item without transition")
				}
				if n := len(c.ShiftProds); n == 0 || c.ShiftProds[n-1] != prod {
					c.ShiftProds = append(c.ShiftProds, prod)
				}
			case prod < 0:
				// (c) [S' -> S ., $]: accept.
				if s.las[j] != 1 {
					panic("lalr: internal error: accept item with a lookahead other than EOF")
				}
				cell(0).Accept = true
			default:
				// (b) [A -> alpha ., a], A != S': reduce A -> alpha on a.
				for l := s.las[j]; l != 0; l &= l - 1 {
					c := cell(bits.TrailingZeros64(l))
					c.Reduces = append(c.Reduces, prod)
				}
			}
		}
		t.States[i] = st
	}
	return t
}

// Build constructs the LALR(1) table of g by building the canonical LR(1)
// collection and merging the sets with identical cores. If maxLR1States > 0
// and the canonical collection would have more than maxLR1States sets, an
// error wrapping ErrStateLimit is returned; maxLR1States <= 0 means no limit.
func Build(g Grammar, maxLR1States int) (*Table, error) {
	b, err := newBuilder(&g)
	if err != nil {
		return nil, err
	}
	c, err := b.canonical(maxLR1States)
	if err != nil {
		return nil, err
	}
	return b.table(mergeCores(c), len(c)), nil
}

// BuildCanonical constructs the canonical LR(1) table of g (no merging), in
// the same format as Build. Distinct states may have the same Kernel; they
// then differ in KernelLA.
func BuildCanonical(g Grammar, maxLR1States int) (*Table, error) {
	b, err := newBuilder(&g)
	if err != nil {
		return nil, err
	}
	c, err := b.canonical(maxLR1States)
	if err != nil {
		return nil, err
	}
	return b.table(c, len(c)), nil
}

// IsLR1 reports whether the canonical LR(1) table of g (unmerged) is free of
// conflicts, i.e. whether g is an LR(1) grammar.
func IsLR1(g Grammar, maxLR1States int) (bool, error) {
	t, err := BuildCanonical(g, maxLR1States)
	if err != nil {
		return false, err
	}
	return len(t.Conflicts()) == 0, nil
}

// Conflicts lists the (state, terminal) pairs whose cell has more than one
// candidate action, sorted by state, then terminal.
func (t *Table) Conflicts() [][2]int {
	var out [][2]int
	for s := range t.States {
		cells := t.States[s].Cells
		for term := 0; term < t.G.NumT; term++ {
			if c := cells[term]; c != nil && c.Count() > 1 {
				out = append(out, [2]int{s, term})
			}
		}
	}
	return out
}

// ---------------------------------------------------------------------------
// Table-driven recogniser.

// PickFunc chooses one of the candidate actions of a cell:
//
//	shift == true               shift (c.Shift must be >= 0)
//	shift == false, prod >= 0   reduce by production prod (must be in c.Reduces)
//	shift == false, prod == -1  accept (c.Accept must be set)
//
// ok == false means that no choice could be made; the parse is abandoned.
type PickFunc = func(state, term int, c *Cell) (shift bool, reduceProd int, ok bool)

// DefaultPick is the PickFunc for conflict-free cells: it returns the only
// candidate action, and ok == false if the cell has a conflict.
func DefaultPick(state, term int, c *Cell) (shift bool, reduceProd int, ok bool) {
	if c.Count() != 1 {
		return false, -1, false
	}
	switch {
	case c.Shift >= 0:
		return true, -1, true
	case c.Accept:
		return false, -1, true
	default:
		return false, c.Reduces[0], true
	}
}

// MaxParseSteps bounds the number of parser moves of one Parse call. A
// conflict-free table never loops, but an arbitrary PickFunc on a table with
// conflicts can (cyclic grammars, epsilon loops).
var MaxParseSteps = 1 << 20

// ErrStepLimit is returned by ParseErr when MaxParseSteps is exceeded.
var ErrStepLimit = errors.New("lalr: parse step limit exceeded")

// Parse runs the LR parsing algorithm (Algorithm 4.44) on w, a string of
// terminals without the EOF marker (it is appended internally). pick chooses
// the action of every cell consulted. reductions is the sequence of production
// indices reduced, in order (reversed, it is a rightmost derivation of w if w
// was accepted). Parse reports accepted == false both when w is rejected and
// when the parse is abandoned (pick returned !ok or an action that is not in
// the cell, invalid terminal in w, step limit); use ParseErr to tell them
// apart.
func (t *Table) Parse(w []int, pick PickFunc) (accepted bool, reductions []int) {
	accepted, reductions, _ = t.ParseErr(w, pick)
	return accepted, reductions
}

// ParseErr is Parse with an error telling an abandoned parse (err != nil)
// from a plain syntax error (accepted == false, err == nil).
func (t *Table) ParseErr(w []int, pick PickFunc) (accepted bool, reductions []int, err error) {
	stack := []int{0}
	pos := 0
	for steps := 0; ; steps++ {
		if steps >= MaxParseSteps {
			return false, reductions, ErrStepLimit
		}
		a := 0
		if pos < len(w) {
			a = w[pos]
			if a <= 0 || a >= t.G.NumT {
				return false, reductions, fmt.Errorf("lalr: input[%d] = %d is not a terminal in (0,%d)", pos, a, t.G.NumT)
			}
		}
		s := stack[len(stack)-1]
		c := t.States[s].Cells[a]
		if c == nil {
			return false, reductions, nil // syntax error
		}
		shift, prod, ok := pick(s, a, c)
		switch {
		case !ok:
			return false, reductions, fmt.Errorf("lalr: no action picked in state %d on terminal %d (%d candidates)", s, a, c.Count())
		case shift:
			if c.Shift < 0 {
				return false, reductions, fmt.Errorf("lalr: picked a shift in state %d on terminal %d, which has none", s, a)
			}
			stack = append(stack, c.Shift)
			pos++
		case prod == -1:
			if !c.Accept {
				return false, reductions, fmt.Errorf("lalr: picked accept in state %d on terminal %d, which has none", s, a)
			}
			return true, reductions, nil
		default:
			i := sort.SearchInts(c.Reduces, prod)
			if i == len(c.Reduces) || c.Reduces[i] != prod {
				return false, reductions, fmt.Errorf("lalr: picked reduce %d in state %d on terminal %d, which is not a candidate", prod, s, a)
			}
			p := t.G.Prods[prod]
			stack = stack[:len(stack)-len(p.RHS)]
			to, ok := t.States[stack[len(stack)-1]].Goto[p.LHS]
			if !ok {
				panic("lalr: internal error: missing goto after reduce")
			}
			stack = append(stack, to)
			reductions = append(reductions, prod)
		}
	}
}
