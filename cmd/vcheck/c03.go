package main

import (
	"crypto/sha256"

	"fmt"
	"sync"
	"time"
	"verif/internal/oracle/cfg"

	"verif/internal/evidence"
	"verif/internal/gram"
	"verif/internal/hc"
	"verif/internal/rng"
	"verif/internal/run"
	"verif/internal/sem"
)

func init() {
	register("C03", func(c *Ctx) error { return checkActions(c, false) })
	register("C16", func(c *Ctx) error { return checkActions(c, true) })
}

// checkActions implements C03 (bounds=false) and C16 (bounds=true): the
// recorded action / _onBounds calls of clean parses are compared, call by
// call and argument by argument, with the sequence prescribed by the unique
// derivation (reference LALR(1) parser + documented sugar values).
func checkActions(c *Ctx, bounds bool) error {
	id := "C03"
	rule := "grammars as in C01 (reference-LALR(1), deduplicated); per grammar the shortest sentences (enumerated) plus random sentences up to 40 tokens, each token with a pseudo-random Discard() flag; every action call (method, every argument by identity: token index, node id, list elements, zero value) and the node it returns is recorded by the in-package monitor and compared with the call sequence prescribed by the unique derivation. Non-trivial: sentences with at least 2 action calls; distinct by grammar-hash+input+discard flags."
	if bounds {
		id = "C16"
		rule = "every grammar is generated twice, without (A) and with (B) _onBounds; for each sentence the interleaved sequence of action and _onBounds calls of B is compared with the prescribed sequence (one call right after the action of every reduction with a non-empty span, with the reduction's value and the first and last token of the span; calls for generated list/optional nodes likewise; none for empty reductions), and the action calls of A and B must both equal the prescribed ones. Non-trivial: sentences with at least one reduction of an empty span and one of a non-empty span, or at least 3 _onBounds calls; distinct by grammar-hash+input."
	}
	c.Ev = evidence.New(id, c.Tier, c.Seed, "exploration", rule)
	c.Ev.Assumptions = []string{
		"reference: independent canonical-LR(1)-then-merge LALR(1) table over the documented desugaring; for an unambiguous grammar its reduction order is the unique bottom-up left-to-right order",
		"Discard() of a node = Discard() of its first token (harness convention, mirrored by the oracle)",
		"bounds of `x*!` helper lists are only required to lie inside the derivation span (the statement leaves open whether discarded elements count)",
	}
	nBatches := c.N(3, 40)
	nCLI := c.N(1, 6)
	per := 32
	if bounds {
		per = 16 // two packages per grammar
	}
	d := newDrawer()
	o := drawOpts{errPct: 0, bounds: 0, minSent: 2, large: true}
	if bounds {
		// a third of the grammars have @error productions: lexer ERROR tokens
		// placed where the grammar has @error are shifted like any token (no
		// recovery involved) and must get bounds too
		o.errPct = 35
	}
	fastOK := true
	var mu sync.Mutex
	doBatch := func(bi int) {
		r := c.R.Derive("batch", bi)
		var cases []*PCase
		for len(cases) < per*map[bool]int{false: 1, true: 2}[bounds] {
			pc := d.draw(r, o)
			if pc == nil {
				break
			}
			if bounds {
				// variant A (no _onBounds) and variant B (with)
				var anyRules, nilSeed uint64
				if r.Chance(1, 3) && !hasStarF(pc.G) {
					// some rules are typed `any`, and about half of their
					// actions record the call and return an untyped nil: the
					// call to _onBounds does not depend on the result's value
					for ri := range pc.G.Rules {
						if ri < 64 && r.Chance(1, 2) {
							anyRules |= 1 << uint(ri)
						}
					}
					nilSeed = 1 + uint64(r.Intn(1<<30))
				}
				pa := *pc
				pa.Opt = gram.HarnessOpt{Bounds: false, AnyRules: anyRules, NilSeed: nilSeed}
				pa.Files = nil
				pa.prepare()
				pb := *pc
				pb.Opt = gram.HarnessOpt{Bounds: true, AnyRules: anyRules, NilSeed: nilSeed}
				pb.Files = nil
				pb.prepare()
				cases = append(cases, &pa, &pb)
			} else {
				cases = append(cases, pc)
			}
		}
		mu.Lock()
		fast := bi >= nCLI && fastOK
		mu.Unlock()
		b, err := genBatch(c, cases, fast, false)
		if err != nil {
			c.Logf("batch %d: %v", bi, err)
			c.Inconclusive("batch-build-failed")
			return
		}
		defer b.Remove()
		if bi == 0 {
			ok := crossCheckFast(c, cases)
			mu.Lock()
			fastOK = ok
			mu.Unlock()
		}
		actionsRunBatch(c, r, b, cases, bounds)
	}
	doBatch(0)
	if !bounds {
		wideProductions(c)
	}
	parallel(nBatches-1, 4, func(i int) { doBatch(i + 1) })
	c.Ev.Set("grammars_drawn", d.drawn)
	c.Ev.Set("large_grammars_drawn", d.large)
	c.nontrivMin = 200
	return nil
}

func actionsRunBatch(c *Ctx, r *rng.R, b *run.Batch, cases []*PCase, bounds bool) {
	type item struct {
		pc    *PCase
		toks  []hc.Token
		recov bool // not a sentence: error recovery runs; only the self-consistency monitor applies
	}
	items := map[int]*item{}
	var jobs []hc.Job
	id := 0
	for i, pc := range cases {
		if !pc.Pkg.GenOK {
			c.Ev.Count("grammars_lox_rejected", 1)
			continue
		}
		if pc.Pkg.BuildErr != "" {
			c.Violation("generated-code-does-not-compile", pc.replay("generated package does not compile:\n"+pc.Pkg.BuildErr, nil, nil, nil))
			continue
		}
		c.Ev.Count("packages_run", 1)
		// the two variants of a grammar must see the same inputs
		seedIdx := i
		if bounds {
			seedIdx = i / 2
		}
		rr := r.Derive("inputs", seedIdx)
		var ws [][]int
		pc.Eng.Enumerate(12, c.N(25, 60), func(w []int) bool { ws = append(ws, w); return true })
		for k := 0; k < c.N(15, 40); k++ {
			if w := pc.Eng.RandomSentence(rr.Intn, 6+rr.Intn(35)); w != nil {
				ws = append(ws, w)
			}
		}
		if bounds && pc.G.HasErr() {
			// sentences of the grammar with @error read as the ERROR token
			full := cfg.New(toCfg(pc.C))
			full.Enumerate(8, 25, func(w []int) bool { ws = append(ws, w); return true })
			for k := 0; k < c.N(15, 30); k++ {
				if w := full.RandomSentence(rr.Intn, 4+rr.Intn(25)); w != nil {
					ws = append(ws, w)
				}
			}
		}
		nSent := len(ws)
		if bounds && pc.Opt.Bounds && pc.G.HasErr() && !hasStarF(pc.G) && pc.Opt.NilSeed == 0 {
			// non-sentences: recovery discards part of the stack, later
			// reductions reach below the recovery point
			alpha := pc.G.Alphabet()
			for k := 0; k < c.N(40, 120); k++ {
				ws = append(ws, garbage(rr, pc, alpha))
			}
		}
		for wi, w := range ws {
			toks := make([]hc.Token, len(w))
			pj := hc.ParseJob{Rec: true}
			for k, t := range w {
				dflag := rr.Chance(1, 3)
				toks[k] = hc.Token{Type: t, Seq: k + 1, D: dflag}
				dv := 0
				if dflag {
					dv = 1
				}
				pj.Toks = append(pj.Toks, [2]int{t, dv})
			}
			id++
			items[id] = &item{pc: pc, toks: toks, recov: wi >= nSent}
			jobs = append(jobs, run.MkJob(id, pc.Pkg.Name, "parse", pj))
		}
	}
	if len(jobs) == 0 {
		return
	}
	results, suspects, err := b.RunAll(jobs, 3*time.Minute, 20)
	if err != nil {
		c.Inconclusive("batch-run-failed")
		c.Logf("run: %v", err)
	}
	for range suspects {
		c.Inconclusive("job-crashed-or-hung")
	}
	prop := "C03"
	if bounds {
		prop = "C16"
	}
	_ = prop
	nviolPer := map[*PCase]int{}
	for jid, it := range items {
		pc := it.pc
		res, err := decodeRes[hc.ParseRes](results[jid])
		if err != nil {
			c.Inconclusive("job-no-result")
			continue
		}
		c.Ev.Eval(1)
		w := make([]int, len(it.toks))
		for k, t := range it.toks {
			w[k] = t.Type
		}
		report := func(kind, why string, expected, observed any) {
			nviolPer[pc]++
			if nviolPer[pc] > 2 {
				c.mu.Lock()
				c.nviol++
				c.violKinds[kind]++
				c.mu.Unlock()
				return
			}
			pj := hc.ParseJob{Rec: true}
			for _, t := range it.toks {
				dv := 0
				if t.D {
					dv = 1
				}
				pj.Toks = append(pj.Toks, [2]int{t.Type, dv})
			}
			c.Violation(kind, pc.replay(fmt.Sprintf("%s: input [%s] (bounds=%v): %s", kind, tokString(pc.G, w), pc.Opt.Bounds, why),
				[]hc.Job{run.MkJob(1, "", "parse", pj)}, expected, observed))
		}
		hasErrTok := false
		for _, t := range it.toks {
			if t.Type == 1 {
				hasErrTok = true
			}
		}
		if hasErrTok {
			c.Ev.Count("inputs_with_shifted_ERROR_tokens", 1)
		}
		if bounds && pc.Opt.Bounds && pc.Opt.NilSeed != 0 {
			c.Ev.Count("parses_with_nil_returning_actions", 1)
		}
		if bounds && pc.Opt.Bounds && !hasStarF(pc.G) && pc.Opt.NilSeed == 0 {
			// (a `x*!` list leaves out discarded elements that its bounds
			// still cover: the monitor cannot see those children)
			n, why := boundsSelfConsistent(res.Events)
			c.Ev.Count("bounds_calls_checked_against_children", n)
			if it.recov && res.NErr > 0 {
				c.Ev.Count("recovery_runs_monitored", 1)
				if n >= 3 {
					c.Ev.Distinct(fmt.Sprintf("%x|%v|recov", sha256.Sum256([]byte(pc.Lox)), it.toks))
				}
			}
			if why != "" {
				report("bounds-do-not-match-children", why, nil, sem.Show(res.Events))
				continue
			}
		}
		if it.recov {
			continue
		}
		if res.Panic != "" || res.Stop != "" || !res.OK || (res.NErr != 0 && !hasErrTok) {
			report("sentence-not-parsed-cleanly", fmt.Sprintf("ok=%v nerr=%d stop=%q panic=%q", res.OK, res.NErr, res.Stop, firstLine(res.Panic)), nil, res)
			continue
		}
		exp, err := sem.Simulate(pc.G, pc.C, pc.Ref, pc.Opt, it.toks)
		if err != nil {
			c.Inconclusive("reference-parser-failed")
			c.Logf("reference: %v", err)
			continue
		}
		diff := sem.Compare(exp, res.Events)
		nact, nb, nempty := 0, 0, 0
		for _, e := range exp.Events {
			if e.K == "a" {
				nact++
				if len(e.Args) == 0 {
					nempty++
				}
			} else {
				nb++
			}
		}
		c.Ev.Count("action_calls_compared", nact)
		c.Ev.Count("bounds_calls_compared", nb)
		key := fmt.Sprintf("%x|%v|%v", sha256.Sum256([]byte(pc.Lox)), it.toks, pc.Opt.Bounds)
		if !bounds && nact >= 2 {
			c.Ev.Distinct(key)
		}
		if bounds && pc.Opt.Bounds && (nb >= 3 || (nempty > 0 && nb > 0)) {
			c.Ev.Distinct(key)
		}
		if diff != "" {
			kind := "action-calls-differ"
			if bounds && pc.Opt.Bounds {
				kind = "bounds-or-action-calls-differ"
			}
			report(kind, diff, sem.Show(exp.Events), sem.Show(res.Events))
			continue
		}
		// shape census
		census(c, pc, res.Events)
		if c.Ev.WantSample() {
			c.Ev.Sample(map[string]any{"lox": pc.Lox, "input": tokString(pc.G, w), "bounds": pc.Opt.Bounds, "observed_calls": sem.Show(res.Events)})
		}
	}
}

// census counts which (sugar kind, arity, slot) shapes were exercised.
func census(c *Ctx, pc *PCase, evs []hc.Event) {
	meths := pc.G.Methods(pc.Opt)
	byID := map[int]gram.MethodInfo{}
	for _, m := range meths {
		byID[m.ID] = m
	}
	for _, e := range evs {
		if e.K != "a" {
			continue
		}
		m := byID[e.M]
		p := pc.G.Rules[m.Rule].Prods[m.Prods[0]]
		c.Ev.Count(fmt.Sprintf("census_arity_%d", len(p.Terms)), 1)
		for i, t := range p.Terms {
			if t.Sugar == gram.None || i >= len(e.Args) {
				continue
			}
			state := "present"
			a := e.Args[i]
			if a.K == "z" || (a.K == "l" && len(a.L) == 0) {
				state = "absent"
			} else if a.K == "l" && len(a.L) > 1 {
				state = "many"
			}
			c.Ev.Count(fmt.Sprintf("census_sugar%s_slot%d_%s", t.Sugar, i, state), 1)
		}
	}
}

// wideProductions is a fixed boundary case: productions with 254, 255, 256,
// 257 and 300 terms (anything the generator packs per production — term
// counts, stack offsets — must not wrap at a byte).
func wideProductions(c *Ctx) {
	g := &gram.Grammar{Tokens: []gram.Token{{Name: "A", Lit: "a"}, {Name: "B", Lit: "b"}, {Name: "C", Lit: "c"}, {Name: "D", Lit: "d"}, {Name: "E", Lit: "e"}, {Name: "N", Lit: "n"}}}
	tok := func(i int) gram.Term { return gram.Term{Ref: gram.Ref{Kind: gram.KTok, Idx: i}} }
	widths := []int{254, 255, 256, 257, 300}
	rec := gram.Rule{Name: "rec"}
	for k, w := range widths {
		p := gram.Prod{Terms: []gram.Term{tok(k)}}
		for i := 1; i < w; i++ {
			p.Terms = append(p.Terms, tok(5))
		}
		rec.Prods = append(rec.Prods, p)
	}
	g.Rules = []gram.Rule{
		{Name: "file", Prods: []gram.Prod{{Terms: []gram.Term{{Ref: gram.Ref{Kind: gram.KRule, Idx: 1}, Sugar: gram.Star}}}}},
		rec,
	}
	pc := &PCase{G: g, Origin: "wide-productions"}
	pc.C = g.Desugar(false)
	tbl, free, ok := refConflictFree(pc.C)
	if !ok || !free {
		c.Inconclusive("wide-production-grammar-over-reference-budget")
		return
	}
	pc.Ref = tbl
	pc.Opt = gram.HarnessOpt{}
	pc.prepare()
	b, err := genBatch(c, []*PCase{pc}, false, false)
	if err != nil {
		c.Inconclusive("batch-build-failed")
		return
	}
	defer b.Remove()
	c.Ev.Eval(1)
	if !pc.Pkg.GenOK {
		c.Violation("valid-grammar-rejected/wide-productions", pc.replay(fmt.Sprintf("lox rejected a grammar with long productions (exit %d):\n%s", pc.Pkg.Exit, tail(pc.Pkg.Diag, 1500)), nil, nil, nil))
		return
	}
	if pc.Pkg.BuildErr != "" {
		c.Violation("generated-code-does-not-compile", pc.replay(pc.Pkg.BuildErr, nil, nil, nil))
		return
	}
	var jobs []hc.Job
	var inputs [][]hc.Token
	mk := func(kinds ...int) {
		var toks []hc.Token
		pj := hc.ParseJob{Rec: true}
		for _, k := range kinds {
			ts := []int{gram.TokType(k)}
			for i := 1; i < widths[k]; i++ {
				ts = append(ts, gram.TokType(5))
			}
			for _, t := range ts {
				toks = append(toks, hc.Token{Type: t, Seq: len(toks) + 1})
				pj.Toks = append(pj.Toks, [2]int{t, 0})
			}
		}
		inputs = append(inputs, toks)
		jobs = append(jobs, run.MkJob(len(inputs), pc.Pkg.Name, "parse", pj))
	}
	for k := range widths {
		mk(k)
	}
	mk(0, 2, 1)
	mk(2, 2)
	mk(4, 3, 2, 1, 0)
	results, _, _ := b.RunAll(jobs, 3*time.Minute, 20)
	for i, toks := range inputs {
		res, err := decodeRes[hc.ParseRes](results[i+1])
		if err != nil {
			c.Inconclusive("job-no-result")
			continue
		}
		c.Ev.Eval(1)
		c.Ev.Count("wide_production_parses", 1)
		desc := fmt.Sprintf("%d tokens (records with %v-term productions)", len(toks), widths)
		if !res.OK || res.NErr != 0 || res.Panic != "" || res.Stop != "" {
			c.Violation("sentence-not-parsed-cleanly/wide-productions", pc.replay(fmt.Sprintf("input of %s: ok=%v nerr=%d stop=%q panic=%q", desc, res.OK, res.NErr, res.Stop, firstLine(res.Panic)), []hc.Job{jobs[i]}, nil, nil))
			continue
		}
		exp, err := sem.Simulate(pc.G, pc.C, pc.Ref, pc.Opt, toks)
		if err != nil {
			c.Inconclusive("reference-parser-failed")
			continue
		}
		if diff := sem.Compare(exp, res.Events); diff != "" {
			if len(diff) > 600 {
				diff = diff[:600] + "..."
			}
			c.Violation("action-calls-differ/wide-productions", pc.replay(fmt.Sprintf("input of %s: %s", desc, diff), []hc.Job{jobs[i]}, nil, nil))
		}
	}
}

// boundsSelfConsistent is a monitor over one recorded parse that needs no
// reference parse, so it also applies to runs with error recovery: every
// _onBounds call must carry the first token of the leftmost and the last token
// of the rightmost non-empty child of the reduction it follows, where the
// span of a child is the token itself, the span reported for that node
// earlier, or the spans of a list's elements. Children that are Error values
// have no span the property defines: a side bounded by one is not judged.
// A node whose children are all known to be empty must not get a call.
func boundsSelfConsistent(evs []hc.Event) (checked int, why string) {
	type span struct {
		b, e           int
		empty, unknown bool
	}
	spanOf := map[int]span{}    // node id -> reported span
	argsOf := map[int][]hc.Arg{} // node id -> arguments of the action that built it
	var of func(a hc.Arg) span
	join := func(parts []hc.Arg) span {
		res := span{empty: true}
		first := true
		for _, x := range parts {
			s := of(x)
			if s.empty {
				continue
			}
			if first {
				res = s
				first = false
				if s.unknown {
					res.b = -1
				}
				continue
			}
			res.empty = false
			if s.unknown {
				res.e = -1
			} else {
				res.e = s.e
			}
		}
		if !first && res.unknown {
			// only the sides bounded by an Error are unknown
			res.unknown = false
		}
		return res
	}
	of = func(a hc.Arg) span {
		switch a.K {
		case "t":
			return span{b: a.V, e: a.V}
		case "z":
			return span{empty: true}
		case "e":
			return span{unknown: true, b: -1, e: -1}
		case "n":
			if s, ok := spanOf[a.V]; ok {
				return s
			}
			// no call was made for that node: it derived nothing
			return span{empty: true}
		case "l":
			// The separators of a @list are not in the list but inside its
			// span: next to an empty first or last element it is a separator
			// that bounds the list, which this monitor cannot see.
			if len(a.L) == 0 {
				return span{empty: true}
			}
			s := join(a.L)
			if s.empty {
				if len(a.L) == 1 {
					return s
				}
				return span{b: -1, e: -1}
			}
			if of(a.L[0]).empty {
				s.b = -1
			}
			if of(a.L[len(a.L)-1]).empty {
				s.e = -1
			}
			return s
		}
		return span{unknown: true, b: -1, e: -1}
	}
	for i, ev := range evs {
		switch ev.K {
		case "a":
			argsOf[ev.Ret] = ev.Args
		case "b":
			if ev.R == nil {
				continue
			}
			var want span
			switch {
			case ev.R.K == "n" && i > 0 && evs[i-1].K == "a" && evs[i-1].Ret == ev.R.V:
				want = join(argsOf[ev.R.V])
			case ev.R.K == "n":
				s, ok := spanOf[ev.R.V]
				if !ok {
					continue
				}
				want = s
			case ev.R.K == "l":
				want = of(*ev.R)
			case ev.R.K == "t":
				want = span{b: ev.R.V, e: ev.R.V}
			default:
				continue
			}
			checked++
			if want.empty {
				return checked, fmt.Sprintf("event %d: _onBounds(tok#%d, tok#%d) was called for a reduction whose children all derive nothing", i, ev.B, ev.E)
			}
			if want.b > 0 && ev.B != want.b {
				return checked, fmt.Sprintf("event %d: _onBounds reports tok#%d as first token, the leftmost non-empty child of the reduction begins at tok#%d", i, ev.B, want.b)
			}
			if want.e > 0 && ev.E != want.e {
				return checked, fmt.Sprintf("event %d: _onBounds reports tok#%d as last token, the rightmost non-empty child of the reduction ends at tok#%d", i, ev.E, want.e)
			}
			if ev.R.K == "n" {
				spanOf[ev.R.V] = span{b: ev.B, e: ev.E}
			}
		}
	}
	return checked, ""
}

func hasStarF(g *gram.Grammar) bool {
	for _, r := range g.Rules {
		for _, p := range r.Prods {
			for _, t := range p.Terms {
				if t.Sugar == gram.StarF {
					return true
				}
			}
		}
	}
	return false
}
