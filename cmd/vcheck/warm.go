package main

import (
	"fmt"
	"os"
	"time"

	"verif/internal/gram"
	"verif/internal/hc"
	"verif/internal/rng"
	"verif/internal/run"
	"verif/internal/specgen"
)

// warmCache fills the build cache named by VERIF_WARM_OUT with everything a
// harness batch needs (standard library, simplelexer, hc; plain and -race).
func warmCache() int {
	env, err := run.NewEnv()
	if err != nil {
		fmt.Fprintln(os.Stderr, err)
		return 1
	}
	defer env.Close()
	for _, race := range []bool{false, true} {
		b, err := env.NewBatch()
		if err != nil {
			fmt.Fprintln(os.Stderr, err)
			return 1
		}
		g := specgen.StructuredGrammar(rng.New(7))
		h, in, st := g.Harness(gram.HarnessOpt{Bounds: true})
		lox, _ := g.Lox()
		if _, err := b.Add(map[string]string{"g.lox": lox, "harness.go": h}, in, st, nil); err != nil {
			fmt.Fprintln(os.Stderr, err)
			return 1
		}
		lf, lin, lst := warmLexerPkg()
		if _, err := b.Add(lf, lin, lst, nil); err != nil {
			fmt.Fprintln(os.Stderr, err)
			return 1
		}
		b.GenerateCLI(false)
		for _, p := range b.Pkgs {
			if !p.GenOK {
				fmt.Fprintf(os.Stderr, "warmcache: lox failed on %s: %s\n", p.Name, p.Diag)
			}
		}
		if err := b.Build(race); err != nil {
			fmt.Fprintln(os.Stderr, err)
			return 1
		}
		oc, err := b.Run([]hc.Job{run.MkJob(1, "g000", "consts", nil)}, time.Minute)
		if err != nil || oc.Results[1] == nil {
			fmt.Fprintf(os.Stderr, "warmcache: trial run failed: %v %v\n", err, oc)
			return 1
		}
		b.Remove()
	}
	return 0
}

func warmLexerPkg() (map[string]string, string, string) {
	return specgen.TinyLexer().Files()
}
