// Package cfg is a small reference context-free-grammar engine meant to be
// used as a test oracle. It favours obvious correctness over speed.
//
// Symbols are ints: terminals are 0..NumT-1 and nonterminal n (0..NumN-1) is
// encoded as NumT+n.
//
// Internally the engine works on the "trimmed" grammar: every production that
// mentions an unproductive nonterminal (one deriving no terminal string) is
// dropped. The trimmed grammar generates the same language and the same parse
// trees, and has the valid-prefix property under Earley's algorithm: an Earley
// set is non-empty iff the prefix read so far is a prefix of some sentence.
//
// An Engine is immutable after New and safe for concurrent use.
package cfg

import (
	"fmt"
	"sync"
)

// Prod is a production LHS -> RHS.
type Prod struct {
	LHS int   // nonterminal index 0..NumN-1
	RHS []int // encoded symbols; empty = epsilon
}

// Grammar is a context-free grammar.
type Grammar struct {
	NumT, NumN int
	Start      int // nonterminal index
	Prods      []Prod
}

type item struct {
	dot    int32 // global dotted-rule index (see Engine.off)
	origin int32
}

// eset is one (immutable once built) Earley set.
type eset struct {
	items     []item
	accepting bool
}

// State is an immutable snapshot of the Earley chart after some prefix.
type State struct {
	sets []*eset // sets[k] is the Earley set after k tokens; len = prefixLen+1
}

// Len returns the length of the prefix represented by s.
func (s *State) Len() int { return len(s.sets) - 1 }

// Engine is a preprocessed grammar.
type Engine struct {
	numT, numN, start int

	nullable   []bool
	productive []bool
	reachable  []bool
	minLen     []int // per nonterminal; -1 if unproductive

	// Trimmed grammar (only productions made of productive symbols).
	prods [][]int // RHS per trimmed production
	lhs   []int   // LHS per trimmed production
	orig  []int   // index into the original Grammar.Prods
	byLHS [][]int // trimmed production indices per nonterminal

	// Dotted rules: dot index off[p]+i means "production p, dot before RHS[i]".
	off     []int
	ndots   int
	dotSym  []int // symbol after the dot, or -1 if the dot is at the end
	dotLHS  []int // LHS nonterminal of the production of this dotted rule
	restMin []int // sum of min lengths of the symbols after the dot

	pool sync.Pool // *scratch

	mu sync.Mutex
	lt *lenTable // cache for RandomSentence
}

type scratch struct {
	items []item
	stamp []uint32
	gen   uint32
	sets  []*eset
}

// New preprocesses g. It panics if g is malformed (symbol out of range).
func New(g Grammar) *Engine {
	if g.NumT < 0 || g.NumN < 0 {
		panic("cfg: negative symbol count")
	}
	if g.NumN > 0 && (g.Start < 0 || g.Start >= g.NumN) {
		panic(fmt.Sprintf("cfg: start symbol %d out of range", g.Start))
	}
	for i, p := range g.Prods {
		if p.LHS < 0 || p.LHS >= g.NumN {
			panic(fmt.Sprintf("cfg: production %d: LHS %d out of range", i, p.LHS))
		}
		for _, s := range p.RHS {
			if s < 0 || s >= g.NumT+g.NumN {
				panic(fmt.Sprintf("cfg: production %d: symbol %d out of range", i, s))
			}
		}
	}
	e := &Engine{numT: g.NumT, numN: g.NumN, start: g.Start}

	// Min sentence lengths by relaxation to a fix-point (-1 = none yet).
	e.minLen = make([]int, g.NumN)
	for i := range e.minLen {
		e.minLen[i] = -1
	}
	for changed := true; changed; {
		changed = false
		for _, p := range g.Prods {
			sum, ok := 0, true
			for _, s := range p.RHS {
				if s < g.NumT {
					sum++
				} else if m := e.minLen[s-g.NumT]; m >= 0 {
					sum += m
				} else {
					ok = false
					break
				}
			}
			if ok && (e.minLen[p.LHS] < 0 || sum < e.minLen[p.LHS]) {
				e.minLen[p.LHS] = sum
				changed = true
			}
		}
	}
	e.productive = make([]bool, g.NumN)
	e.nullable = make([]bool, g.NumN)
	for n, m := range e.minLen {
		e.productive[n] = m >= 0
		e.nullable[n] = m == 0
	}

	// Trimmed grammar.
	e.byLHS = make([][]int, g.NumN)
	for i, p := range g.Prods {
		ok := true
		for _, s := range p.RHS {
			if s >= g.NumT && !e.productive[s-g.NumT] {
				ok = false
				break
			}
		}
		if !ok {
			continue
		}
		idx := len(e.prods)
		e.prods = append(e.prods, append([]int(nil), p.RHS...))
		e.lhs = append(e.lhs, p.LHS)
		e.orig = append(e.orig, i)
		e.byLHS[p.LHS] = append(e.byLHS[p.LHS], idx)
	}
	e.off = make([]int, len(e.prods))
	for p, rhs := range e.prods {
		e.off[p] = e.ndots
		e.ndots += len(rhs) + 1
	}
	e.dotSym = make([]int, e.ndots)
	e.dotLHS = make([]int, e.ndots)
	e.restMin = make([]int, e.ndots)
	for p, rhs := range e.prods {
		o := e.off[p]
		e.dotSym[o+len(rhs)] = -1
		e.dotLHS[o+len(rhs)] = e.lhs[p]
		for i := len(rhs) - 1; i >= 0; i-- {
			e.dotSym[o+i] = rhs[i]
			e.dotLHS[o+i] = e.lhs[p]
			e.restMin[o+i] = e.restMin[o+i+1] + e.MinLen(rhs[i])
		}
	}

	// Reachability from the start symbol through the trimmed grammar (so
	// reachable && productive == useful).
	e.reachable = make([]bool, g.NumN)
	if g.NumN > 0 {
		e.reachable[g.Start] = true
		work := []int{g.Start}
		for len(work) > 0 {
			n := work[len(work)-1]
			work = work[:len(work)-1]
			for _, p := range e.byLHS[n] {
				for _, s := range e.prods[p] {
					if s >= g.NumT && !e.reachable[s-g.NumT] {
						e.reachable[s-g.NumT] = true
						work = append(work, s-g.NumT)
					}
				}
			}
		}
	}
	e.pool.New = func() any { return new(scratch) }
	return e
}

// LanguageEmpty reports whether L(G) is empty.
func (e *Engine) LanguageEmpty() bool {
	return e.numN == 0 || !e.productive[e.start]
}

// MinLen returns the length of the shortest terminal string derivable from
// the encoded symbol sym (1 for terminals), or -1 if there is none.
func (e *Engine) MinLen(sym int) int {
	switch {
	case sym < 0 || sym >= e.numT+e.numN:
		return -1
	case sym < e.numT:
		return 1
	}
	return e.minLen[sym-e.numT]
}

// Nullable reports whether nonterminal n derives the empty string.
func (e *Engine) Nullable(n int) bool { return n >= 0 && n < e.numN && e.nullable[n] }

// Productive reports whether nonterminal n derives some terminal string.
func (e *Engine) Productive(n int) bool { return n >= 0 && n < e.numN && e.productive[n] }

// Reachable reports whether nonterminal n occurs in some sentential form
// derivable from the start symbol using productive productions only.
func (e *Engine) Reachable(n int) bool { return n >= 0 && n < e.numN && e.reachable[n] }

// ---------------------------------------------------------------------------
// Earley recogniser

func (sc *scratch) begin(size int) {
	sc.items = sc.items[:0]
	if len(sc.stamp) < size {
		sc.stamp = make([]uint32, size+size/2+16)
		sc.gen = 0
	}
	sc.gen++
	if sc.gen == 0 { // wrapped
		for i := range sc.stamp {
			sc.stamp[i] = 0
		}
		sc.gen = 1
	}
}

func (sc *scratch) add(dot, origin int32, k int) {
	key := int(dot)*(k+1) + int(origin)
	if sc.stamp[key] == sc.gen {
		return
	}
	sc.stamp[key] = sc.gen
	sc.items = append(sc.items, item{dot, origin})
}

// closure turns the seed items in sc.items into the complete Earley set k,
// given the finished sets[0..k-1]. Nullable nonterminals are handled with the
// Aycock-Horspool fix (predicting a nullable nonterminal also moves the dot
// over it).
func (e *Engine) closure(sets []*eset, k int, sc *scratch) *eset {
	acc := false
	for i := 0; i < len(sc.items); i++ {
		it := sc.items[i]
		sym := e.dotSym[it.dot]
		switch {
		case sym < 0: // completion
			a := e.dotLHS[it.dot]
			if a == e.start && it.origin == 0 {
				acc = true
			}
			want := e.numT + a
			if int(it.origin) == k {
				// Parents live in the set under construction. Parents added
				// later are covered by the nullable fix in the predictor.
				for j := 0; j < len(sc.items); j++ {
					if q := sc.items[j]; e.dotSym[q.dot] == want {
						sc.add(q.dot+1, q.origin, k)
					}
				}
			} else {
				for _, q := range sets[it.origin].items {
					if e.dotSym[q.dot] == want {
						sc.add(q.dot+1, q.origin, k)
					}
				}
			}
		case sym >= e.numT: // prediction
			b := sym - e.numT
			for _, p := range e.byLHS[b] {
				sc.add(int32(e.off[p]), int32(k), k)
			}
			if e.nullable[b] {
				sc.add(it.dot+1, it.origin, k)
			}
		}
	}
	return &eset{items: append([]item(nil), sc.items...), accepting: acc}
}

func (e *Engine) set0(sc *scratch) *eset {
	sc.begin(e.ndots)
	if e.numN > 0 {
		for _, p := range e.byLHS[e.start] {
			sc.add(int32(e.off[p]), 0, 0)
		}
	}
	return e.closure(nil, 0, sc)
}

// advance builds set len(sets) from sets by scanning terminal t; nil if the
// scanner produces nothing.
func (e *Engine) advance(sets []*eset, t int, sc *scratch) *eset {
	k := len(sets)
	sc.begin(e.ndots * (k + 1))
	for _, it := range sets[k-1].items {
		if e.dotSym[it.dot] == t {
			sc.add(it.dot+1, it.origin, k)
		}
	}
	if len(sc.items) == 0 {
		return nil
	}
	return e.closure(sets, k, sc)
}

// run parses as much of w as is viable. It returns the last Earley set and
// the number k of tokens consumed (k == len(w) iff all of w is a viable
// prefix). last is nil iff the language is empty.
func (e *Engine) run(w []int) (last *eset, k int) {
	sc := e.pool.Get().(*scratch)
	defer e.pool.Put(sc)
	sets := append(sc.sets[:0], e.set0(sc))
	defer func() {
		for i := range sets {
			sets[i] = nil
		}
		sc.sets = sets[:0]
	}()
	if len(sets[0].items) == 0 {
		return nil, -1
	}
	for i, t := range w {
		s := e.advance(sets, t, sc)
		if s == nil {
			return sets[i], i
		}
		sets = append(sets, s)
	}
	return sets[len(w)], len(w)
}

// Accepts reports whether w is in L(G).
func (e *Engine) Accepts(w []int) bool {
	last, k := e.run(w)
	return k == len(w) && last.accepting
}

// ViablePrefixLen returns the largest k <= len(w) such that w[:k] is a prefix
// of some sentence of L(G), or -1 if L(G) is empty.
func (e *Engine) ViablePrefixLen(w []int) int {
	_, k := e.run(w)
	return k
}

// FirstError returns -1 if w is in L(G); otherwise the index in [0,len(w)] of
// the first offending token, len(w) standing for the end-of-input marker. If
// L(G) is empty the result is 0.
func (e *Engine) FirstError(w []int) int {
	last, k := e.run(w)
	switch {
	case k < 0:
		return 0
	case k == len(w) && last.accepting:
		return -1
	}
	return k
}

// NextTerminals returns, if w is a viable prefix, the sorted terminals t such
// that w+[t] is still a viable prefix, preceded by -1 if w itself is a
// sentence. It returns nil if w is not a viable prefix.
func (e *Engine) NextTerminals(w []int) []int {
	last, k := e.run(w)
	if k != len(w) {
		return nil
	}
	return e.nextOf(last)
}

func (e *Engine) nextOf(s *eset) []int {
	var small [64]bool
	seen := small[:]
	if e.numT > len(seen) {
		seen = make([]bool, e.numT)
	}
	n := 0
	for _, it := range s.items {
		if t := e.dotSym[it.dot]; t >= 0 && t < e.numT && !seen[t] {
			seen[t] = true
			n++
		}
	}
	if s.accepting {
		n++
	}
	out := make([]int, 0, n)
	if s.accepting {
		out = append(out, -1)
	}
	for t := 0; t < e.numT; t++ {
		if seen[t] {
			out = append(out, t)
		}
	}
	return out
}

// ---------------------------------------------------------------------------
// Incremental interface

// Start returns the state for the empty prefix. It is never nil; if the
// language is empty the state is not viable.
func (e *Engine) Start() *State {
	sc := e.pool.Get().(*scratch)
	defer e.pool.Put(sc)
	return &State{sets: []*eset{e.set0(sc)}}
}

// Step extends the prefix of s by terminal t. It does not modify s. It returns
// nil if the extended prefix has no Earley items; because the engine works on
// the trimmed grammar this happens exactly when the extended prefix is not
// viable. Step(nil, t) is nil.
func (e *Engine) Step(s *State, t int) *State {
	if s == nil || t < 0 || t >= e.numT {
		return nil
	}
	sc := e.pool.Get().(*scratch)
	defer e.pool.Put(sc)
	ns := e.advance(s.sets, t, sc)
	if ns == nil {
		return nil
	}
	sets := make([]*eset, len(s.sets)+1)
	copy(sets, s.sets)
	sets[len(s.sets)] = ns
	return &State{sets: sets}
}

// Viable reports whether the prefix represented by s is a prefix of some
// sentence. Viable(nil) is false.
func (e *Engine) Viable(s *State) bool {
	return s != nil && len(s.sets[len(s.sets)-1].items) > 0
}

// Accepting reports whether the prefix represented by s is itself a sentence.
func (e *Engine) Accepting(s *State) bool {
	return s != nil && s.sets[len(s.sets)-1].accepting
}

// Next is NextTerminals for a state: nil if s is not viable.
func (e *Engine) Next(s *State) []int {
	if !e.Viable(s) {
		return nil
	}
	return e.nextOf(s.sets[len(s.sets)-1])
}
