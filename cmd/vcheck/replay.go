package main

import (
	"encoding/json"
	"fmt"
	"os"
	"path/filepath"
	"time"

	"verif/internal/run"
)

// runReplay rebuilds lox from /repo, regenerates the stored package with the
// real CLI, rebuilds the harness, reruns the stored jobs and prints what the
// monitors observe next to what was stored when the violation was found.
func runReplay(id, dir string) int {
	data, err := os.ReadFile(filepath.Join(dir, "replay.json"))
	if err != nil {
		fmt.Fprintf(os.Stderr, "cannot read replay: %v\n", err)
		return 2
	}
	var rp Replay
	if err := json.Unmarshal(data, &rp); err != nil {
		fmt.Fprintf(os.Stderr, "bad replay.json: %v\n", err)
		return 2
	}
	fmt.Printf("replay of %s (%s)\nwhy: %s\n", id, dir, rp.Why)
	if rp.Expected != nil {
		b, _ := json.MarshalIndent(rp.Expected, "", " ")
		fmt.Printf("expected (stored): %s\n", b)
	}
	if rp.Observed != nil {
		b, _ := json.MarshalIndent(rp.Observed, "", " ")
		fmt.Printf("observed (stored): %s\n", b)
	}
	if len(rp.Files) == 0 {
		fmt.Println("replay has no package files; nothing to re-run")
		return 0
	}
	env, err := run.NewEnv()
	if err != nil {
		fmt.Fprintf(os.Stderr, "setup failed: %v\n", err)
		return 2
	}
	defer env.Close()
	b, err := env.NewBatch()
	if err != nil {
		fmt.Fprintln(os.Stderr, err)
		return 2
	}
	p, err := b.Add(rp.Files, rp.Internals, rp.Stub, nil)
	if err != nil {
		fmt.Fprintln(os.Stderr, err)
		return 2
	}
	b.GenerateCLI(false)
	fmt.Printf("lox exit=%d\nstderr:\n%s\n", p.Exit, p.Diag)
	if !p.GenOK || len(rp.Jobs) == 0 {
		return 0
	}
	if err := b.Build(false); err != nil {
		fmt.Printf("build failed: %v\n", err)
		return 0
	}
	if p.BuildErr != "" {
		fmt.Printf("generated package does not compile:\n%s\n", p.BuildErr)
		return 0
	}
	jobs := rp.Jobs
	for i := range jobs {
		jobs[i].Pkg = p.Name
	}
	oc, err := b.Run(jobs, 2*time.Minute)
	if err != nil {
		fmt.Println(err)
		return 2
	}
	for _, j := range jobs {
		r := oc.Results[j.ID]
		if r == nil {
			fmt.Printf("job %d: no result (crash or hang) stderr=%s\n", j.ID, oc.Stderr)
			continue
		}
		fmt.Printf("job %d observed now: %s %s\n", j.ID, r.Error, r.Res)
	}
	return 0
}
