package main

import (
	"fmt"
	"sort"
	"unicode/utf8"

	"verif/internal/evidence"
	"verif/internal/hc"
	"verif/internal/oracle/lexref"
	"verif/internal/rng"
	"verif/internal/specgen"
)

func init() { register("C11", checkC11) }

type seg struct {
	kind     string
	off, end int
}

// conservation mirrors the recorded PushRune results against the documented
// behaviour of the reference driver to obtain byte offsets, and checks that
// emitted tokens, discarded stretches and ERROR stretches tile the input
// exactly and in order, that the driver's tokens are those stretches, and
// that EOF is reported only at the end with nothing pending.
func conservation(in []byte, obs *hc.LexRun) string {
	if obs.End != "eof" {
		return "reading tokens did not reach EOF: " + firstLine(obs.End)
	}
	var segs []seg
	off, start := 0, 0
	ntok := 0
	sawEOF := false
	for i := 0; i+5 < len(obs.PR); i += 6 {
		r, res := rune(obs.PR[i]), int(obs.PR[i+2])
		if sawEOF {
			return "PushRune was called again after EOF had been reported"
		}
		// the rune offered must be the one at the current offset
		want, w := rune(-1), 0
		if off < len(in) {
			want, w = utf8.DecodeRune(in[off:])
		}
		if r != want {
			return fmt.Sprintf("monitor out of step at offset %d (offered %d, input has %d)", off, r, want)
		}
		switch res {
		case 0:
			if r == -1 {
				return "state machine asked to consume the end-of-input marker"
			}
			off += w
		case 1:
			segs = append(segs, seg{"tok", start, off})
			if ntok >= len(obs.Toks) || obs.Toks[ntok][0] < 2 || obs.Toks[ntok][1] != start || obs.Toks[ntok][2] != off-start {
				return fmt.Sprintf("token %d reported by the driver does not cover the accepted stretch [%d,%d)", ntok, start, off)
			}
			ntok++
			start = off
		case 2:
			segs = append(segs, seg{"discard", start, off})
			start = off
		case 3:
			// accumulate: text stays pending
		case 4:
			sawEOF = true
			if r != -1 {
				return fmt.Sprintf("EOF reported at offset %d, before the end of the input (%d bytes)", off, len(in))
			}
			if start != off {
				return fmt.Sprintf("EOF reported while %d bytes of accumulated text [%d,%d) were pending: silently swallowed", off-start, start, off)
			}
			if ntok >= len(obs.Toks) || obs.Toks[ntok][0] != 0 {
				return "driver did not return EOF when the state machine reported it"
			}
			ntok++
		default:
			// error: the driver reports ERROR at the start of the pending
			// text and skips to just after the next newline
			if ntok >= len(obs.Toks) || obs.Toks[ntok][0] != 1 || obs.Toks[ntok][1] != start {
				return fmt.Sprintf("ERROR token %d does not start at the pending text (%d)", ntok, start)
			}
			ntok++
			for off < len(in) {
				c, cw := utf8.DecodeRune(in[off:])
				off += cw
				if c == '\n' {
					break
				}
			}
			segs = append(segs, seg{"error", start, off})
			start = off
		}
	}
	if !sawEOF {
		return "EOF token returned but the state machine never reported EOF"
	}
	if ntok != len(obs.Toks) {
		return fmt.Sprintf("driver returned %d tokens, the PushRune log accounts for %d", len(obs.Toks), ntok)
	}
	sort.SliceStable(segs, func(i, j int) bool { return segs[i].off < segs[j].off })
	pos := 0
	for _, s := range segs {
		if s.off != pos {
			return fmt.Sprintf("bytes [%d,%d) are accounted for twice or not at all", min(pos, s.off), max(pos, s.off))
		}
		pos = s.end
	}
	if pos != len(in) {
		return fmt.Sprintf("bytes [%d,%d) are not accounted for", pos, len(in))
	}
	return ""
}

func checkC11(c *Ctx) error {
	c.Ev = evidence.New("C11", c.Tier, c.Seed, "exploration",
		"rule sets as lox accepts them, including rules that can match the empty string (about a third of the rules are left nullable when they come out nullable), fragments that accumulate, modes that are still open at the end of the input, @pop_mode on rules of the default mode (popping an empty stack), non-greedy repetitions anywhere in an expression (nullable ones included); inputs: sampled matches, truncations (ends in the middle of a construct), near matches, invalid UTF-8, every string up to a bound over small alphabets. Monitors on the real state machine under the real driver: (1) termination decided on logical state — the same rune offered in the same (state, mode, mode stack) configuration twice with no input consumed in between proves an endless loop; token count bounded; CPU budget as backstop; (2) conservation — the PushRune log is mirrored against the driver's documented behaviour to obtain byte offsets: emitted tokens, discarded stretches and ERROR stretches must tile [0, len) exactly and in order, driver tokens must be those stretches, EOF only at the end and with nothing pending. Non-trivial: inputs of at least 2 bytes on specs with a nullable rule, an accumulating fragment or a mode; distinct by spec+input.")
	c.Ev.Assumptions = []string{
		"reference driver simplelexer v0.5.0: a consumed rune advances by its decoded width, an error skips to just after the next newline and resets the machine",
		"an empty match that pushes or pops a mode is legitimate progress (working idiom); an empty match that changes nothing is not",
	}
	return runLexCheck(c, &lexCheckSpec{
		id: "C11",
		opts: func(r *rng.R) specgen.LexOpts {
			return specgen.LexOpts{Wide: r.Chance(1, 3), Modes: r.Chance(2, 3), Frags: true, Macros: r.Chance(1, 3), NullablePct: 35, MaxRules: 5, BothModeActions: true, LoopOnlyModes: true, PopInDefault: true, NonGreedyOps: r.Chance(1, 3)}
		},
		nBatches: [2]int{3, 40}, nCLI: [2]int{1, 5}, per: 28,
		nInputs: [2]int{200, 600}, exhLen: [2]int{5, 6},
		rec: true, noRef: true, violKind: "text-not-accounted-for-or-no-eof",
		nontrivial: func(lc *LCase, in []byte, ref *lexref.Result) bool {
			return len(in) >= 2
		},
		extra: func(c *Ctx, lc *LCase, in []byte, ref *lexref.Result, obs *hc.LexRun) string {
			if ref.EpsMatch {
				c.Ev.Count("inputs_with_empty_matches", 1)
			}
			if ref.PendingAtEOF {
				c.Ev.Count("inputs_ending_with_pending_text", 1)
			}
			return conservation(in, obs)
		},
	})
}

var _ = rng.New
