package main

import (
	"bytes"
	"crypto/sha256"
	"fmt"
	"os"
	"os/exec"
	"path/filepath"
	"strings"
	"time"

	"verif/internal/evidence"
	"verif/internal/run"
)

func init() { register("C14", checkC14) }

var c14Dirs = []string{"internal/parser", "examples/calc", "examples/jsonc", "examples/bolox"}

func hashTree(root string) (map[string][32]byte, error) {
	out := map[string][32]byte{}
	err := filepath.Walk(root, func(p string, info os.FileInfo, err error) error {
		if err != nil {
			return err
		}
		rel, _ := filepath.Rel(root, p)
		if info.IsDir() {
			if rel == ".git" {
				return filepath.SkipDir
			}
			return nil
		}
		if !info.Mode().IsRegular() {
			return nil
		}
		data, err := os.ReadFile(p)
		if err != nil {
			return err
		}
		out[rel] = sha256.Sum256(data)
		return nil
	})
	return out, err
}

// checkC14: the checked-in generated files are a fix-point of the generator
// in the working tree. A scratch copy of /repo is regenerated with the lox
// built from that same copy and compared, file by file, with /repo.
func checkC14(c *Ctx) error {
	c.Ev = evidence.New("C14", c.Tier, c.Seed, "exploration",
		"finite and complete: /repo's working tree is copied to a scratch directory, lox is built from the copy, run in internal/parser and in each bundled example (examples/calc, examples/jsonc, examples/bolox), and every file of the copy is compared byte for byte with /repo: the 12 generated files must be reproduced exactly and no other file may appear, disappear or change. Each of the 12 generated files is one case; all are non-trivial (each is several hundred lines of tables and code).")
	c.Ev.Assumptions = []string{"the Go toolchain and module cache are the ones the repository's own tests use"}
	exh := true
	c.Ev.Exhaustive = &exh
	copyDir := filepath.Join(c.Env.Scratch, "repo-copy")
	if out, err := exec.Command("cp", "-a", run.RepoDir, copyDir).CombinedOutput(); err != nil {
		return fmt.Errorf("copying /repo: %v %s", err, out)
	}
	defer os.RemoveAll(copyDir)
	before, err := hashTree(run.RepoDir)
	if err != nil {
		return err
	}
	lox := filepath.Join(c.Env.Scratch, "bin", "lox-copy")
	cmd := exec.Command("go", "build", "-o", lox, "./cmd/lox")
	cmd.Dir = copyDir
	cmd.Env = append(os.Environ(), "GOFLAGS=-mod=mod", "GOPROXY=off", "GOSUMDB=off", "GOTOOLCHAIN=local")
	if out, err := cmd.CombinedOutput(); err != nil {
		return fmt.Errorf("building lox from the copy: %v\n%s", err, out)
	}
	for _, d := range c14Dirs {
		ex := exec.Command(lox, ".")
		ex.Dir = filepath.Join(copyDir, d)
		ex.Env = append(os.Environ(), "GOFLAGS=-mod=mod", "GOPROXY=off", "GOSUMDB=off", "GOTOOLCHAIN=local", "GOMAXPROCS=2")
		var se bytes.Buffer
		ex.Stderr = &se
		t0 := time.Now()
		if err := ex.Run(); err != nil {
			c.Violation("generator-fails-on-its-own-grammar", &Replay{Why: fmt.Sprintf("lox . in %s failed: %v\n%s", d, err, se.String())})
			continue
		}
		c.Logf("regenerated %s in %.1fs", d, time.Since(t0).Seconds())
	}
	after, err := hashTree(copyDir)
	if err != nil {
		return err
	}
	for _, d := range c14Dirs {
		for _, fn := range []string{"base.gen.go", "lexer.gen.go", "parser.gen.go"} {
			rel := filepath.Join(d, fn)
			c.Ev.Eval(1)
			c.Ev.Distinct(rel)
			if before[rel] != after[rel] {
				diff, _ := exec.Command("diff", "-u", filepath.Join(run.RepoDir, rel), filepath.Join(copyDir, rel)).CombinedOutput()
				ds := string(diff)
				if len(ds) > 4000 {
					ds = ds[:4000] + "\n..."
				}
				c.Violation("checked-in-file-is-not-what-the-generator-produces", &Replay{Why: fmt.Sprintf("%s differs from what the current generator produces from the grammar next to it:\n%s", rel, ds)})
			}
		}
	}
	var changed []string
	for rel, h := range after {
		if strings.HasSuffix(rel, ".gen.go") {
			continue
		}
		if bh, ok := before[rel]; !ok || bh != h {
			changed = append(changed, rel)
		}
	}
	for rel := range before {
		if _, ok := after[rel]; !ok {
			changed = append(changed, rel+" (deleted)")
		}
	}
	if len(changed) > 0 {
		c.Violation("regeneration-touches-other-files", &Replay{Why: fmt.Sprintf("regenerating changed files other than the generated ones: %v", changed)})
	}
	c.Ev.Set("files_in_tree_compared", len(before))
	c.Ev.Sample(map[string]any{"directories": c14Dirs, "files": []string{"base.gen.go", "lexer.gen.go", "parser.gen.go"}, "tree_files_compared": len(before)})
	c.nontrivMin = 12
	return nil
}
