package hc

import (
	"crypto/sha256"
	"encoding/json"
	"fmt"
	"runtime"
	"sync"
	"sync/atomic"
)

// ConcJob: kind "conc". Every sub-job is first run alone, one after another
// (baseline), then all of them are run Rounds times on Goroutines goroutines
// at once; scheduling points (runtime.Gosched) are injected in ReadToken,
// in actions and in PushRune from a per-goroutine PRNG. The result lists the
// runs whose observation differs from the baseline.
type ConcSub struct {
	Pkg   string   `json:"pkg"`
	Lex   bool     `json:"lex,omitempty"`
	Toks  [][2]int `json:"toks,omitempty"`
	Input []byte   `json:"input,omitempty"`
}

type ConcJob struct {
	Subs       []ConcSub `json:"subs"`
	Goroutines int       `json:"goroutines"`
	Rounds     int       `json:"rounds"`
	Seed       uint64    `json:"seed"`
}

type ConcMismatch struct {
	Sub      int    `json:"sub"`
	Baseline string `json:"baseline"`
	Observed string `json:"observed"`
}

type ConcRes struct {
	Runs        int            `json:"runs"`
	Mismatches  []ConcMismatch `json:"mismatches,omitempty"`
	MaxInFlight int            `json:"max_in_flight"`
	Switches    int64          `json:"switches"`  // consecutive monitored events that belong to different goroutines
	Events      int64          `json:"events"`    // monitored events (ReadToken, action, PushRune) during the concurrent phase
	Patterns    int            `json:"patterns"`  // distinct per-round interleaving signatures
	PkgsUsed    map[string]int `json:"pkgs_used"`
}

type yielder struct {
	s    uint64
	gid  int64
	last *int64
	sw   *int64
	ev   *int64
}

func (y *yielder) yield() {
	atomic.AddInt64(y.ev, 1)
	if prev := atomic.SwapInt64(y.last, y.gid); prev != y.gid {
		atomic.AddInt64(y.sw, 1)
	}
	y.s += 0x9E3779B97F4A7C15
	z := y.s
	z = (z ^ (z >> 30)) * 0xBF58476D1CE4E5B9
	z ^= z >> 27
	if z%4 == 0 {
		runtime.Gosched()
	}
}

func runSub(reg map[string]*Entry, s *ConcSub, y *yielder) string {
	e := reg[s.Pkg]
	if e == nil {
		return "unknown package"
	}
	var out any
	if s.Lex {
		if e.Lex == nil {
			return "no lexer"
		}
		var yf func()
		if y != nil {
			yf = y.yield
		}
		r := runLexY(e.Lex, s.Input, yf)
		out = r
	} else {
		toks := make([]Token, len(s.Toks))
		for i, t := range s.Toks {
			toks[i] = Token{Type: t[0], Seq: i + 1, D: t[1] != 0}
		}
		var yf func()
		if y != nil {
			yf = y.yield
		}
		r := runParseY(e, toks, yf)
		r.States, r.Methods = nil, nil
		out = r
	}
	b, _ := json.Marshal(out)
	h := sha256.Sum256(b)
	return fmt.Sprintf("%x", h[:12])
}

func runParseY(e *Entry, toks []Token, yield func()) (res ParseRes) {
	h := NewH(toks, true)
	h.Yield = yield
	defer func() {
		if r := recover(); r != nil {
			if s, ok := r.(stop); ok {
				res.Stop = s.why
			} else {
				res.Panic = fmt.Sprintf("%v", r)
			}
		}
		res.NErr, res.Reads, res.Acts = h.NErr, h.Reads, h.Acts
		res.ErrSeqs = h.ErrSeqs
		res.Root = h.LastID
		res.Events = h.Events
	}()
	res.OK = e.Parse(h)
	return
}

func runLexY(e *LexEntry, input []byte, yield func()) LexRun {
	return runLexWith(e, input, true, 0, yield)
}

func runConc(reg map[string]*Entry, j *ConcJob) *ConcRes {
	res := &ConcRes{PkgsUsed: map[string]int{}}
	base := make([]string, len(j.Subs))
	for i := range j.Subs {
		base[i] = runSub(reg, &j.Subs[i], nil)
		res.PkgsUsed[j.Subs[i].Pkg]++
	}
	var last, sw, ev int64
	var inflight, maxIn int64
	var mu sync.Mutex
	patterns := map[string]bool{}
	for round := 0; round < j.Rounds; round++ {
		var wg sync.WaitGroup
		work := make(chan int, len(j.Subs))
		for i := range j.Subs {
			work <- (i*7 + round*13) % len(j.Subs)
		}
		close(work)
		var order []int64
		var omu sync.Mutex
		sw0 := atomic.LoadInt64(&sw)
		for g := 0; g < j.Goroutines; g++ {
			wg.Add(1)
			go func(g int) {
				defer wg.Done()
				y := &yielder{s: j.Seed + uint64(g)*1000003 + uint64(round)*7919, gid: int64(g + 1), last: &last, sw: &sw, ev: &ev}
				for i := range work {
					n := atomic.AddInt64(&inflight, 1)
					for {
						m := atomic.LoadInt64(&maxIn)
						if n <= m || atomic.CompareAndSwapInt64(&maxIn, m, n) {
							break
						}
					}
					got := runSub(reg, &j.Subs[i], y)
					atomic.AddInt64(&inflight, -1)
					omu.Lock()
					order = append(order, int64(i))
					omu.Unlock()
					if got != base[i] {
						mu.Lock()
						if len(res.Mismatches) < 20 {
							res.Mismatches = append(res.Mismatches, ConcMismatch{Sub: i, Baseline: base[i], Observed: got})
						}
						mu.Unlock()
					}
					mu.Lock()
					res.Runs++
					mu.Unlock()
				}
			}(g)
		}
		wg.Wait()
		// signature of this round's interleaving: completion order + number of switches
		patterns[fmt.Sprint(order, atomic.LoadInt64(&sw)-sw0)] = true
	}
	res.MaxInFlight = int(maxIn)
	res.Switches = sw
	res.Events = ev
	res.Patterns = len(patterns)
	return res
}
