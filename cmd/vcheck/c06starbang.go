package main

import (
	"fmt"
	"os"
	"os/exec"
	"path/filepath"
	"strings"
	"time"
)

// c06StarBang is a small fixed sub-workload of C06: `x*!` filters its elements
// through their Discard() method, so a package whose element type has no such
// method cannot be bound. lox must either reject it with a diagnostic naming
// the production, or the generated files must compile. (Before the repair
// recorded in KNOWN_FINDINGS.txt lox succeeded and the output did not compile.)
func c06StarBang(c *Ctx) {
	type variant struct {
		name   string
		rule   bool // the element is a rule, not a token
		decl   string
		accept bool
	}
	vs := []variant{
		{"token-value-receiver", false, "type Token struct{ X int }\nfunc (t Token) Discard() bool { return t.X < 0 }\n", true},
		{"token-pointer-receiver", false, "type Token struct{ X int }\nfunc (t *Token) Discard() bool { return t.X < 0 }\n", true},
		{"token-without-discard", false, "type Token struct{ X int }\n", false},
		{"token-discard-returns-int", false, "type Token struct{ X int }\nfunc (t Token) Discard() int { return 0 }\n", false},
		{"token-discard-takes-a-parameter", false, "type Token struct{ X int }\nfunc (t Token) Discard(x int) bool { return false }\n", false},
		{"token-discard-is-a-field", false, "type Token struct{ Discard bool }\n", false},
		{"token-discard-promoted-from-embedded", false, "type base struct{ X int }\nfunc (b base) Discard() bool { return false }\ntype Token struct{ base }\n", true},
		{"token-discard-returns-named-bool", false, "type Flag bool\ntype Token struct{ X int }\nfunc (t Token) Discard() Flag { return false }\n", true},
		{"token-is-an-interface-with-discard", false, "type Token interface{ Discard() bool }\n", true},
		{"token-is-an-interface-without-discard", false, "type Token interface{ Pos() int }\n", false},
		{"rule-pointer-type-with-discard", true, "type Token struct{ X int }\ntype N struct{ T Token }\nfunc (n *N) Discard() bool { return false }\ntype R = *N\nfunc mk(t Token) R { return &N{t} }\n", true},
		{"rule-type-without-discard", true, "type Token struct{ X int }\ntype N struct{ T Token }\ntype R = *N\nfunc mk(t Token) R { return &N{t} }\n", false},
		{"rule-type-any", true, "type Token struct{ X int }\ntype R = any\nfunc mk(t Token) R { return t }\n", false},
	}
	b, err := c.Env.NewBatch()
	if err != nil {
		c.Inconclusive("batch-build-failed")
		return
	}
	defer b.Remove()
	for i, v := range vs {
		name := fmt.Sprintf("sb%02d", i)
		dir := filepath.Join(b.Dir, name)
		os.MkdirAll(dir, 0o755)
		lox := "@lexer\nA = 'a'\nB = 'b'\n@frag [ \\n] @discard\n\n@parser\n@start s = B A*!\n"
		src := "package " + name + "\n\n" + v.decl + "\ntype P struct{ lox }\n\nfunc (p *P) on_s(b Token, xs []Token) int { return len(xs) }\n"
		if v.rule {
			lox = "@lexer\nA = 'a'\nB = 'b'\n@frag [ \\n] @discard\n\n@parser\n@start s = B r*!\nr = A\n"
			src = "package " + name + "\n\n" + v.decl + "\ntype P struct{ lox }\n\nfunc (p *P) on_s(b Token, xs []R) int { return len(xs) }\nfunc (p *P) on_r(a Token) R { return mk(a) }\n"
		}
		files := map[string]string{"g.lox": lox, "p.go": src}
		for fn, s := range files {
			os.WriteFile(filepath.Join(dir, fn), []byte(s), 0o644)
		}
		exit, _, stderr, timedOut := c.Env.RunLox(b.Dir, 3*time.Minute, name)
		c.Ev.Eval(1)
		c.Ev.Count("star_bang_packages", 1)
		c.Ev.Distinct("starbang:" + v.name)
		rp := func(why string) *Replay {
			return &Replay{Kind: "batch", Why: "x*! element type variant " + v.name + ": " + why, Files: files, Observed: map[string]any{"exit": exit, "stderr": trimTo(stderr, 2000)}}
		}
		switch {
		case timedOut:
			c.Inconclusive("cli-wall-clock-watchdog")
		case exit == 2 || strings.Contains(stderr, "panic:"):
			c.Violation("binding-fault-crashes-generator/star-bang", rp("lox crashed"))
		case exit == 0:
			cmd := exec.Command("go", "build", "./"+name)
			cmd.Dir = b.Dir
			cmd.Env = append(os.Environ(), "GOFLAGS=-mod=mod", "GOPROXY=off", "GOSUMDB=off", "GOTOOLCHAIN=local", "GOCACHE="+c.Env.GoCache)
			out, err := cmd.CombinedOutput()
			if err != nil {
				c.Violation("generated-code-does-not-compile/star-bang", rp("lox succeeded but the generated files do not compile with the package:\n"+trimTo(string(out), 1500)))
			} else if !v.accept {
				c.Violation("ill-formed-binding-accepted/star-bang", rp("no usable Discard() on the element type, yet lox succeeded and the package compiled"))
			} else {
				c.Ev.Count("star_bang_accepted_and_compiled", 1)
			}
		default:
			if v.accept {
				c.Violation("well-formed-binding-rejected/star-bang", rp("the element type has a usable Discard() method, yet lox rejected the package"))
			} else if !strings.Contains(stderr, "g.lox:7:") {
				c.Violation("binding-diagnostic-names-neither-production-nor-method/star-bang", rp("expected a diagnostic inside the production (g.lox line 7)"))
			} else {
				c.Ev.Count("star_bang_rejected_at_the_production", 1)
			}
		}
	}
}
