// Package evidence writes /verif/evidence/<id>.json (EVIDENCE.schema.json).
package evidence

import (
	"crypto/sha256"
	"encoding/binary"
	"encoding/json"
	"os"
	"path/filepath"
	"sync"
	"time"
)

type E struct {
	mu       sync.Mutex
	ID       string
	Tier     string
	Seed     int64
	Level    string
	Rule     string
	start    time.Time
	evals    int
	distinct map[uint64]struct{}
	samples  []any
	maxSamp  int
	Observed map[string]any
	counters map[string]int
	Assumptions []string
	Violations  int
	Inconclusive int
	KnownMatched int
	Exhaustive  *bool
	Explanation string
}

func New(id, tier string, seed int64, level, rule string) *E {
	return &E{ID: id, Tier: tier, Seed: seed, Level: level, Rule: rule, start: time.Now(),
		distinct: map[uint64]struct{}{}, maxSamp: 6, Observed: map[string]any{}, counters: map[string]int{}}
}

// Eval counts one oracle evaluation.
func (e *E) Eval(n int) {
	e.mu.Lock()
	e.evals += n
	e.mu.Unlock()
}

// Distinct records a non-trivial case by key (counted as a set).
func (e *E) Distinct(key string) {
	h := sha256.Sum256([]byte(key))
	k := binary.LittleEndian.Uint64(h[:8])
	e.mu.Lock()
	e.distinct[k] = struct{}{}
	e.mu.Unlock()
}

// WantSample reports whether another sample would still be kept.
func (e *E) WantSample() bool {
	e.mu.Lock()
	defer e.mu.Unlock()
	return len(e.samples) < e.maxSamp
}

func (e *E) Sample(s any) {
	e.mu.Lock()
	if len(e.samples) < e.maxSamp {
		e.samples = append(e.samples, s)
	}
	e.mu.Unlock()
}

func (e *E) Count(name string, n int) {
	e.mu.Lock()
	e.counters[name] += n
	e.mu.Unlock()
}

func (e *E) Get(name string) int {
	e.mu.Lock()
	defer e.mu.Unlock()
	return e.counters[name]
}

func (e *E) Set(name string, v any) {
	e.mu.Lock()
	e.Observed[name] = v
	e.mu.Unlock()
}

func (e *E) Evals() int {
	e.mu.Lock()
	defer e.mu.Unlock()
	return e.evals
}

func (e *E) NDistinct() int {
	e.mu.Lock()
	defer e.mu.Unlock()
	return len(e.distinct)
}

// Write renders the file.
func (e *E) Write(dir string) error {
	e.mu.Lock()
	defer e.mu.Unlock()
	obs := map[string]any{}
	for k, v := range e.Observed {
		obs[k] = v
	}
	for k, v := range e.counters {
		obs[k] = v
	}
	cov := map[string]any{
		"evaluations":         e.evals,
		"distinct_nontrivial": len(e.distinct),
		"rule":                e.Rule,
		"samples":             e.samples,
		"observed":            obs,
		"inconclusive":        e.Inconclusive,
		"known_findings_matched": e.KnownMatched,
	}
	if e.samples == nil {
		cov["samples"] = []any{}
	}
	if e.Exhaustive != nil {
		cov["exhaustive"] = *e.Exhaustive
	}
	if e.Explanation != "" {
		cov["explanation"] = e.Explanation
	}
	doc := map[string]any{
		"property_id": e.ID,
		"tier":        e.Tier,
		"seed":        e.Seed,
		"level":       e.Level,
		"coverage":    cov,
		"assumptions": e.Assumptions,
		"wall_s":      time.Since(e.start).Seconds(),
		"violations":  e.Violations,
	}
	if e.Assumptions == nil {
		doc["assumptions"] = []string{}
	}
	data, err := json.MarshalIndent(doc, "", " ")
	if err != nil {
		return err
	}
	if err := os.MkdirAll(dir, 0o755); err != nil {
		return err
	}
	return os.WriteFile(filepath.Join(dir, e.ID+".json"), append(data, '\n'), 0o644)
}
