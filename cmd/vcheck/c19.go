package main

import (
	"fmt"
	"sort"
	"strings"
	"sync"
	"time"

	"verif/internal/decode"
	"verif/internal/evidence"
	"verif/internal/gram"
	"verif/internal/hc"
	"verif/internal/lexspec"
	"verif/internal/oracle/lexref"
	"verif/internal/oracle/rx"
	"verif/internal/rng"
	"verif/internal/run"
)

func init() { register("C19", checkC19) }

type c19Case struct {
	PCase
	Names   []string // terminals in documented order; constant value = index + 2
	Lex     *lexspec.Spec
	Ref     *lexref.Lexer
	Used    map[int]bool // token indices referenced by the parser
	Samples []c19Sample
}

type c19Sample struct {
	Input string
	Want  []int // token types expected from the driver (before EOF)
}

func c19Lit(s string) lexspec.Rx { return lexspec.Lit{S: []rune(s)} }

// drawC19 builds a specification with many tokens, modes, @external lines and
// several files, and the numbering the documentation prescribes.
func drawC19(r *rng.R) *c19Case {
	cc := &c19Case{Used: map[int]bool{}}
	spec := &lexspec.Spec{}
	nTok := r.Intn(41)
	if r.Chance(1, 6) {
		nTok = r.Intn(4)
	} else if r.Chance(1, 8) {
		// token numbers above 255
		nTok = 260 + r.Intn(60)
	}
	nModes := r.Intn(4)
	if nTok < 2*nModes+1 {
		nModes = 0
	}
	tokName := func(i int) string {
		switch i % 4 {
		case 0:
			return fmt.Sprintf("T%d", i)
		case 1:
			return fmt.Sprintf("KW_%d", i)
		case 2:
			return fmt.Sprintf("A%dB", i)
		}
		return fmt.Sprintf("Z_%d_X", i)
	}
	modeNames := []string{"Beta", "Alpha", "Gamma"}
	// plan entries: default tokens, mode blocks, externals, emit-only
	type entry struct {
		e     lexspec.Entry
		names []string // terminals it declares, in order
	}
	var entries []entry
	next := 0
	mkTok := func(extra ...lexspec.Action) (lexspec.Rule, string) {
		name := tokName(next)
		lit := fmt.Sprintf("k%d;", next)
		next++
		return lexspec.Rule{Kind: lexspec.RToken, Name: name, Rx: c19Lit(lit), Actions: extra}, lit
	}
	perMode := 0
	if nModes > 0 {
		perMode = (nTok / 3) / nModes
	}
	modeTokens := nModes * (perMode + 2) // members + enter + pop
	nDefault := nTok - modeTokens
	if nDefault < 0 {
		nDefault = 0
	}
	for i := 0; i < nDefault; i++ {
		ru, lit := mkTok()
		entries = append(entries, entry{lexspec.Entry{Rule: &ru}, []string{ru.Name}})
		cc.Samples = append(cc.Samples, c19Sample{Input: lit, Want: []int{-1 - (next - 1)}})
	}
	for m := 0; m < nModes; m++ {
		mn := modeNames[m]
		enter, elit := mkTok(lexspec.Action{Kind: lexspec.APush, Arg: mn})
		enterIdx := next - 1
		entries = append(entries, entry{lexspec.Entry{Rule: &enter}, []string{enter.Name}})
		md := &lexspec.Mode{Name: mn}
		var names []string
		pop, plit := mkTok(lexspec.Action{Kind: lexspec.APop})
		popIdx := next - 1
		md.Rules = append(md.Rules, pop)
		names = append(names, pop.Name)
		for k := 0; k < perMode; k++ {
			ru, lit := mkTok()
			md.Rules = append(md.Rules, ru)
			names = append(names, ru.Name)
			cc.Samples = append(cc.Samples, c19Sample{Input: elit + lit + plit, Want: []int{-1 - enterIdx, -1 - (next - 1), -1 - popIdx}})
		}
		if perMode == 0 {
			cc.Samples = append(cc.Samples, c19Sample{Input: elit + plit, Want: []int{-1 - enterIdx, -1 - popIdx}})
		}
		if r.Chance(1, 2) {
			md.Rules = append(md.Rules, lexspec.Rule{Kind: lexspec.RFrag, Rx: c19Lit(" "), Actions: []lexspec.Action{{Kind: lexspec.ADiscard}}})
		}
		entries = append(entries, entry{lexspec.Entry{Mode: md}, names})
	}
	// externals
	nExt := r.Intn(4)
	for i := 0; i < nExt; i++ {
		k := r.Range(1, 3)
		var ns []string
		for j := 0; j < k; j++ {
			ns = append(ns, fmt.Sprintf("EXT_%d_%d", i, j))
		}
		entries = append(entries, entry{lexspec.Entry{Rule: &lexspec.Rule{Kind: lexspec.RExternal, Names: ns}}, ns})
	}
	// a token that is only ever produced through @emit: declared inside a mode
	// that is never entered, emitted by a fragment of the default mode
	if r.Chance(1, 2) {
		hidden, _ := mkTok()
		hiddenIdx := next - 1
		md := &lexspec.Mode{Name: "Never", Rules: []lexspec.Rule{hidden}}
		entries = append(entries, entry{lexspec.Entry{Mode: md}, []string{hidden.Name}})
		fr := lexspec.Rule{Kind: lexspec.RFrag, Rx: c19Lit(fmt.Sprintf("e%d;", hiddenIdx)), Actions: []lexspec.Action{{Kind: lexspec.AEmit, Arg: hidden.Name}}}
		entries = append(entries, entry{lexspec.Entry{Rule: &fr}, nil})
		cc.Samples = append(cc.Samples, c19Sample{Input: fmt.Sprintf("e%d;", hiddenIdx), Want: []int{-1 - hiddenIdx}})
	}
	if r.Chance(1, 2) {
		ws := lexspec.Rule{Kind: lexspec.RFrag, Rx: c19Lit(" "), Actions: []lexspec.Action{{Kind: lexspec.ADiscard}}}
		entries = append(entries, entry{lexspec.Entry{Rule: &ws}, nil})
	}
	// shuffle the order of appearance
	perm := r.Perm(len(entries))
	shuffled := make([]entry, len(entries))
	for i, p := range perm {
		shuffled[i] = entries[p]
	}
	entries = shuffled
	// the constant of a token depends on where it appears: recompute
	valueOf := map[string]int{}
	for _, e := range entries {
		for _, n := range e.names {
			valueOf[n] = len(cc.Names) + 2
			cc.Names = append(cc.Names, n)
		}
		spec.Entries = append(spec.Entries, e.e)
	}
	// samples were recorded with provisional (negative) ids = creation index
	created := map[int]string{}
	for i := 0; i < next; i++ {
		created[i] = tokName(i)
	}
	for si := range cc.Samples {
		for k, w := range cc.Samples[si].Want {
			cc.Samples[si].Want[k] = valueOf[created[-1-w]]
		}
	}
	cc.Lex = spec
	cc.Ref = spec.Compile(rx.NewCtx())
	// split into files
	nFiles := r.Range(1, 3)
	if len(entries) < nFiles {
		nFiles = 1
	}
	cuts := []int{0}
	for f := 1; f < nFiles; f++ {
		cuts = append(cuts, r.Range(cuts[len(cuts)-1], len(entries)))
	}
	cuts = append(cuts, len(entries))
	render := func(es []lexspec.Entry) string {
		s := &lexspec.Spec{Entries: es}
		t, _ := s.Lox()
		return t
	}
	g := &gram.Grammar{WithLex: true, OtherFiles: map[string]string{}}
	fileNames := []string{"a_first.lox", "b_second.lox"}
	for f := 0; f < nFiles; f++ {
		text := render(spec.Entries[cuts[f]:cuts[f+1]])
		if f == nFiles-1 {
			g.CustomLexer = text
		} else {
			g.OtherFiles[fileNames[f]] = text
		}
	}
	// grammar tokens = all terminals in documented order (constants follow)
	for _, n := range cc.Names {
		g.Tokens = append(g.Tokens, gram.Token{Name: n})
	}
	// parser over a subset of the real tokens
	var usable []int
	for i, n := range cc.Names {
		if !strings.HasPrefix(n, "EXT_") {
			usable = append(usable, i)
		}
	}
	item := gram.Rule{Name: "item"}
	for _, i := range usable {
		if r.Chance(1, 2) && len(item.Prods) < 12 {
			cc.Used[i] = true
			item.Prods = append(item.Prods, gram.Prod{Terms: []gram.Term{{Ref: gram.Ref{Kind: gram.KTok, Idx: i}}}})
		}
	}
	if len(item.Prods) == 0 {
		g.Rules = []gram.Rule{{Name: "s", Prods: []gram.Prod{{}}}}
	} else {
		g.Rules = []gram.Rule{
			{Name: "s", Prods: []gram.Prod{{Terms: []gram.Term{{Ref: gram.Ref{Kind: gram.KRule, Idx: 1}, Sugar: gram.Star}}}}},
			item,
		}
	}
	g.Start = 0
	cc.G = g
	cc.Origin = fmt.Sprintf("tokens=%d modes=%d externals=%d files=%d", next, nModes, nExt, nFiles)
	cc.prepare()
	return cc
}

func checkC19(c *Ctx) error {
	c.Ev = evidence.New("C19", c.Tier, c.Seed, "exploration",
		"specifications with 0-40 tokens (one in ten with 260-320, so that token numbers pass 255), 0-3 modes (plus a never-entered mode whose token is produced only through @emit), @external lines before, between and after tokens, spread over 1-3 files, with a parser that references a random subset of the tokens. Expected numbering: EOF=0, ERROR=1, then tokens and @external names in order of appearance over the files in lexical file order (mode members at the mode's position), dense. Observed: (a) the const block of base.gen.go read back from the file (names, values, order, nothing else); (b) the generated constants and _TokenToString called inside the compiled package for every constant and for -1, n, n+1, 2^30, MinInt32; (c) the token types the real state machine and driver produce for one sample input per token (accept parameters of the lexer tables); (d) the generated parser fed with each terminal by number: accepted iff the parser references that token (keys of the action rows). Non-trivial: specifications with at least 3 terminals besides EOF/ERROR; distinct by specification text.")
	c.Ev.Assumptions = []string{
		"'declaration order' = order of appearance over the .lox files sorted by file name, which is the order lox reads them in",
		"@external names are not referenced from parser rules here",
	}
	nBatches := c.N(3, 40)
	nCLI := c.N(1, 6)
	fastOK := true
	var mu sync.Mutex
	doBatch := func(bi int) {
		r := c.R.Derive("batch", bi)
		var cases []*c19Case
		var pcs []*PCase
		for len(cases) < 28 {
			cc := drawC19(r)
			cases = append(cases, cc)
			pcs = append(pcs, &cc.PCase)
		}
		mu.Lock()
		fast := bi >= nCLI && fastOK
		mu.Unlock()
		b, err := genBatch(c, pcs, fast, false)
		if err != nil {
			c.Inconclusive("batch-build-failed")
			c.Logf("batch %d: %v", bi, err)
			return
		}
		defer b.Remove()
		if bi == 0 {
			ok := crossCheckFast(c, pcs)
			mu.Lock()
			fastOK = ok
			mu.Unlock()
		}
		c19RunBatch(c, b, cases)
	}
	doBatch(0)
	parallel(nBatches-1, 4, func(i int) { doBatch(i + 1) })
	c.nontrivMin = 40
	return nil
}

func c19RunBatch(c *Ctx, b *run.Batch, cases []*c19Case) {
	var jobs []hc.Job
	for i, cc := range cases {
		if !cc.Pkg.GenOK {
			c.Violation("valid-spec-rejected", cc.replay(fmt.Sprintf("lox rejected a well-formed specification (a missing or misnamed token constant also ends here, because the harness refers to every expected constant by name); exit %d:\n%s", cc.Pkg.Exit, cc.Pkg.Diag), nil, nil, nil))
			continue
		}
		if cc.Pkg.BuildErr != "" {
			c.Violation("generated-code-does-not-compile", cc.replay(cc.Pkg.BuildErr, nil, nil, nil))
			continue
		}
		jobs = append(jobs, run.MkJob(3*i, cc.Pkg.Name, "consts", nil))
		var ins [][]byte
		for _, s := range cc.Samples {
			ins = append(ins, []byte(s.Input))
		}
		jobs = append(jobs, run.MkJob(3*i+1, cc.Pkg.Name, "lex", hc.LexJob{Inputs: ins}))
		var many [][]int
		for k := range cc.Names {
			many = append(many, []int{k + 2})
		}
		many = append(many, []int{len(cc.Names) + 2}, []int{1})
		jobs = append(jobs, run.MkJob(3*i+2, cc.Pkg.Name, "enum", hc.EnumJob{Many: many}))
	}
	results, _, err := b.RunAll(jobs, 3*time.Minute, 20)
	if err != nil {
		c.Inconclusive("batch-run-failed")
	}
	for i, cc := range cases {
		if !cc.Pkg.GenOK || cc.Pkg.BuildErr != "" {
			continue
		}
		c.Ev.Eval(1)
		fail := func(kind, why string, exp, obs any) {
			c.Violation(kind, cc.replay(kind+": "+why, nil, exp, obs))
		}
		want := append([]string{"EOF", "ERROR"}, cc.Names...)
		// (a) const block
		gen := cc.Pkg.ReadGen()
		f, err := decode.Parse(gen["base.gen.go"])
		if err != nil {
			fail("base-gen-unreadable", err.Error(), nil, nil)
			continue
		}
		okA := len(f.ConstOrder) == len(want)
		for k := 0; okA && k < len(want); k++ {
			if f.ConstOrder[k] != want[k] || f.Consts[want[k]] != int64(k) {
				okA = false
			}
		}
		if !okA {
			got := []string{}
			for _, n := range f.ConstOrder {
				got = append(got, fmt.Sprintf("%s=%d", n, f.Consts[n]))
			}
			exp := []string{}
			for k, n := range want {
				exp = append(exp, fmt.Sprintf("%s=%d", n, k))
			}
			fail("constants-differ-from-documented-numbering", "const block of base.gen.go", exp, got)
			continue
		}
		// (b) values and names inside the compiled package
		type constsRes struct {
			Consts map[string]int    `json:"consts"`
			Names  map[string]string `json:"names"`
			Probe  map[string]string `json:"probe"`
		}
		cr, err := decodeRes[constsRes](results[3*i])
		if err != nil {
			c.Inconclusive("job-no-result")
			continue
		}
		bad := ""
		for k, n := range want {
			if cr.Consts[n] != k {
				bad = fmt.Sprintf("constant %s = %d, expected %d", n, cr.Consts[n], k)
			}
			if cr.Names[n] != n {
				bad = fmt.Sprintf("_TokenToString(%s) = %q", n, cr.Names[n])
			}
		}
		for v, s := range cr.Probe {
			var vi int
			fmt.Sscan(v, &vi)
			if vi >= 0 && vi < len(want) {
				if s != want[vi] {
					bad = fmt.Sprintf("_TokenToString(%s) = %q, expected %q", v, s, want[vi])
				}
			} else if s != "???" {
				bad = fmt.Sprintf("_TokenToString(%s) = %q, expected \"???\"", v, s)
			}
		}
		if bad != "" {
			fail("token-to-string-or-constant-wrong", bad, nil, cr)
			continue
		}
		// (c) lexer emits the same numbers
		lr, err := decodeRes[hc.LexRes](results[3*i+1])
		if err != nil || len(lr.Runs) != len(cc.Samples) {
			c.Inconclusive("job-no-result")
			continue
		}
		okC := true
		for k, s := range cc.Samples {
			var got []int
			for _, t := range lr.Runs[k].Toks {
				if t[0] != 0 {
					got = append(got, t[0])
				}
			}
			if fmt.Sprint(got) != fmt.Sprint(s.Want) {
				fail("lexer-emits-different-token-numbers", fmt.Sprintf("input %q", s.Input), s.Want, got)
				okC = false
				break
			}
			c.Ev.Count("token_samples_lexed", 1)
		}
		if !okC {
			continue
		}
		// (d) parser keyed by the same numbers
		er, err := decodeRes[hc.EnumRes](results[3*i+2])
		if err != nil || len(er.V) != len(cc.Names)+2 {
			c.Inconclusive("job-no-result")
			continue
		}
		okD := true
		for k := range cc.Names {
			acc := er.V[k] == "A"
			if acc != cc.Used[k] {
				fail("parser-keyed-by-different-token-numbers", fmt.Sprintf("terminal %s (=%d): accepted=%v, referenced by the parser=%v", cc.Names[k], k+2, acc, cc.Used[k]), cc.Used[k], er.V[k])
				okD = false
				break
			}
			c.Ev.Count("terminals_fed_to_parser", 1)
		}
		if !okD {
			continue
		}
		if len(cc.Names) >= 3 {
			c.Ev.Distinct(cc.Lox + fmt.Sprint(cc.G.OtherFiles))
		}
		if c.Ev.WantSample() {
			keys := []string{}
			for fn := range cc.Files {
				if strings.HasSuffix(fn, ".lox") {
					keys = append(keys, fn)
				}
			}
			sort.Strings(keys)
			c.Ev.Sample(map[string]any{"files": keys, "origin": cc.Origin, "constants": want, "main_file": cc.Lox})
		}
	}
}
