package main

import (
	"crypto/sha256"
	"fmt"
	"strings"
	"sync"
	"time"

	"github.com/dcaiafa/lox/verifhook"

	"verif/internal/evidence"
	"verif/internal/gram"
	"verif/internal/hc"
	"verif/internal/oracle/cfg"
	"verif/internal/oracle/lalr"
	"verif/internal/rng"
	"verif/internal/run"
	"verif/internal/specgen"
)

func init() { register("C05", checkC05) }

type c05Case struct {
	PCase
	ES *specgen.ExprSpec
}

// pratt is the precedence-climbing reference. It returns a canonical
// S-expression of the grouping. If allLeft is true every @right level is read
// as @left (used only by the known-finding matcher).
type pratt struct {
	es      *specgen.ExprSpec
	toks    []int // token types
	pos     int
	level   map[int]int  // token type -> level
	right   map[int]bool // token type -> right assoc
	allLeft bool
	err     bool
}

func newPratt(es *specgen.ExprSpec, toks []int, allLeft bool) *pratt {
	p := &pratt{es: es, toks: toks, level: map[int]int{}, right: map[int]bool{}, allLeft: allLeft}
	for li, lv := range es.Levels {
		for _, op := range lv.Ops {
			p.level[gram.TokType(op)] = li + 1
			p.right[gram.TokType(op)] = lv.Right
		}
	}
	return p
}

func (p *pratt) peek() int {
	if p.pos < len(p.toks) {
		return p.toks[p.pos]
	}
	return 0
}

func (p *pratt) primary() string {
	es := p.es
	t := p.peek()
	switch {
	case t == gram.TokType(es.Num):
		p.pos++
		s := fmt.Sprintf("n#%d", p.pos)
		if es.Call {
			for p.peek() == gram.TokType(es.CallLP) {
				p.pos += 2
				s = fmt.Sprintf("call(%s #%d #%d)", s, p.pos-1, p.pos)
			}
			s = "unit(" + s + ")"
		}
		return s
	case es.LP >= 0 && t == gram.TokType(es.LP):
		p.pos++
		open := p.pos
		in := p.expr(1)
		if p.peek() != gram.TokType(es.RP) {
			p.err = true
			return "?"
		}
		p.pos++
		return fmt.Sprintf("paren(#%d %s #%d)", open, in, p.pos)
	}
	p.err = true
	return "?"
}

func (p *pratt) expr(min int) string {
	left := p.primary()
	for !p.err {
		op := p.peek()
		lvl, ok := p.level[op]
		if !ok || lvl < min {
			break
		}
		p.pos++
		opSeq := p.pos
		var rhs string
		if p.right[op] && !p.allLeft {
			rhs = p.expr(lvl)
		} else {
			rhs = p.expr(lvl + 1)
		}
		left = fmt.Sprintf("(%s #%d %s)", left, opSeq, rhs)
	}
	return left
}

// canonObserved renders the tree the actions built in the same notation.
func canonObserved(nodes map[int]hc.Event, a hc.Arg) string {
	switch a.K {
	case "t":
		return fmt.Sprintf("#%d", a.V)
	case "n":
		e := nodes[a.V]
		kinds := ""
		for _, x := range e.Args {
			kinds += x.K
		}
		switch kinds {
		case "ntn":
			return fmt.Sprintf("(%s #%d %s)", canonObserved(nodes, e.Args[0]), e.Args[1].V, canonObserved(nodes, e.Args[2]))
		case "tnt":
			return fmt.Sprintf("paren(#%d %s #%d)", e.Args[0].V, canonObserved(nodes, e.Args[1]), e.Args[2].V)
		case "t":
			return fmt.Sprintf("n#%d", e.Args[0].V)
		case "n":
			return "unit(" + canonObserved(nodes, e.Args[0]) + ")"
		case "ntt":
			return fmt.Sprintf("call(%s #%d #%d)", canonObserved(nodes, e.Args[0]), e.Args[1].V, e.Args[2].V)
		case "l":
			parts := []string{}
			for _, x := range e.Args[0].L {
				parts = append(parts, canonObserved(nodes, x))
			}
			return "list[" + strings.Join(parts, " ; ") + "]"
		}
		return "?" + kinds
	}
	return "?" + a.K
}

func checkC05(c *Ctx) error {
	c.Ev = evidence.New("C05", c.Tier, c.Seed, "exploration",
		"operator tables: 1-3 levels, each level @left or @right, 1-2 binary operators per level, atoms, optional parentheses, optional call syntax in a lower (unqualified) rule, optionally below a @list start rule; inputs: the shortest sentences plus random operator/operand chains up to 25 tokens. Runtime oracle: the tree built by the real actions (rebuilt from the recorded action log) must equal the grouping of a precedence-climbing parser over the same table. Table oracle (volume, through the lr1 hook): every cell decided by equal-level associativity must shift for @right and reduce for @left; in tables with an operator-shaped alternative that carries no qualifier (prefix, postfix, index or binary) the cells in which it meets the qualified ones must keep all their candidate actions (unqualified alternatives take no part in precedence resolution), and so must cells whose shift is wanted by alternatives of different levels. Non-trivial: inputs with at least two binary operators; distinct by table+input.")
	c.Ev.Assumptions = []string{
		"precedence climbing: higher n binds tighter; equal level: @left groups left-to-right, @right right-to-left",
		"tables whose shifting productions carry different levels or whose levels mix associativity are skipped (unspecified)",
	}
	var mu sync.Mutex
	stats := map[string]int{}

	// ---- table level, volume (P0) -----------------------------------------
	nP0 := c.N(3000, 60000)
	parallel(8, 8, func(w int) {
		r := c.R.Derive("p0", w)
		for i := 0; i < nP0/8; i++ {
			tw := ""
			if r.Chance(1, 6) {
				// "unqualified alternatives are unaffected": an operator-shaped
				// alternative without a qualifier takes no part in precedence
				// resolution, its conflicts with the qualified ones stay
				// likewise an operator that two alternatives of different
				// levels both want to shift: no level decides, the cell stays
				tw = []string{"unqualified-prefix", "unqualified-postfix", "unqualified-op", "mixed-shift-levels", "unqualified-shares-operator"}[r.Intn(5)]
			}
			es := specgen.ExprGrammar(r, tw)
			cf := es.G.Desugar(false)
			tbl, err := lalr.Build(toLalr(cf), 3000)
			if err != nil {
				continue
			}
			rr := resolveRef(tbl, cf)
			if tw != "" && !rr.Unspecified && len(rr.Unresolved) > 0 {
				var d *verifhook.ParserDump
				c.Guard("lr1.ConstructLALR on the grammar in g.lox", map[string]string{"g.lox": loxOf(es.G)}, func() { d = verifhook.BuildLALR(hookSpec(cf)) })
				c.Ev.Eval(1)
				c.Ev.Count("tables_with_unqualified_operator_alternative", 1)
				c.Ev.Distinct(loxOf(es.G))
				diff, _, _ := compareAutomata2(tbl, rr, cf, d, false)
				if diff == "" && !d.HasConflicts {
					diff = "the table is reported free of conflicts"
				}
				if diff != "" {
					kind := "unqualified-alternative-took-part-in-precedence/"
					if tw == "mixed-shift-levels" {
						kind = "cell-settled-although-the-shifting-alternatives-disagree-on-the-level/"
					}
					c.Violation(kind+tw, &Replay{Why: "lr1.ConstructLALR: " + diff, Files: map[string]string{"g.lox": loxOf(es.G)}})
				}
				continue
			}
			if rr.Unspecified || len(rr.Unresolved) > 0 {
				mu.Lock()
				stats["tables_skipped_unspecified_or_conflicting"]++
				mu.Unlock()
				continue
			}
			var d *verifhook.ParserDump
			c.Guard("lr1.ConstructLALR on the grammar in g.lox", map[string]string{"g.lox": loxOf(es.G)}, func() { d = verifhook.BuildLALR(hookSpec(cf)) })
			c.Ev.Eval(1)
			diff, _, mism := compareAutomata2(tbl, rr, cf, d, false)
			lox, _ := es.G.Lox()
			if diff != "" {
				c.Violation("operator-table-differs", &Replay{Why: "lr1.ConstructLALR: " + diff, Files: map[string]string{"g.lox": lox}})
				continue
			}
			c.Ev.Count("equal_level_cells_checked", rr.Kinds["resolved-by-associativity"])
			c.Ev.Count("level_cells_checked", rr.Kinds["resolved-by-level"])
			for _, mm := range mism {
				if mm.Right && mm.Got == 1 && c.KnownFinding("right-assoc-equal-level") {
					continue
				}
				c.Violation("equal-level-cell-wrong-direction", &Replay{Why: fmt.Sprintf("state I%d on %s: documented associativity (%s) wants %s, the table has %s",
					mm.State, cf.SymName(mm.Terminal), map[bool]string{true: "@right", false: "@left"}[mm.Right], kindName(mm.Want), kindName(mm.Got)), Files: map[string]string{"g.lox": lox}})
			}
		}
	})
	c.Logf("table level done: %d tables", c.Ev.Evals())

	// ---- run time: trees built by the generated parser ----------------------
	nBatches := c.N(2, 24)
	nCLI := c.N(1, 4)
	per := 30
	seen := map[[32]byte]bool{}
	fastOK := true
	doBatch := func(bi int) {
		r := c.R.Derive("batch", bi)
		var cs []*c05Case
		var pcs []*PCase
		for tries := 0; len(cs) < per && tries < 5000; tries++ {
			es := specgen.ExprGrammar(r, "")
			if es.Unary >= 0 {
				continue
			}
			cc := &c05Case{ES: es}
			cc.G = es.G
			cc.Origin = "expr"
			cc.C = es.G.Desugar(false)
			tbl, err := lalr.Build(toLalr(cc.C), 3000)
			if err != nil {
				continue
			}
			rr := resolveRef(tbl, cc.C)
			if rr.Unspecified || len(rr.Unresolved) > 0 {
				continue
			}
			cc.Ref = tbl
			cc.Eng = cfg.New(toCfg(cc.C))
			cc.prepare()
			k := sha256.Sum256([]byte(cc.Lox))
			mu.Lock()
			dup := seen[k]
			seen[k] = true
			mu.Unlock()
			if dup {
				continue
			}
			cs = append(cs, cc)
			pcs = append(pcs, &cc.PCase)
		}
		mu.Lock()
		fast := bi >= nCLI && fastOK
		mu.Unlock()
		b, err := genBatch(c, pcs, fast, false)
		if err != nil {
			c.Inconclusive("batch-build-failed")
			c.Logf("batch: %v", err)
			return
		}
		defer b.Remove()
		if bi == 0 {
			ok := crossCheckFast(c, pcs)
			mu.Lock()
			fastOK = ok
			mu.Unlock()
		}
		c05RunBatch(c, r, b, cs)
	}
	doBatch(0)
	parallel(nBatches-1, 4, func(i int) { doBatch(i + 1) })
	mu.Lock()
	for k, v := range stats {
		c.Ev.Set(k, v)
	}
	mu.Unlock()
	c.nontrivMin = 300
	return nil
}

func c05RunBatch(c *Ctx, r *rng.R, b *run.Batch, cs []*c05Case) {
	type item struct {
		cc *c05Case
		w  []int
	}
	items := map[int]*item{}
	var jobs []hc.Job
	id := 0
	for i, cc := range cs {
		if !cc.Pkg.GenOK {
			c.Violation("operator-grammar-rejected", cc.replay(fmt.Sprintf("lox rejected an operator grammar whose conflicts are all settled by the documented rule (exit %d):\n%s", cc.Pkg.Exit, cc.Pkg.Diag), nil, nil, nil))
			continue
		}
		if cc.Pkg.BuildErr != "" {
			c.Violation("generated-code-does-not-compile", cc.replay(cc.Pkg.BuildErr, nil, nil, nil))
			continue
		}
		c.Ev.Count("operator_tables_run", 1)
		rr := r.Derive("inputs", i)
		var ws [][]int
		cc.Eng.Enumerate(7, c.N(60, 200), func(w []int) bool { ws = append(ws, w); return true })
		for k := 0; k < c.N(60, 200); k++ {
			if w := cc.Eng.RandomSentence(rr.Intn, 5+rr.Intn(21)); w != nil {
				ws = append(ws, w)
			}
		}
		for _, w := range ws {
			pj := hc.ParseJob{Rec: true}
			for _, t := range w {
				pj.Toks = append(pj.Toks, [2]int{t, 0})
			}
			id++
			items[id] = &item{cc: cc, w: w}
			jobs = append(jobs, run.MkJob(id, cc.Pkg.Name, "parse", pj))
		}
	}
	if len(jobs) == 0 {
		return
	}
	results, suspects, err := b.RunAll(jobs, 3*time.Minute, 20)
	if err != nil {
		c.Inconclusive("batch-run-failed")
	}
	for range suspects {
		c.Inconclusive("job-crashed-or-hung")
	}
	nv := map[*c05Case]int{}
	for jid, it := range items {
		cc := it.cc
		res, err := decodeRes[hc.ParseRes](results[jid])
		if err != nil {
			c.Inconclusive("job-no-result")
			continue
		}
		c.Ev.Eval(1)
		report := func(kind, why string, exp, obs any) {
			nv[cc]++
			if nv[cc] > 2 {
				c.mu.Lock()
				c.nviol++
				c.violKinds[kind]++
				c.mu.Unlock()
				return
			}
			pj := hc.ParseJob{Rec: true}
			for _, t := range it.w {
				pj.Toks = append(pj.Toks, [2]int{t, 0})
			}
			c.Violation(kind, cc.replay(fmt.Sprintf("%s: input [%s]: %s", kind, tokString(cc.G, it.w), why), []hc.Job{run.MkJob(1, "", "parse", pj)}, exp, obs))
		}
		if !res.OK || res.NErr > 0 || res.Panic != "" || res.Stop != "" {
			report("sentence-not-parsed", fmt.Sprintf("ok=%v stop=%q panic=%q", res.OK, res.Stop, firstLine(res.Panic)), nil, nil)
			continue
		}
		nodes := map[int]hc.Event{}
		last := 0
		for _, e := range res.Events {
			if e.K == "a" {
				nodes[e.Ret] = e
				last = e.Ret
			}
		}
		obs := canonObserved(nodes, hc.Arg{K: "n", V: last})
		want := c05Expected(cc.ES, it.w, false)
		nops := strings.Count(want, "(") - strings.Count(want, "paren(") - strings.Count(want, "call(") - strings.Count(want, "unit(")
		if nops >= 2 {
			c.Ev.Distinct(cc.Lox + tokString(cc.G, it.w))
		}
		if obs == want {
			c.Ev.Count("trees_matching_precedence_climbing", 1)
			if c.Ev.WantSample() && nops >= 2 {
				c.Ev.Sample(map[string]any{"lox": cc.Lox, "input": tokString(cc.G, it.w), "tree": obs})
			}
			continue
		}
		// Known finding: @right(n) chains group left-to-right. Matcher: the
		// observed tree is exactly the precedence-climbing tree with every
		// @right level read as @left.
		if alt := c05Expected(cc.ES, it.w, true); alt == obs && alt != want && c.KnownFinding("right-assoc-equal-level") {
			continue
		}
		report("wrong-grouping", "tree built by the actions differs from precedence climbing", want, obs)
	}
}

// c05Expected renders the precedence-climbing grouping of w.
func c05Expected(es *specgen.ExprSpec, w []int, allLeft bool) string {
	p := newPratt(es, w, allLeft)
	isList := es.G.Start != es.ExprRule
	if !isList {
		s := p.expr(1)
		if p.err || p.pos != len(w) {
			return "?reference-failed"
		}
		return s
	}
	// prog = @list(expr, SEMI)
	semi := gram.TokType(len(es.G.Tokens) - 1)
	parts := []string{}
	for {
		parts = append(parts, p.expr(1))
		if p.err {
			return "?reference-failed"
		}
		if p.peek() == semi {
			p.pos++
			continue
		}
		break
	}
	if p.pos != len(w) {
		return "?reference-failed"
	}
	return "list[" + strings.Join(parts, " ; ") + "]"
}
