package hc

import (
	"crypto/sha256"
	"encoding/json"
	"fmt"
	"runtime"
	"sync"
	"sync/atomic"
)

// ConcJob: kind "conc". All sub-jobs are run Rounds times on Goroutines
// goroutines at once, starting cold (nothing of the generated packages has
// run in this process before the first round, so lazily initialised shared
// state is first touched concurrently); only afterwards is every sub-job run
// alone, one after another, for the baseline its concurrent observations are
// compared with. Scheduling points (runtime.Gosched) are injected in
// ReadToken, in actions and in PushRune from a per-goroutine PRNG.
//
// Even rounds are "quiet": the harness shares nothing between the goroutines
// (static partition of the work, per-goroutine result slices and counters), so
// that it adds no happens-before edges that would hide a race from the race
// detector. Odd rounds are "counted": shared atomic counters measure how the
// goroutines actually interleaved (switches between monitored events, jobs in
// flight) for the evidence.
type ConcSub struct {
	Pkg   string   `json:"pkg"`
	Lex   bool     `json:"lex,omitempty"`
	Toks  [][2]int `json:"toks,omitempty"`
	Input []byte   `json:"input,omitempty"`
}

type ConcJob struct {
	Subs       []ConcSub `json:"subs"`
	Goroutines int       `json:"goroutines"`
	Rounds     int       `json:"rounds"`
	Seed       uint64    `json:"seed"`
}

type ConcMismatch struct {
	Sub      int    `json:"sub"`
	Baseline string `json:"baseline"`
	Observed string `json:"observed"`
}

type ConcRes struct {
	Runs        int            `json:"runs"`
	Mismatches  []ConcMismatch `json:"mismatches,omitempty"`
	MaxInFlight int            `json:"max_in_flight"`
	Switches    int64          `json:"switches"`  // consecutive monitored events that belong to different goroutines
	Events      int64          `json:"events"`    // monitored events (ReadToken, action, PushRune) during the concurrent phase
	Patterns    int            `json:"patterns"`  // distinct per-round interleaving signatures
	PkgsUsed    map[string]int `json:"pkgs_used"`
}

type yielder struct {
	s       uint64
	gid     int64
	counted bool
	nev     int64
	last    *int64
	sw      *int64
}

func (y *yielder) yield() {
	y.nev++
	if y.counted {
		if prev := atomic.SwapInt64(y.last, y.gid); prev != y.gid {
			atomic.AddInt64(y.sw, 1)
		}
	}
	y.s += 0x9E3779B97F4A7C15
	z := y.s
	z = (z ^ (z >> 30)) * 0xBF58476D1CE4E5B9
	z ^= z >> 27
	if z%4 == 0 {
		runtime.Gosched()
	}
}

func runSub(reg map[string]*Entry, s *ConcSub, y *yielder) string {
	e := reg[s.Pkg]
	if e == nil {
		return "unknown package"
	}
	var out any
	if s.Lex {
		if e.Lex == nil {
			return "no lexer"
		}
		var yf func()
		if y != nil {
			yf = y.yield
		}
		r := runLexY(e.Lex, s.Input, yf)
		out = r
	} else {
		toks := make([]Token, len(s.Toks))
		for i, t := range s.Toks {
			toks[i] = Token{Type: t[0], Seq: i + 1, D: t[1] != 0}
		}
		var yf func()
		if y != nil {
			yf = y.yield
		}
		r := runParseY(e, toks, yf)
		r.States, r.Methods = nil, nil
		out = r
	}
	b, _ := json.Marshal(out)
	h := sha256.Sum256(b)
	return fmt.Sprintf("%x", h[:12])
}

func runParseY(e *Entry, toks []Token, yield func()) (res ParseRes) {
	h := NewH(toks, true)
	h.Yield = yield
	defer func() {
		if r := recover(); r != nil {
			if s, ok := r.(stop); ok {
				res.Stop = s.why
			} else {
				res.Panic = fmt.Sprintf("%v", r)
			}
		}
		res.NErr, res.Reads, res.Acts = h.NErr, h.Reads, h.Acts
		res.ErrSeqs = h.ErrSeqs
		res.Root = h.LastID
		res.Events = h.Events
	}()
	res.OK = e.Parse(h)
	return
}

func runLexY(e *LexEntry, input []byte, yield func()) LexRun {
	return runLexWith(e, input, true, 0, yield)
}

func runConc(reg map[string]*Entry, j *ConcJob) *ConcRes {
	res := &ConcRes{PkgsUsed: map[string]int{}}
	type obs struct {
		sub    int
		digest string
	}
	var last, sw int64
	var inflight, maxIn int64
	var all []obs
	patterns := map[string]bool{}
	n := len(j.Subs)
	for round := 0; round < j.Rounds; round++ {
		counted := round%2 == 1
		// which jobs run side by side changes from round to round
		perm := make([]int, n)
		for i := range perm {
			perm[i] = i
		}
		ps := j.Seed*31 + uint64(round)*0x9E3779B97F4A7C15
		for i := n - 1; i > 0; i-- {
			ps = ps*6364136223846793005 + 1442695040888963407
			k := int((ps >> 33) % uint64(i+1))
			perm[i], perm[k] = perm[k], perm[i]
		}
		var wg sync.WaitGroup
		outs := make([][]obs, j.Goroutines)
		evs := make([]int64, j.Goroutines)
		sw0 := atomic.LoadInt64(&sw)
		start := make(chan struct{})
		for g := 0; g < j.Goroutines; g++ {
			wg.Add(1)
			go func(g int) {
				defer wg.Done()
				y := &yielder{s: j.Seed + uint64(g)*1000003 + uint64(round)*7919, gid: int64(g + 1), counted: counted, last: &last, sw: &sw}
				<-start
				// static partition of this round's permutation
				for k := g; k < n; k += j.Goroutines {
					i := perm[k]
					if counted {
						m := atomic.AddInt64(&inflight, 1)
						for {
							cur := atomic.LoadInt64(&maxIn)
							if m <= cur || atomic.CompareAndSwapInt64(&maxIn, cur, m) {
								break
							}
						}
					}
					got := runSub(reg, &j.Subs[i], y)
					if counted {
						atomic.AddInt64(&inflight, -1)
					}
					outs[g] = append(outs[g], obs{i, got})
				}
				evs[g] = y.nev
			}(g)
		}
		close(start)
		wg.Wait()
		sig := []int64{atomic.LoadInt64(&sw) - sw0}
		for g := range outs {
			all = append(all, outs[g]...)
			res.Events += evs[g]
			res.Runs += len(outs[g])
			sig = append(sig, evs[g])
		}
		if counted {
			patterns[fmt.Sprint(sig)] = true
		}
	}
	// baseline, after the concurrent phase
	base := make([]string, n)
	for i := range j.Subs {
		base[i] = runSub(reg, &j.Subs[i], nil)
		res.PkgsUsed[j.Subs[i].Pkg]++
	}
	for _, o := range all {
		if o.digest != base[o.sub] && len(res.Mismatches) < 20 {
			res.Mismatches = append(res.Mismatches, ConcMismatch{Sub: o.sub, Baseline: base[o.sub], Observed: o.digest})
		}
	}
	res.MaxInFlight = int(maxIn)
	res.Switches = sw
	res.Patterns = len(patterns)
	return res
}
