package main

import (
	"fmt"
	"sort"
	"strings"

	"github.com/dcaiafa/lox/verifhook"

	"verif/internal/gram"
	"verif/internal/oracle/lalr"
)

// refAction is the action the documentation prescribes for a cell.
type refAction struct {
	Kind   int // 0 shift, 1 reduce, 2 accept
	Target int // shift: ref state; reduce: CFG production index
	// EqualLevel: the direction was decided by equal-level associativity
	// (that direction is C05's business; C04 compares only that the cell is
	// resolved).
	EqualLevel bool
}

// refResolution applies the documented precedence rule to the reference
// automaton: a cell is settled iff it holds exactly one shift and one reduce,
// every production wanting the shift and the reducing production are
// productions of one rule and all carry explicit qualifiers.
type refResolution struct {
	Actions     []map[int]refAction // per state: terminal -> action (only for settled or conflict-free cells)
	Unresolved  [][2]int            // cells that keep more than one action
	Unspecified bool                // one level mixes @left and @right in a cell decided by associativity
	Kinds       map[string]int      // census of conflict kinds
}

func resolveRef(tbl *lalr.Table, c *gram.CFG) *refResolution {
	rr := &refResolution{Kinds: map[string]int{}}
	for si := range tbl.States {
		st := &tbl.States[si]
		acts := map[int]refAction{}
		for term, cell := range st.Cells {
			if cell.Count() == 1 {
				switch {
				case cell.Accept:
					acts[term] = refAction{Kind: 2}
				case cell.Shift >= 0:
					acts[term] = refAction{Kind: 0, Target: cell.Shift}
				default:
					acts[term] = refAction{Kind: 1, Target: cell.Reduces[0]}
				}
				continue
			}
			// conflict cell
			if cell.Accept || cell.Shift < 0 || len(cell.Reduces) != 1 {
				if cell.Shift < 0 {
					rr.Kinds["reduce-reduce"]++
				} else {
					rr.Kinds["multi-way"]++
				}
				rr.Unresolved = append(rr.Unresolved, [2]int{si, term})
				continue
			}
			red := c.Prods[cell.Reduces[0]]
			ok := red.Prec > 0
			cross := false
			levels := map[int]bool{}
			for _, sp := range cell.ShiftProds {
				p := c.Prods[sp]
				if p.LHS != red.LHS {
					ok = false
					cross = true
				}
				if p.Prec <= 0 {
					ok = false
				}
				levels[p.Prec] = true
			}
			if !ok {
				if cross {
					rr.Kinds["shift-reduce-across-rules"]++
				} else {
					rr.Kinds["shift-reduce-unqualified"]++
				}
				rr.Unresolved = append(rr.Unresolved, [2]int{si, term})
				continue
			}
			if len(levels) > 1 {
				// The productions wanting the shift disagree on the level:
				// any choice would be a silent pick, the conflict stands.
				rr.Kinds["shift-levels-differ"]++
				rr.Unresolved = append(rr.Unresolved, [2]int{si, term})
				continue
			}
			shiftPrec := c.Prods[cell.ShiftProds[0]].Prec
			switch {
			case shiftPrec > red.Prec:
				acts[term] = refAction{Kind: 0, Target: cell.Shift}
				rr.Kinds["resolved-by-level"]++
			case shiftPrec < red.Prec:
				acts[term] = refAction{Kind: 1, Target: cell.Reduces[0]}
				rr.Kinds["resolved-by-level"]++
			default:
				// equal level: associativity; every production of the level
				// must agree
				right := red.Right
				for _, sp := range cell.ShiftProds {
					if c.Prods[sp].Right != right {
						rr.Unspecified = true
					}
				}
				rr.Kinds["resolved-by-associativity"]++
				if right {
					acts[term] = refAction{Kind: 0, Target: cell.Shift, EqualLevel: true}
				} else {
					acts[term] = refAction{Kind: 1, Target: cell.Reduces[0], EqualLevel: true}
				}
			}
		}
		rr.Actions = append(rr.Actions, acts)
	}
	sort.Slice(rr.Unresolved, func(i, j int) bool {
		if rr.Unresolved[i][0] != rr.Unresolved[j][0] {
			return rr.Unresolved[i][0] < rr.Unresolved[j][0]
		}
		return rr.Unresolved[i][1] < rr.Unresolved[j][1]
	})
	return rr
}

// symMap maps the dump's symbol numbering to the CFG's by name.
type symMap struct {
	term map[int]int // dump terminal -> cfg terminal
	rule map[int]int // dump rule -> cfg nonterminal index
	prod map[int]int // dump production -> cfg production index
}

func buildSymMap(c *gram.CFG, d *verifhook.ParserDump) (*symMap, error) {
	m := &symMap{term: map[int]int{}, rule: map[int]int{}, prod: map[int]int{}}
	tn := map[string]int{}
	for i, n := range c.TNames {
		tn[n] = i
	}
	for i, n := range d.Terminals {
		j, ok := tn[n]
		if !ok {
			return nil, fmt.Errorf("lox has a terminal %q the specification does not declare", n)
		}
		m.term[i] = j
	}
	if len(d.Terminals) != len(c.TNames) && !(len(c.TNames) == len(d.Terminals)+1 && c.ErrSym == c.NumT-1) {
		return nil, fmt.Errorf("lox has %d terminals, the specification %d", len(d.Terminals), len(c.TNames))
	}
	nn := map[string]int{}
	for i, n := range c.NTs {
		nn[n] = i
	}
	for i, n := range d.Rules {
		if i == 0 {
			continue // S'
		}
		j, ok := nn[n]
		if !ok {
			return nil, fmt.Errorf("lox has a rule %q that the documented desugaring does not produce", n)
		}
		m.rule[i] = j
	}
	if len(d.Rules)-1 != len(c.NTs) {
		return nil, fmt.Errorf("lox has %d rules, the documented desugaring %d", len(d.Rules)-1, len(c.NTs))
	}
	// productions by structure
	key := func(lhs int, rhs []int) string {
		var sb strings.Builder
		fmt.Fprintf(&sb, "%d:", lhs)
		for _, s := range rhs {
			fmt.Fprintf(&sb, "%d,", s)
		}
		return sb.String()
	}
	byKey := map[string][]int{}
	for i, p := range c.Prods {
		k := key(p.LHS, p.RHS)
		byKey[k] = append(byKey[k], i)
	}
	used := map[int]bool{}
	for i, p := range d.Prods {
		if i == 0 {
			continue
		}
		rhs := make([]int, len(p.Terms))
		for k, s := range p.Terms {
			if s >= 0 {
				rhs[k] = m.term[s]
			} else {
				rhs[k] = c.NumT + m.rule[-s-1]
			}
		}
		cands := byKey[key(m.rule[p.Rule], rhs)]
		found := -1
		for _, ci := range cands {
			if !used[ci] && c.Prods[ci].Prec == p.Prec && (p.Prec == 0 || c.Prods[ci].Right == p.Right) {
				found = ci
				break
			}
		}
		if found < 0 {
			return nil, fmt.Errorf("lox production %d (%s) has no counterpart in the documented desugaring", i, d.Rules[p.Rule])
		}
		used[found] = true
		m.prod[i] = found
	}
	if len(d.Prods)-1 != len(c.Prods) {
		return nil, fmt.Errorf("lox has %d productions, the documented desugaring %d", len(d.Prods)-1, len(c.Prods))
	}
	return m, nil
}

// compareAutomata checks that the automaton lox built is isomorphic to the
// reference LALR(1) automaton with the documented resolution applied. It
// returns "" or a description of the first difference. Cells decided by
// equal-level associativity are compared only for "exactly one action".
// dirMismatch is an equal-level cell whose direction differs from the
// documented associativity.
type dirMismatch struct {
	State    int // lox state
	Terminal int // cfg terminal
	Right    bool
	Want     int // 0 shift, 1 reduce
	Got      int
}

func compareAutomata(tbl *lalr.Table, rr *refResolution, c *gram.CFG, d *verifhook.ParserDump, checkDirection bool) (string, int) {
	diff, cells, _ := compareAutomata2(tbl, rr, c, d, checkDirection)
	return diff, cells
}

// compareAutomata2 additionally returns the equal-level cells whose direction
// differs (when checkDirection is false these are collected instead of being
// reported as a difference).
func compareAutomata2(tbl *lalr.Table, rr *refResolution, c *gram.CFG, d *verifhook.ParserDump, checkDirection bool) (string, int, []dirMismatch) {
	var mism []dirMismatch
	diff, cells := compareAutomataImpl(tbl, rr, c, d, checkDirection, &mism)
	return diff, cells, mism
}

func compareAutomataImpl(tbl *lalr.Table, rr *refResolution, c *gram.CFG, d *verifhook.ParserDump, checkDirection bool, mism *[]dirMismatch) (string, int) {
	m, err := buildSymMap(c, d)
	if err != nil {
		return err.Error(), 0
	}
	if len(d.States) != len(tbl.States) {
		return fmt.Sprintf("lox built %d states, the LALR(1) automaton has %d", len(d.States), len(tbl.States)), 0
	}
	pair := map[int]int{0: 0} // ref state -> lox state
	back := map[int]int{0: 0}
	queue := []int{0}
	cells := 0
	link := func(rs, ls int, via string) string {
		if p, ok := pair[rs]; ok {
			if p != ls {
				return fmt.Sprintf("%s: reference state %d is paired with lox state I%d and I%d", via, rs, p, ls)
			}
			return ""
		}
		if b, ok := back[ls]; ok && b != rs {
			return fmt.Sprintf("%s: lox state I%d is paired with reference states %d and %d", via, ls, b, rs)
		}
		pair[rs] = ls
		back[ls] = rs
		queue = append(queue, rs)
		return ""
	}
	for len(queue) > 0 {
		rs := queue[0]
		queue = queue[1:]
		ls := pair[rs]
		st := &tbl.States[rs]
		ld := &d.States[ls]
		// lox actions by terminal
		la := map[int][]verifhook.ActionDump{}
		for _, a := range ld.Actions {
			t := m.term[a.Terminal]
			la[t] = append(la[t], a)
		}
		for term, cell := range st.Cells {
			cells++
			got := la[term]
			if len(got) == 0 {
				return fmt.Sprintf("state I%d (reference %d): no action on %s, the LALR(1) table has one", ls, rs, c.SymName(term)), cells
			}
			want, settled := rr.Actions[rs][term]
			if !settled {
				unresolved := false
				for _, u := range rr.Unresolved {
					if u == [2]int{rs, term} {
						unresolved = true
					}
				}
				if unresolved && len(got) < 2 {
					return fmt.Sprintf("state I%d on %s: lox settled a conflict (%d candidate actions in the LALR(1) table) that the documented rule does not settle", ls, c.SymName(term), cell.Count()), cells
				}
				if unresolved {
					// nothing may be pruned from a cell that stays a conflict:
					// the same shift / accept, and the same set of reductions
					nShift, nAcc := 0, 0
					reds := map[int]bool{}
					for _, g := range got {
						switch g.Kind {
						case 0:
							nShift++
						case 1:
							reds[m.prod[g.Target]] = true
						case 2:
							nAcc++
						}
					}
					wantShift := 0
					if cell.Shift >= 0 {
						wantShift = 1
					}
					ok := nShift == wantShift && (nAcc == 1) == cell.Accept && len(reds) == len(cell.Reduces)
					for _, p := range cell.Reduces {
						if !reds[p] {
							ok = false
						}
					}
					if !ok {
						return fmt.Sprintf("state I%d on %s: the cell stays a conflict, but lox keeps %d of its %d candidate actions (an action was dropped silently)", ls, c.SymName(term), len(got), cell.Count()), cells
					}
				}
				// unspecified cells (shifting productions of different levels,
				// mixed associativity within a level) are not judged
				continue
			}
			if len(got) != 1 {
				return fmt.Sprintf("state I%d on %s: lox keeps %d actions, the documented rule leaves exactly one", ls, c.SymName(term), len(got)), cells
			}
			g := got[0]
			if want.EqualLevel && !checkDirection {
				if g.Kind != want.Kind {
					*mism = append(*mism, dirMismatch{State: ls, Terminal: term, Right: want.Kind == 0, Want: want.Kind, Got: g.Kind})
				}
				// only follow the shift edge if both shift
				if g.Kind == 0 && want.Kind == 0 {
					if s := link(want.Target, g.Target, "shift"); s != "" {
						return s, cells
					}
				}
				continue
			}
			if g.Kind != want.Kind {
				return fmt.Sprintf("state I%d on %s: lox has %s, the LALR(1) table has %s", ls, c.SymName(term), kindName(g.Kind), kindName(want.Kind)), cells
			}
			switch g.Kind {
			case 0:
				if s := link(want.Target, g.Target, fmt.Sprintf("shift on %s from I%d", c.SymName(term), ls)); s != "" {
					return s, cells
				}
			case 1:
				if m.prod[g.Target] != want.Target {
					return fmt.Sprintf("state I%d on %s: lox reduces %q, the LALR(1) table reduces %q", ls, c.SymName(term), c.ProdString(c.Prods[m.prod[g.Target]]), c.ProdString(c.Prods[want.Target])), cells
				}
			}
		}
		for t := range la {
			if st.Cells[t] == nil {
				return fmt.Sprintf("state I%d: lox has an action on %s, the LALR(1) table has none", ls, c.SymName(t)), cells
			}
		}
		// shifts that were resolved away still need pairing through terminal
		// transitions? No: an unreachable edge is not part of the tables.
		lg := map[int]int{}
		for _, g := range ld.Gotos {
			lg[m.rule[g[0]]] = g[1]
		}
		for ntm, to := range st.Goto {
			lt, ok := lg[ntm]
			if !ok {
				return fmt.Sprintf("state I%d: no goto on %s", ls, c.NTs[ntm]), cells
			}
			if s := link(to, lt, fmt.Sprintf("goto on %s from I%d", c.NTs[ntm], ls)); s != "" {
				return s, cells
			}
		}
		if len(lg) != len(st.Goto) {
			return fmt.Sprintf("state I%d: lox has %d gotos, the LALR(1) table %d", ls, len(lg), len(st.Goto)), cells
		}
	}
	return "", cells
}

func kindName(k int) string { return [...]string{"shift", "reduce", "accept"}[k] }

// hookSpec converts a desugared grammar into the hook's direct lr1 input.
func hookSpec(c *gram.CFG) *verifhook.GrammarSpec {
	gs := &verifhook.GrammarSpec{Start: c.Start + 1}
	gs.Terminals = append(gs.Terminals, c.TNames[2:]...)
	gs.Rules = append(gs.Rules, c.NTs...)
	for _, p := range c.Prods {
		pd := verifhook.ProdDump{Rule: p.LHS + 1, Prec: p.Prec, Right: p.Right}
		for _, s := range p.RHS {
			if s < c.NumT {
				pd.Terms = append(pd.Terms, s)
			} else {
				pd.Terms = append(pd.Terms, -((s - c.NumT + 1) + 1))
			}
		}
		gs.Prods = append(gs.Prods, pd)
	}
	return gs
}
