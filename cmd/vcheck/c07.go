package main

import (
	"fmt"

	"verif/internal/evidence"
	"verif/internal/hc"
	"verif/internal/oracle/lexref"
	"verif/internal/rng"
	"verif/internal/specgen"
)

func init() { register("C07", checkC07) }

// compareFires checks the recorded PushRune results against the reference
// rule firings: every accept / discard / try-again result, in order, with the
// mode index and the mode-stack depth observed right after it.
func compareFires(ref *lexref.Result, obs *hc.LexRun) string {
	if len(obs.PR) == 0 {
		return ""
	}
	k := 0
	for i := 0; i+5 < len(obs.PR); i += 6 {
		res := int(obs.PR[i+2])
		if res < 1 || res > 3 {
			continue
		}
		if k >= len(ref.Fires) {
			return "" // beyond the first ERROR / EOF: outside the comparison
		}
		w := ref.Fires[k]
		mode, depth := int(obs.PR[i+4]), int(obs.PR[i+5])
		if res != w.Kind || mode != w.Mode || depth != w.Depth {
			name := [...]string{"", "emit", "discard", "accumulate"}
			return fmt.Sprintf("rule firing %d: expected %s, then mode %d with stack depth %d; observed %s, then mode %d with stack depth %d",
				k, name[w.Kind], w.Mode, w.Depth, name[res], mode, depth)
		}
		k++
	}
	if k < len(ref.Fires) {
		return fmt.Sprintf("only %d of %d expected rule firings were observed", k, len(ref.Fires))
	}
	return ""
}

func checkC07(c *Ctx) error {
	c.Ev = evidence.New("C07", c.Tier, c.Seed, "exploration",
		"mode graphs with 1-3 modes besides the default (nested, self-recursive, re-entering the default mode with @push_mode()), tokens and fragments with @emit / @discard / no action, @push_mode and @pop_mode written at every position among a rule's actions; no rule matches the empty string. Inputs as in C02 (sampled matches of rules of all modes, near matches, boundary characters, invalid UTF-8, ends in the middle of a construct). Observed: the token stream of the real driver AND, through a wrapper around the real state machine, every accept / discard / try-again result with the mode index and mode-stack depth right after it. Reference: mode-stack interpreter over regex derivatives that applies ALL actions of the matching rule. Non-trivial: inputs on which at least one push or pop took effect before the first ERROR; distinct by spec+input.")
	c.Ev.Assumptions = []string{
		"mode index = position among the sorted mode names with the default mode first",
		"a rule may carry two mode actions (pop then push = replace the current mode; push then push): they take effect one after the other in the order written; a @pop_mode on an empty stack and everything after the first ERROR are outside the comparison",
		"accumulated text becomes the beginning of the next emitted or discarded text",
	}
	return runLexCheck(c, &lexCheckSpec{
		id: "C07",
		opts: func(r *rng.R) specgen.LexOpts {
			return specgen.LexOpts{Wide: r.Chance(1, 3), Modes: true, Frags: true, Macros: r.Chance(1, 3), NoNullable: true, MaxRules: 5, TwoModeActions: true}
		},
		accept:   noNullableRule,
		nBatches: [2]int{3, 40}, nCLI: [2]int{1, 5}, per: 28,
		nInputs: [2]int{250, 600}, exhLen: [2]int{5, 6},
		rec: true,
		nontrivial: func(lc *LCase, in []byte, ref *lexref.Result) bool {
			return ref.MaxDepth >= 1
		},
		extra: func(c *Ctx, lc *LCase, in []byte, ref *lexref.Result, obs *hc.LexRun) string {
			c.Ev.Count("rule_firings_compared", len(ref.Fires))
			if ref.MaxDepth > c.Ev.Get("max_mode_stack_depth_seen") {
				c.Ev.Count("max_mode_stack_depth_seen", ref.MaxDepth-c.Ev.Get("max_mode_stack_depth_seen"))
			}
			if diff := compareFires(ref, obs); diff != "" {
				return diff
			}
			// After a lexical error the driver resets the machine: lexing goes
			// on in the default mode, and no push is pending any more. A mode
			// stack that survives the reset lets a later @pop_mode return to a
			// mode no matching push entered.
			c.Ev.Count("resets_observed", obs.Resets)
			if obs.ResetDirty > 0 {
				return fmt.Sprintf("%d of %d Reset() calls left the machine outside the default mode or with a non-empty mode stack (depth up to %d)", obs.ResetDirty, obs.Resets, obs.DirtyDepth)
			}
			return ""
		},
	})
}
