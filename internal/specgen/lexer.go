package specgen

import (
	"fmt"

	"verif/internal/lexspec"
	"verif/internal/oracle/rx"
	"verif/internal/rng"
)

// TinyLexer is a fixed small lexer specification (used to warm caches and in
// self tests).
func TinyLexer() *lexspec.Spec {
	return &lexspec.Spec{Entries: []lexspec.Entry{
		{Rule: &lexspec.Rule{Kind: lexspec.RToken, Name: "NUM", Rx: lexspec.Card{X: lexspec.Class{Items: []lexspec.Item{{Lo: '0', Hi: '9'}}}, Op: "+"}}},
		{Rule: &lexspec.Rule{Kind: lexspec.RToken, Name: "PLUS", Rx: lexspec.Lit{S: []rune("+")}}},
		{Rule: &lexspec.Rule{Kind: lexspec.RFrag, Rx: lexspec.Card{X: lexspec.Class{Items: []lexspec.Item{{Lo: ' ', Hi: ' '}, {Lo: '\n', Hi: '\n'}}}, Op: "+"}, Actions: []lexspec.Action{{Kind: lexspec.ADiscard}}}},
	}}
}

// Boundary code points: class-boundary and UTF-8 width boundaries.
var boundaryPoints = []rune{0x00, 0x01, 0x7F, 0x80, 0x7FF, 0x800, 0xD7FF, 0xE000, 0xFFFD, 0xFFFF, 0x10000, 0x10FFFF}

var asciiPool = []rune{'a', 'b', 'c', 'd', 'x', 'y', 'z', '0', '1', '9', ' ', '\t', '-', '+', '*', '/', '"', '\'', '\\', ']', '[', '{', '}', '.', '_', 'A', 'Z'}
var uniPool = []rune{0xE9, 0x3A9, 0x4E16, 0x1F600, 0xFF, 0x100}

// Alphabet is the small set of code points a lexer case is built over.
type Alphabet []rune

func drawAlphabet(r *rng.R, n int, wide bool) Alphabet {
	seen := map[rune]bool{}
	var a Alphabet
	add := func(c rune) {
		if !seen[c] {
			seen[c] = true
			a = append(a, c)
		}
	}
	for len(a) < n {
		switch {
		case wide && r.Chance(1, 4):
			add(boundaryPoints[r.Intn(len(boundaryPoints))])
		case wide && r.Chance(1, 5):
			add(uniPool[r.Intn(len(uniPool))])
		default:
			add(asciiPool[r.Intn(len(asciiPool))])
		}
	}
	return a
}

// LexOpts tunes RandomLexer.
type LexOpts struct {
	Wide       bool // use non-ASCII and boundary code points
	Modes      bool // several modes with push/pop
	Frags      bool // fragments with @emit / accumulate
	MaxRules   int
	Macros     bool
	NoNullable bool // guarantee that no rule matches the empty string
	BothModeActions bool // some rules inside modes carry both @pop_mode and @push_mode (any order)
	NonGreedyOps    bool // a third of the * and + are written *? and +?, anywhere in an expression (only for checks whose oracle does not depend on where non-greedy matches end)
	PopInDefault    bool // rules of the default mode may carry @pop_mode too (popping an empty stack is an error the driver reports; lexing must still end)
	LoopOnlyModes   bool // some modes consist of a single rule that begins with a loop (X* T, (X Y)* T): after consuming text the machine is back in its start state
	TwoModeActions  bool // some rules carry two mode actions in a meaningful order: pop then push ("replace the mode"), or two pushes
	NullablePct int // otherwise: percent of rules left nullable when they come out nullable (default 10)
}

type lexGen struct {
	r      *rng.R
	a      Alphabet
	o      LexOpts
	macros []string
	ctx    *rx.Ctx
	mdefs  map[string]lexspec.Rx
}

func (g *lexGen) pick() rune { return g.a[g.r.Intn(len(g.a))] }

func (g *lexGen) class() lexspec.Class {
	r := g.r
	c := lexspec.Class{Raw: r.Chance(1, 2)}
	n := r.Range(1, 3)
	for i := 0; i < n; i++ {
		lo := g.pick()
		hi := lo
		if r.Chance(1, 2) {
			hi = g.pick()
			if hi < lo {
				lo, hi = hi, lo
			}
			if r.Chance(1, 3) && hi < 0x10FFFF {
				hi++ // make ranges that end just past an alphabet point
			}
			if hi >= 0xD800 && hi <= 0xDFFF {
				hi = 0xD7FF // a surrogate cannot be written as an escape end point
			}
			if hi < lo {
				lo = hi
			}
		}
		c.Items = append(c.Items, lexspec.Item{Lo: lo, Hi: hi})
	}
	if r.Chance(1, 5) {
		c.Neg = true
		if c.Set().Empty() {
			c.Neg = false
		}
	}
	return c
}

func (g *lexGen) atom() lexspec.Rx {
	r := g.r
	switch r.Intn(10) {
	case 0, 1, 2:
		n := r.Range(1, 3)
		s := make([]rune, n)
		for i := range s {
			s[i] = g.pick()
		}
		l := lexspec.Lit{S: s, Raw: r.Chance(1, 2)}
		if r.Chance(1, 4) {
			l.Esc = make([]bool, n)
			for i := range l.Esc {
				l.Esc[i] = r.Chance(1, 2)
			}
		}
		return l
	case 3, 4, 5, 6:
		return g.class()
	case 7:
		a, b := g.class(), g.class()
		a.Neg, b.Neg = false, false
		d := lexspec.Diff{A: a, B: b}
		if a.Set().Diff(b.Set()).Empty() {
			return a
		}
		return d
	case 8:
		if len(g.macros) > 0 {
			return lexspec.Ref{Name: g.macros[r.Intn(len(g.macros))]}
		}
		return g.class()
	default:
		if r.Chance(1, 3) {
			return lexspec.Any{}
		}
		return g.class()
	}
}

func (g *lexGen) expr(depth int) lexspec.Rx {
	r := g.r
	if depth <= 0 {
		return g.atom()
	}
	switch r.Intn(8) {
	case 0, 1:
		n := r.Range(2, 3)
		var parts []lexspec.Rx
		for i := 0; i < n; i++ {
			parts = append(parts, g.expr(depth-1))
		}
		return lexspec.Cat{Parts: parts}
	case 2:
		n := r.Range(2, 3)
		var alts []lexspec.Rx
		for i := 0; i < n; i++ {
			alts = append(alts, g.expr(depth-1))
		}
		return lexspec.Alt{Alts: alts}
	case 3, 4:
		ops := []string{"?", "*", "+"}
		op := ops[r.Intn(3)]
		if g.o.NonGreedyOps && op != "?" && r.Chance(1, 3) {
			op += "?"
		}
		return lexspec.Card{X: g.expr(depth - 1), Op: op}
	case 5:
		// a quantified group of several terms whose first or last term is a
		// quantified group itself: ('-' ('a'|'b')+)?, (('a'|'b')* 'c')*, the
		// skip and loop edges of the two meet at one end of the group
		var inner lexspec.Rx = g.atom()
		if r.Chance(2, 3) {
			inner = lexspec.Alt{Alts: []lexspec.Rx{g.atom(), g.atom()}}
		}
		in := lexspec.Card{X: inner, Op: []string{"*", "+", "?"}[r.Intn(3)]}
		parts := []lexspec.Rx{g.atom(), in}
		if r.Chance(1, 2) {
			parts = []lexspec.Rx{in, g.atom()}
		}
		if r.Chance(1, 3) {
			parts = append(parts, g.atom())
		}
		return lexspec.Card{X: lexspec.Cat{Parts: parts}, Op: []string{"?", "*", "+"}[r.Intn(3)]}
	default:
		return g.atom()
	}
}

// nonNullable wraps x so that it cannot match the empty string.
func (g *lexGen) nonNullable(x lexspec.Rx) lexspec.Rx {
	re := lexspec.ToRe(g.ctx, x, g.mdefs)
	if g.ctx.IsEmpty(re) {
		return lexspec.Lit{S: []rune{g.pick()}}
	}
	if !g.ctx.Nullable(re) {
		return x
	}
	return lexspec.Cat{Parts: []lexspec.Rx{lexspec.Lit{S: []rune{g.pick()}}, x}}
}

var lexTokNames = []string{"T0", "T1", "T2", "T3", "T4", "T5", "T6", "T7", "T8", "T9", "T10", "T11"}
var lexTokNamesAlt = []string{"ID", "NUM", "KW_IF", "STR", "OP", "LP", "RP", "WS_TOK", "DOT_DOT", "A1", "B2", "C3"}
var lexModeNames = []string{"Str", "Alt", "Cmt", "Inner"}

// RandomLexer draws a lexer specification. The caller compiles it with the
// reference engine to decide whether it satisfies a property's preconditions.
func RandomLexer(r *rng.R, o LexOpts) (*lexspec.Spec, Alphabet) {
	if o.MaxRules == 0 {
		o.MaxRules = 6
	}
	g := &lexGen{r: r, o: o, ctx: rx.NewCtx(), mdefs: map[string]lexspec.Rx{}}
	g.a = drawAlphabet(r, r.Range(3, 6), o.Wide)
	s := &lexspec.Spec{}
	names := lexTokNames
	if r.Chance(1, 3) {
		names = lexTokNamesAlt
	}
	nextTok := 0
	newTok := func() string {
		n := names[nextTok%len(names)]
		if nextTok >= len(names) {
			n = fmt.Sprintf("%s_%d", n, nextTok)
		}
		nextTok++
		return n
	}
	if o.Macros && r.Chance(1, 2) {
		nm := r.Range(1, 2)
		for i := 0; i < nm; i++ {
			name := fmt.Sprintf("M%d", i)
			x := g.nonNullable(g.expr(1))
			g.mdefs[name] = x
			s.Entries = append(s.Entries, lexspec.Entry{Rule: &lexspec.Rule{Kind: lexspec.RMacro, Name: name, Rx: x}})
			g.macros = append(g.macros, name)
		}
	}
	var modes []string
	if o.Modes {
		n := r.Range(1, 3)
		modes = append(modes, lexModeNames[:n]...)
	}
	mkRules := func(inMode bool, modeName string) []lexspec.Rule {
		var rules []lexspec.Rule
		n := r.Range(2, o.MaxRules)
		// an "operator table" now and then: many rules that are one- and
		// two-character literals over a few characters (many NFA states with
		// two-digit numbers, many subsets that differ in one state)
		opTable := r.Chance(1, 5)
		if opTable {
			n = r.Range(8, 14)
		}
		var emitted []string
		for i := 0; i < n; i++ {
			x := g.expr(r.Range(0, 2))
			if opTable && i < n-2 {
				k := 4
				if len(g.a) < k {
					k = len(g.a)
				}
				lit := []rune{g.a[r.Intn(k)], g.a[r.Intn(k)]}
				if r.Chance(1, 5) {
					lit = lit[:1]
				}
				x = lexspec.Lit{S: lit}
			}
			// overlap on purpose: sometimes reuse a prefix of an earlier rule
			if i > 0 && r.Chance(1, 4) {
				x = lexspec.Cat{Parts: []lexspec.Rx{rules[r.Intn(len(rules))].Rx, g.atom()}}
			}
			np := o.NullablePct
			if np == 0 {
				np = 10
			}
			if o.NoNullable || r.Intn(100) >= np {
				x = g.nonNullable(x)
			}
			if o.NonGreedyOps && !o.NoNullable && r.Chance(1, 6) {
				// a rule whose empty match goes through a non-greedy closure:
				// the start state of the mode contains the loop's exit
				x = lexspec.Card{X: g.atom(), Op: "*?"}
				if r.Chance(1, 2) {
					x = lexspec.Cat{Parts: []lexspec.Rx{x, lexspec.Card{X: g.atom(), Op: "?"}}}
				}
			}
			rule := lexspec.Rule{Rx: x}
			isFrag := r.Chance(1, 4) || (o.Frags && r.Chance(1, 3))
			if isFrag {
				rule.Kind = lexspec.RFrag
				switch {
				case o.Frags && len(emitted) > 0 && r.Chance(1, 3):
					rule.Actions = append(rule.Actions, lexspec.Action{Kind: lexspec.AEmit, Arg: emitted[r.Intn(len(emitted))]})
				case o.Frags && r.Chance(1, 3):
					// accumulate (no action)
				default:
					rule.Actions = append(rule.Actions, lexspec.Action{Kind: lexspec.ADiscard})
				}
			} else {
				rule.Kind = lexspec.RToken
				rule.Name = newTok()
				emitted = append(emitted, rule.Name)
			}
			if !(o.Modes && len(modes) > 0) && !inMode && o.PopInDefault && r.Chance(1, 6) {
				rule.Actions = insertAt(r, rule.Actions, lexspec.Action{Kind: lexspec.APop})
			}
			if o.Modes && len(modes) > 0 {
				switch {
				case r.Chance(1, 4):
					target := modes[r.Intn(len(modes))]
					if r.Chance(1, 6) {
						target = "" // re-enter the default mode
					}
					rule.Actions = insertAt(r, rule.Actions, lexspec.Action{Kind: lexspec.APush, Arg: target})
				case o.TwoModeActions && r.Chance(1, 6):
					// the written order of the two mode actions matters: they are
					// placed in that order, anywhere among the other actions
					first := lexspec.Action{Kind: lexspec.APush, Arg: modes[r.Intn(len(modes))]}
					if inMode && r.Chance(2, 3) {
						first = lexspec.Action{Kind: lexspec.APop}
					}
					second := lexspec.Action{Kind: lexspec.APush, Arg: modes[r.Intn(len(modes))]}
					i := r.Intn(len(rule.Actions) + 1)
					j := i + r.Intn(len(rule.Actions)-i+1)
					var as []lexspec.Action
					as = append(as, rule.Actions[:i]...)
					as = append(as, first)
					as = append(as, rule.Actions[i:j]...)
					as = append(as, second)
					as = append(as, rule.Actions[j:]...)
					rule.Actions = as
				case (inMode && r.Chance(1, 3)) || (!inMode && o.PopInDefault && r.Chance(1, 5)):
					rule.Actions = insertAt(r, rule.Actions, lexspec.Action{Kind: lexspec.APop})
					if o.BothModeActions && r.Chance(1, 3) {
						target := modes[r.Intn(len(modes))]
						rule.Actions = insertAt(r, rule.Actions, lexspec.Action{Kind: lexspec.APush, Arg: target})
					}
				}
			}
			rules = append(rules, rule)
		}
		if inMode && o.BothModeActions && !o.NoNullable && r.Chance(1, 4) {
			// a rule that can match the empty string and both pops and pushes:
			// acting on its empty match would leave the mode stack as deep as
			// it was
			var x lexspec.Rx = lexspec.Card{X: g.atom(), Op: []string{"?", "*"}[r.Intn(2)]}
			as := []lexspec.Action{{Kind: lexspec.APop}, {Kind: lexspec.APush, Arg: modes[r.Intn(len(modes))]}}
			if r.Chance(1, 2) {
				as[0], as[1] = as[1], as[0]
			}
			ru := lexspec.Rule{Kind: lexspec.RToken, Name: newTok(), Rx: x, Actions: as}
			at := r.Intn(len(rules) + 1)
			rules = append(rules[:at], append([]lexspec.Rule{ru}, rules[at:]...)...)
		}
		if o.Frags && !o.NoNullable && o.NullablePct > 0 && r.Chance(1, 4) {
			// an accumulating fragment that can match the empty string (the
			// usual body of a string literal: @frag (~["\\] | '\\' .)* ): after
			// it has accumulated some text the machine is back in the start state
			// with that text pending, whatever comes next
			body := g.atom()
			if r.Chance(1, 2) {
				body = lexspec.Alt{Alts: []lexspec.Rx{g.atom(), lexspec.Cat{Parts: []lexspec.Rx{lexspec.Lit{S: []rune{g.pick()}}, g.atom()}}}}
			}
			ru := lexspec.Rule{Kind: lexspec.RFrag, Rx: lexspec.Card{X: body, Op: "*"}}
			at := r.Intn(len(rules) + 1)
			rules = append(rules[:at], append([]lexspec.Rule{ru}, rules[at:]...)...)
		}
		if inMode {
			// make sure the mode can be left
			hasPop := false
			for _, ru := range rules {
				for _, a := range ru.Actions {
					if a.Kind == lexspec.APop {
						hasPop = true
					}
				}
			}
			if !hasPop {
				rules = append(rules, lexspec.Rule{Kind: lexspec.RToken, Name: newTok(), Rx: lexspec.Lit{S: []rune{g.pick()}}, Actions: []lexspec.Action{{Kind: lexspec.APop}}})
			}
		}
		return rules
	}
	def := mkRules(false, "")
	// interleave mode blocks with default-mode rules
	modeAt := map[int][]string{}
	for _, m := range modes {
		at := r.Intn(len(def) + 1)
		modeAt[at] = append(modeAt[at], m)
	}
	emitModes := func(at int) {
		for _, m := range modeAt[at] {
			rules := mkRules(true, m)
			if o.LoopOnlyModes && r.Chance(1, 2) {
				// BODY = X* T @pop_mode   or   BODY = (X Y)* T @pop_mode
				x, y, t := g.pick(), g.pick(), g.pick()
				var loop lexspec.Rx = lexspec.Card{X: lexspec.Class{Items: []lexspec.Item{{Lo: x, Hi: x}}, Neg: r.Chance(1, 2) && x != t}, Op: "*"}
				if r.Chance(1, 2) {
					loop = lexspec.Card{X: lexspec.Cat{Parts: []lexspec.Rx{lexspec.Lit{S: []rune{x}}, lexspec.Lit{S: []rune{y}}}}, Op: "*"}
				}
				if cl, ok := loop.(lexspec.Card); ok {
					if c2, ok := cl.X.(lexspec.Class); ok && c2.Neg {
						// the terminator must stay outside the negated body class
						c2.Items = []lexspec.Item{{Lo: t, Hi: t}}
						cl.X = c2
						loop = cl
					}
				}
				rules = []lexspec.Rule{{Kind: lexspec.RToken, Name: newTok(), Rx: lexspec.Cat{Parts: []lexspec.Rx{loop, lexspec.Lit{S: []rune{t}}}}, Actions: []lexspec.Action{{Kind: lexspec.APop}}}}
			}
			s.Entries = append(s.Entries, lexspec.Entry{Mode: &lexspec.Mode{Name: m, Rules: rules}})
		}
	}
	for i := range def {
		emitModes(i)
		ru := def[i]
		s.Entries = append(s.Entries, lexspec.Entry{Rule: &ru})
	}
	emitModes(len(def))
	return s, g.a
}

func insertAt(r *rng.R, as []lexspec.Action, a lexspec.Action) []lexspec.Action {
	i := r.Intn(len(as) + 1)
	out := append([]lexspec.Action(nil), as[:i]...)
	out = append(out, a)
	return append(out, as[i:]...)
}

// InvalidUTF8 are byte sequences that are not valid UTF-8.
var InvalidUTF8 = [][]byte{{0x80}, {0xBF}, {0xC0, 0x80}, {0xE4, 0xB8}, {0xF0, 0x9F, 0x98}, {0xFF}, {0xED, 0xA0, 0x80}, {0xF4, 0x90, 0x80, 0x80}, {0xC3}}

// LexInput builds one hostile input for a compiled specification: pieces are
// matches of the rules, near-matches, alphabet characters, boundary code
// points and invalid UTF-8; the result may end in the middle of a construct.
func LexInput(r *rng.R, ctx *rx.Ctx, res []*rx.Re, a Alphabet, wide bool, maxPieces int) []byte {
	var out []byte
	n := r.Range(0, maxPieces)
	for i := 0; i < n; i++ {
		switch r.Intn(12) {
		case 0, 1, 2, 3, 4, 5:
			if len(res) > 0 {
				if s, ok := ctx.Sample(res[r.Intn(len(res))], r.Intn, 1+r.Intn(6)); ok {
					s = fixRunes(s, a)
					if r.Chance(1, 6) && len(s) > 0 {
						s = s[:r.Intn(len(s))] // truncated match
					}
					out = append(out, []byte(string(s))...)
				}
			}
		case 6, 7, 8:
			out = append(out, []byte(string(a[r.Intn(len(a))]))...)
		case 9:
			if wide {
				out = append(out, []byte(string(boundaryPoints[r.Intn(len(boundaryPoints))]))...)
			} else {
				out = append(out, byte(asciiPool[r.Intn(len(asciiPool))]))
			}
		case 10:
			if wide {
				out = append(out, InvalidUTF8[r.Intn(len(InvalidUTF8))]...)
			} else {
				out = append(out, '\n')
			}
		default:
			out = append(out, '\n')
		}
	}
	return out
}

// fixRunes replaces code points that cannot be encoded in UTF-8 (surrogates)
// by an alphabet character.
func fixRunes(s []rune, a Alphabet) []rune {
	for i, c := range s {
		if c >= 0xD800 && c <= 0xDFFF {
			s[i] = a[0]
		}
	}
	return s
}

// NonGreedyLexer draws a specification for the non-greedy property: one or
// two token rules of the form  P B*? T  /  P B+? T  (P: literal or class
// sequence; B: class, '.', or an alternation of classes — one character per
// repetition; T: literal of 1-3 characters, possibly self-overlapping, whose
// characters B may match) plus greedy rules whose first characters are
// disjoint from P's.
func NonGreedyLexer(r *rng.R) (*lexspec.Spec, Alphabet) { return NonGreedyLexerWith(r, false) }

// NonGreedyLexerWith: with interplay, greedy rules that share the prefix of a
// non-greedy rule are added (a rule matching exactly the prefix, one matching
// the prefix and one more character, one running greedily through the text
// the non-greedy body runs through), and the opener of a non-greedy rule may
// be a letter of the word rule.
func NonGreedyLexerWith(r *rng.R, interplay bool) (*lexspec.Spec, Alphabet) {
	// tiny alphabet so that terminators are frequent
	pool := []rune{'a', 'b', 'c', '*', '/', '"', 'x', 'é', 0x4E16}
	perm := r.Perm(len(pool))
	n := r.Range(2, 3)
	var body Alphabet
	for i := 0; i < n; i++ {
		body = append(body, pool[perm[i]])
	}
	opener := []rune{'<', '{', '#', '@'}
	if interplay && r.Chance(1, 3) {
		opener[0] = body[0]
	}
	var extra []lexspec.Rule
	s := &lexspec.Spec{}
	alpha := append(Alphabet{}, body...)
	nNG := r.Range(1, 2)
	nestedPlan := interplay && nNG == 2 && r.Chance(2, 3)
	for k := 0; k < nNG; k++ {
		open := opener[k]
		nested := nestedPlan && k == 1
		if nested {
			// the second non-greedy rule's prefix extends the first one's
			// ('<' and '<<'): both repetitions run at the same time
			open = opener[0]
		} else {
			alpha = append(alpha, open)
		}
		var p lexspec.Rx = lexspec.Lit{S: []rune{open}}
		if nested {
			p = lexspec.Lit{S: []rune{open, open}}
		} else if r.Chance(1, 3) {
			p = lexspec.Cat{Parts: []lexspec.Rx{lexspec.Lit{S: []rune{open}}, lexspec.Class{Items: []lexspec.Item{{Lo: body[0], Hi: body[0]}}}}}
		}
		var b lexspec.Rx
		bk := r.Intn(4)
		if nestedPlan && k == 0 {
			// the body must run through the second opener
			bk = []int{0, 3}[r.Intn(2)]
		}
		switch bk {
		case 0:
			b = lexspec.Any{}
		case 1:
			its := []lexspec.Item{}
			for _, ch := range body {
				if r.Chance(3, 4) {
					its = append(its, lexspec.Item{Lo: ch, Hi: ch})
				}
			}
			if len(its) == 0 {
				its = append(its, lexspec.Item{Lo: body[0], Hi: body[0]})
			}
			b = lexspec.Class{Items: its}
		case 2:
			b = lexspec.Alt{Alts: []lexspec.Rx{
				lexspec.Class{Items: []lexspec.Item{{Lo: body[0], Hi: body[0]}}},
				lexspec.Class{Items: []lexspec.Item{{Lo: body[1], Hi: body[1]}}, Neg: r.Chance(1, 3)},
			}}
		default:
			b = lexspec.Class{Items: []lexspec.Item{{Lo: '\n', Hi: '\n'}}, Neg: true}
		}
		tl := r.Range(1, 3)
		t := make([]rune, tl)
		switch r.Intn(3) {
		case 0: // self-overlapping
			for i := range t {
				t[i] = body[i%2]
			}
			if r.Chance(1, 2) {
				for i := range t {
					t[i] = body[0]
				}
			}
		default:
			for i := range t {
				t[i] = body[r.Intn(len(body))]
			}
		}
		op := "*?"
		if r.Chance(1, 2) {
			op = "+?"
		}
		rule := lexspec.Rule{Kind: lexspec.RToken, Name: fmt.Sprintf("NG%d", k),
			Rx: lexspec.Cat{Parts: []lexspec.Rx{p, lexspec.Card{X: b, Op: op}, lexspec.Lit{S: t}}}}
		s.Entries = append(s.Entries, lexspec.Entry{Rule: &rule})
		if interplay {
			one := func(c rune) lexspec.Rx { return lexspec.Class{Items: []lexspec.Item{{Lo: c, Hi: c}}} }
			if r.Chance(1, 2) {
				extra = append(extra, lexspec.Rule{Kind: lexspec.RToken, Name: fmt.Sprintf("OPEN%d", k), Rx: lexspec.Lit{S: []rune{open}}})
			}
			if r.Chance(1, 3) {
				extra = append(extra, lexspec.Rule{Kind: lexspec.RToken, Name: fmt.Sprintf("OPENX%d", k), Rx: lexspec.Lit{S: []rune{open, body[r.Intn(len(body))]}}})
			}
			if r.Chance(1, 2) {
				var its []lexspec.Item
				for _, ch := range body {
					if r.Chance(2, 3) {
						its = append(its, lexspec.Item{Lo: ch, Hi: ch})
					}
				}
				if len(its) == 0 {
					its = append(its, lexspec.Item{Lo: body[0], Hi: body[0]})
				}
				op := "+"
				if r.Chance(1, 3) {
					op = "*"
				}
				extra = append(extra, lexspec.Rule{Kind: lexspec.RToken, Name: fmt.Sprintf("RUN%d", k), Rx: lexspec.Cat{Parts: []lexspec.Rx{one(open), lexspec.Card{X: lexspec.Class{Items: its}, Op: op}}}})
			}
		}
	}
	for i := range extra {
		ru := extra[i]
		if r.Chance(1, 2) {
			s.Entries = append([]lexspec.Entry{{Rule: &ru}}, s.Entries...)
		} else {
			s.Entries = append(s.Entries, lexspec.Entry{Rule: &ru})
		}
	}
	// greedy companions (first characters among the body alphabet, never an opener)
	id := lexspec.Rule{Kind: lexspec.RToken, Name: "WORD", Rx: lexspec.Card{X: lexspec.Class{Items: []lexspec.Item{{Lo: body[0], Hi: body[0]}, {Lo: body[len(body)-1], Hi: body[len(body)-1]}}}, Op: "+"}}
	kw := lexspec.Rule{Kind: lexspec.RToken, Name: "KW", Rx: lexspec.Lit{S: []rune{body[0], body[0]}}}
	ws := lexspec.Rule{Kind: lexspec.RFrag, Rx: lexspec.Card{X: lexspec.Class{Items: []lexspec.Item{{Lo: ' ', Hi: ' '}, {Lo: '\n', Hi: '\n'}}}, Op: "+"}, Actions: []lexspec.Action{{Kind: lexspec.ADiscard}}}
	alpha = append(alpha, ' ')
	comp := []lexspec.Rule{kw, id, ws}
	for _, i := range r.Perm(len(comp)) {
		if r.Chance(3, 4) {
			ru := comp[i]
			// placed before or after the non-greedy rules
			if r.Chance(1, 2) {
				s.Entries = append([]lexspec.Entry{{Rule: &ru}}, s.Entries...)
			} else {
				s.Entries = append(s.Entries, lexspec.Entry{Rule: &ru})
			}
		}
	}
	return s, alpha
}
