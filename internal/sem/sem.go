// Package sem computes, for a sentence of an accepted grammar, the exact
// sequence of action and _onBounds calls that the properties C03 and C16
// prescribe: the reductions of the unique derivation in bottom-up
// left-to-right order (obtained from the independent reference LALR(1) table),
// with the documented values of the sugar forms.
package sem

import (
	"fmt"

	"verif/internal/gram"
	"verif/internal/hc"
	"verif/internal/oracle/lalr"
)

type node struct {
	id    int
	first hc.Token
}

type val struct {
	kind byte // 't' token, 'e' Error (an ERROR token shifted as @error), 'n' node, 'z' zero, 'l' list
	tok  hc.Token
	n    *node
	list []val
}

func (v val) firstTok() hc.Token {
	switch v.kind {
	case 't', 'e':
		return v.tok
	case 'n':
		return v.n.first
	case 'l':
		for _, e := range v.list {
			if t := e.firstTok(); t.Seq != 0 {
				return t
			}
		}
	}
	return hc.Token{}
}

func (v val) discard() bool {
	switch v.kind {
	case 't':
		return v.tok.D
	case 'n':
		return v.n.first.D
	}
	return false
}

func (v val) arg() hc.Arg {
	switch v.kind {
	case 't':
		return hc.Arg{K: "t", V: v.tok.Seq, T: v.tok.Type}
	case 'e':
		return hc.Arg{K: "e", V: v.tok.Seq, T: v.tok.Type}
	case 'n':
		return hc.Arg{K: "n", V: v.n.id}
	case 'l':
		a := hc.Arg{K: "l"}
		for _, e := range v.list {
			a.L = append(a.L, e.arg())
		}
		return a
	}
	return hc.Arg{K: "z"}
}

type entry struct {
	state      int
	v          val
	begin, end int // token seq span; empty if begin == 0
}

// Expected is the prescribed observation.
type Expected struct {
	Events []hc.Event // kinds "a" and "b" in order
	// Loose marks b-events whose exact arguments the property leaves open
	// (bounds of `x*!` helper lists: discarded elements consumed tokens but are
	// not in the list). Index-aligned with Events.
	Loose []bool
	Root  int
}

// Simulate runs the reference parser over toks (which must be a sentence).
func Simulate(g *gram.Grammar, c *gram.CFG, tbl *lalr.Table, opt gram.HarnessOpt, toks []hc.Token) (*Expected, error) {
	methodOf := map[[2]int]int{}
	for _, m := range g.Methods(opt) {
		for _, pi := range m.Prods {
			methodOf[[2]int{m.Rule, pi}] = m.ID
		}
	}
	exp, err := SimulateWith(g, c, tbl, methodOf, opt.Bounds, toks)
	if err != nil || opt.AnyRules == 0 || opt.NilSeed == 0 {
		return exp, err
	}
	// Methods that record their call and return an untyped nil: wherever the
	// node they would have returned is passed on (to a parent's action, inside
	// a list, to _onBounds), the prescribed value is nil. Calls and bounds are
	// prescribed as for any other action.
	ruleOf := map[int]int{}
	for _, m := range g.Methods(opt) {
		ruleOf[m.ID] = m.Rule
	}
	nilNode := map[int]bool{}
	for _, e := range exp.Events {
		if e.K == "a" && opt.ReturnsNil(ruleOf[e.M], e.M) {
			nilNode[e.Ret] = true
		}
	}
	var fix func(a *hc.Arg)
	fix = func(a *hc.Arg) {
		if a.K == "n" && nilNode[a.V] {
			*a = hc.Arg{K: "z"}
			return
		}
		for i := range a.L {
			fix(&a.L[i])
		}
	}
	for i := range exp.Events {
		e := &exp.Events[i]
		for k := range e.Args {
			fix(&e.Args[k])
		}
		if e.R != nil {
			r := *e.R
			r.L = append([]hc.Arg(nil), r.L...)
			fix(&r)
			e.R = &r
		}
	}
	return exp, nil
}

// SimulateWith is Simulate with an explicit (rule, production) -> method id
// map (for harnesses whose method layout is not the default one).
func SimulateWith(g *gram.Grammar, c *gram.CFG, tbl *lalr.Table, methodOf map[[2]int]int, bounds bool, toks []hc.Token) (*Expected, error) {
	opt := gram.HarnessOpt{Bounds: bounds}
	exp := &Expected{}
	nextID := 0
	stack := []entry{{state: 0}}
	pos := 0
	la := func() int {
		if pos < len(toks) {
			return toks[pos].Type
		}
		return 0
	}
	for steps := 0; steps < 100000; steps++ {
		top := stack[len(stack)-1]
		cell := tbl.States[top.state].Cells[la()]
		if cell == nil {
			return nil, fmt.Errorf("reference parser: no action in state %d on %d at token %d", top.state, la(), pos)
		}
		if cell.Count() != 1 {
			return nil, fmt.Errorf("reference parser: conflict in state %d", top.state)
		}
		switch {
		case cell.Accept:
			if len(stack) != 2 {
				return nil, fmt.Errorf("reference parser: accept with stack depth %d", len(stack))
			}
			exp.Root = nextID
			return exp, nil
		case cell.Shift >= 0:
			t := toks[pos]
			pos++
			k := byte('t')
			if t.Type == 1 {
				// a lexer ERROR token is handed to the parser as an Error value
				k = 'e'
			}
			stack = append(stack, entry{state: cell.Shift, v: val{kind: k, tok: t}, begin: t.Seq, end: t.Seq})
		default:
			pi := cell.Reduces[0]
			p := c.Prods[pi]
			k := len(p.RHS)
			rhs := stack[len(stack)-k:]
			// span: trim empty children at both ends
			b, e := 0, 0
			for _, x := range rhs {
				if x.begin != 0 {
					if b == 0 {
						b = x.begin
					}
					e = x.end
				}
			}
			var res val
			loose := false
			switch c.Kinds[p.LHS] {
			case gram.HUser:
				nextID++
				n := &node{id: nextID}
				ev := hc.Event{K: "a", M: methodOf[[2]int{p.UserRule, p.UserProd}], Ret: nextID}
				for _, x := range rhs {
					ev.Args = append(ev.Args, x.v.arg())
					if n.first.Seq == 0 {
						if t := x.v.firstTok(); t.Seq != 0 {
							n.first = t
						}
					}
				}
				exp.Events = append(exp.Events, ev)
				exp.Loose = append(exp.Loose, false)
				res = val{kind: 'n', n: n}
			case gram.HOpt:
				if k == 1 {
					res = rhs[0].v
				} else {
					res = val{kind: 'z'}
				}
			case gram.HStar, gram.HStarF, gram.HListOpt:
				if k == 1 {
					res = rhs[0].v
				} else {
					res = val{kind: 'l'}
				}
				loose = c.Kinds[p.LHS] == gram.HStarF
			case gram.HPlus:
				if k == 1 {
					res = val{kind: 'l', list: []val{rhs[0].v}}
				} else {
					res = val{kind: 'l', list: append(append([]val(nil), rhs[0].v.list...), rhs[1].v)}
				}
			case gram.HPlusF:
				loose = true
				if k == 1 {
					res = val{kind: 'l'}
					if !rhs[0].v.discard() {
						res.list = []val{rhs[0].v}
					}
				} else {
					res = val{kind: 'l', list: append([]val(nil), rhs[0].v.list...)}
					if !rhs[1].v.discard() {
						res.list = append(res.list, rhs[1].v)
					}
				}
			case gram.HList:
				if k == 1 {
					res = val{kind: 'l', list: []val{rhs[0].v}}
				} else {
					res = val{kind: 'l', list: append(append([]val(nil), rhs[0].v.list...), rhs[2].v)}
				}
			}
			if opt.Bounds && b != 0 {
				a := res.arg()
				exp.Events = append(exp.Events, hc.Event{K: "b", R: &a, B: b, E: e})
				exp.Loose = append(exp.Loose, loose)
			}
			stack = stack[:len(stack)-k]
			from := stack[len(stack)-1].state
			to, ok := tbl.States[from].Goto[p.LHS]
			if !ok {
				return nil, fmt.Errorf("reference parser: no goto from %d on %s", from, c.NTs[p.LHS])
			}
			stack = append(stack, entry{state: to, v: res, begin: b, end: e})
		}
	}
	return nil, fmt.Errorf("reference parser: step limit")
}

// ArgEqual compares two argument descriptors.
func ArgEqual(a, b hc.Arg) bool {
	if a.K != b.K || a.V != b.V || len(a.L) != len(b.L) {
		return false
	}
	if a.K == "t" && a.T != b.T {
		return false
	}
	for i := range a.L {
		if !ArgEqual(a.L[i], b.L[i]) {
			return false
		}
	}
	return true
}

// Compare checks the observed events (kinds "a" and "b"; "r" events are
// skipped) against the expectation and returns a description of the first
// difference, or "".
func Compare(exp *Expected, obs []hc.Event) string {
	var got []hc.Event
	for _, e := range obs {
		if e.K == "a" || e.K == "b" {
			got = append(got, e)
		}
	}
	i, j := 0, 0
	for i < len(exp.Events) && j < len(got) {
		w, g := exp.Events[i], got[j]
		if w.K == "b" && exp.Loose[i] {
			// Bounds of a `x*!` helper list: the statement leaves open whether
			// discarded elements count. Accept a call with a list value and a
			// span inside the derivation span, or no call at all.
			if g.K == "b" && g.R != nil && g.R.K == "l" && g.B >= w.B && g.E <= w.E && g.B <= g.E {
				j++
			}
			i++
			continue
		}
		if w.K != g.K {
			return fmt.Sprintf("event %d: expected %s, observed %s", i, show(w), show(g))
		}
		if w.K == "a" {
			if w.M != g.M || w.Ret != g.Ret || len(w.Args) != len(g.Args) {
				return fmt.Sprintf("event %d: expected %s, observed %s", i, show(w), show(g))
			}
			for k := range w.Args {
				if !ArgEqual(w.Args[k], g.Args[k]) {
					return fmt.Sprintf("event %d, argument %d: expected %s, observed %s", i, k, show(w), show(g))
				}
			}
		} else if g.R == nil || !ArgEqual(*w.R, *g.R) || w.B != g.B || w.E != g.E {
			return fmt.Sprintf("event %d: expected %s, observed %s", i, show(w), show(g))
		}
		i++
		j++
	}
	for i < len(exp.Events) && exp.Events[i].K == "b" && exp.Loose[i] {
		i++
	}
	if j < len(got) {
		return fmt.Sprintf("%d extra event(s), first: %s", len(got)-j, show(got[j]))
	}
	if i < len(exp.Events) {
		return fmt.Sprintf("%d missing event(s), first: %s", len(exp.Events)-i, show(exp.Events[i]))
	}
	return ""
}

func showArg(a hc.Arg) string {
	switch a.K {
	case "t":
		return fmt.Sprintf("tok#%d", a.V)
	case "n":
		return fmt.Sprintf("node#%d", a.V)
	case "e":
		return fmt.Sprintf("Error(tok#%d)", a.V)
	case "l":
		s := "["
		for i, e := range a.L {
			if i > 0 {
				s += " "
			}
			s += showArg(e)
		}
		return s + "]"
	case "z":
		return "zero"
	}
	return "?" + a.K
}

func show(e hc.Event) string {
	switch e.K {
	case "a":
		s := fmt.Sprintf("action m%d(", e.M)
		for i, a := range e.Args {
			if i > 0 {
				s += ", "
			}
			s += showArg(a)
		}
		return s + fmt.Sprintf(") -> node#%d", e.Ret)
	case "b":
		r := "nil"
		if e.R != nil {
			r = showArg(*e.R)
		}
		return fmt.Sprintf("_onBounds(%s, tok#%d, tok#%d)", r, e.B, e.E)
	}
	return e.K
}

// Show renders events for reports.
func Show(evs []hc.Event) []string {
	var out []string
	for _, e := range evs {
		if e.K == "a" || e.K == "b" {
			out = append(out, show(e))
		}
	}
	return out
}
