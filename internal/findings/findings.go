// Package findings reads /verif/KNOWN_FINDINGS.txt. The file is committed and
// never written at run time. Lines:
//
//	KNOWN-FINDING: property=<id> key=<matcher> <free text>
//	fixed: property=<id> <commit> <free text>
//
// A KNOWN-FINDING entry names a matcher key implemented inside the check; a
// violating case is suppressed only if that matcher says the whole
// discrepancy is explained by the finding. "fixed:" entries suppress nothing.
package findings

import (
	"bufio"
	"os"
	"strings"
)

type Finding struct {
	Property string
	Key      string
	Line     string
}

type Set struct {
	byProp map[string][]Finding
}

func Load(path string) *Set {
	s := &Set{byProp: map[string][]Finding{}}
	f, err := os.Open(path)
	if err != nil {
		return s
	}
	defer f.Close()
	sc := bufio.NewScanner(f)
	for sc.Scan() {
		line := strings.TrimSpace(sc.Text())
		if !strings.HasPrefix(line, "KNOWN-FINDING:") {
			continue
		}
		fd := Finding{Line: line}
		for _, w := range strings.Fields(line) {
			if strings.HasPrefix(w, "property=") {
				fd.Property = strings.TrimPrefix(w, "property=")
			}
			if strings.HasPrefix(w, "key=") {
				fd.Key = strings.TrimPrefix(w, "key=")
			}
		}
		if fd.Property != "" && fd.Key != "" {
			s.byProp[fd.Property] = append(s.byProp[fd.Property], fd)
		}
	}
	return s
}

// Has reports whether a finding with this key is listed for the property.
func (s *Set) Has(prop, key string) (Finding, bool) {
	for _, f := range s.byProp[prop] {
		if f.Key == key {
			return f, true
		}
	}
	return Finding{}, false
}
