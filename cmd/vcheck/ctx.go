package main

import (
	"encoding/json"
	"fmt"
	"os"
	"path/filepath"
	"runtime"
	"sort"
	"strings"
	"sync"
	"syscall"
	"time"

	"verif/internal/evidence"
	"verif/internal/findings"
	"verif/internal/hc"
	"verif/internal/rng"
	"verif/internal/run"
)

// Ctx is what every check gets.
type Ctx struct {
	ID    string
	Tier  string
	Seed  int64
	Ev    *evidence.E
	Env   *run.Env
	Known *findings.Set
	R     *rng.R

	mu          sync.Mutex
	nviol       int
	violKinds   map[string]int
	knownSeen   map[string]int
	inconcl     map[string]int
	replayN     int
	start       time.Time
	nontrivMin  int // minimal number of distinct non-trivial cases for a "held" verdict
}

func newCtx(id, tier string, seed int64) (*Ctx, error) {
	env, err := run.NewEnv()
	if err != nil {
		return nil, err
	}
	// stale witnesses of an earlier run with the same id and seed would be
	// confusing next to new ones
	if old, _ := filepath.Glob(filepath.Join(run.VerifDir(), "replays", fmt.Sprintf("%s-%d-*", id, seed))); len(old) > 0 {
		for _, d := range old {
			os.RemoveAll(d)
		}
	}
	c := &Ctx{
		ID: id, Tier: tier, Seed: seed, Env: env,
		Known:     findings.Load(filepath.Join(run.VerifDir(), "KNOWN_FINDINGS.txt")),
		R:         rng.New(uint64(seed)).Derive(id, 0),
		violKinds: map[string]int{}, knownSeen: map[string]int{}, inconcl: map[string]int{},
		start: time.Now(), nontrivMin: 2,
	}
	return c, nil
}

func (c *Ctx) Quick() bool { return c.Tier == "quick" }

// N picks the tier's case count.
func (c *Ctx) N(quick, thorough int) int {
	if c.Quick() {
		return quick
	}
	return thorough
}

func (c *Ctx) Logf(format string, args ...any) {
	fmt.Fprintf(os.Stderr, "[%s %6.1fs] %s\n", c.ID, time.Since(c.start).Seconds(), fmt.Sprintf(format, args...))
}

// Replay is what gets stored for a violation so that it can be re-run.
type Replay struct {
	Kind     string            `json:"kind"`  // "batch": files + jobs re-run through lox, build, run
	Why      string            `json:"why"`
	Files    map[string]string `json:"files,omitempty"`    // package files (harness.go, *.lox, ...)
	Internals string           `json:"internals,omitempty"`
	Stub     string            `json:"stub,omitempty"`
	Jobs     []hc.Job          `json:"jobs,omitempty"`
	Expected any               `json:"expected,omitempty"`
	Observed any               `json:"observed,omitempty"`
	Extra    map[string]any    `json:"extra,omitempty"`
	Seed     int64             `json:"seed"`
	Tier     string            `json:"tier"`
}

// Violation reports a violation of the property. kind groups violations so
// that only the first few of each kind get a replay directory.
func (c *Ctx) Violation(kind string, rp *Replay) {
	c.mu.Lock()
	defer c.mu.Unlock()
	c.nviol++
	c.violKinds[kind]++
	if c.violKinds[kind] > 3 || c.nviol > 40 {
		return
	}
	c.replayN++
	dir := filepath.Join(run.VerifDir(), "replays", fmt.Sprintf("%s-%d-%d", c.ID, c.Seed, c.replayN))
	os.MkdirAll(dir, 0o755)
	rp.Seed, rp.Tier = c.Seed, c.Tier
	if rp.Why == "" {
		rp.Why = kind
	}
	data, _ := json.MarshalIndent(rp, "", " ")
	os.WriteFile(filepath.Join(dir, "replay.json"), data, 0o644)
	for fn, src := range rp.Files {
		if strings.HasSuffix(fn, ".go") {
			fn += ".txt" // keep the Go tool from treating the replay as a package of this module
		}
		os.WriteFile(filepath.Join(dir, fn), []byte(src), 0o644)
	}
	fmt.Printf("VIOLATION property=%s replay=%s\n", c.ID, dir)
	fmt.Fprintf(os.Stderr, "  violation kind=%s: %s\n", kind, firstLine(rp.Why))
}

func firstLine(s string) string {
	if i := strings.IndexByte(s, '\n'); i >= 0 {
		return s[:i]
	}
	return s
}

// KnownFinding records that a violating case is fully explained by a listed
// known finding. It returns false if the key is not listed (the caller must
// then report a violation).
func (c *Ctx) KnownFinding(key string) bool {
	f, ok := c.Known.Has(c.ID, key)
	if !ok {
		return false
	}
	c.mu.Lock()
	defer c.mu.Unlock()
	if c.knownSeen[key] == 0 {
		fmt.Println(f.Line)
	}
	c.knownSeen[key]++
	return true
}

func (c *Ctx) Inconclusive(why string) {
	c.mu.Lock()
	c.inconcl[why]++
	c.mu.Unlock()
}

func (c *Ctx) finish(err error) int {
	defer c.Env.Close()
	c.mu.Lock()
	nviol := c.nviol
	ninc := 0
	for _, v := range c.inconcl {
		ninc += v
	}
	nknown := 0
	for _, v := range c.knownSeen {
		nknown += v
	}
	kinds := []string{}
	for k, v := range c.violKinds {
		kinds = append(kinds, fmt.Sprintf("%s=%d", k, v))
	}
	sort.Strings(kinds)
	incl := map[string]int{}
	for k, v := range c.inconcl {
		incl[k] = v
	}
	c.mu.Unlock()

	c.Ev.Violations = nviol
	c.Ev.Inconclusive = ninc
	c.Ev.KnownMatched = nknown
	if len(incl) > 0 {
		c.Ev.Set("inconclusive_reasons", incl)
	}
	if len(kinds) > 0 {
		c.Ev.Set("violation_kinds", kinds)
	}
	evDir := filepath.Join(run.VerifDir(), "evidence")
	if os.Getenv("VERIF_REPO") != "" && os.Getenv("VERIF_REPO") != "/repo" {
		// trial run against another checkout (seeded change): its evidence must
		// not replace the evidence of /repo
		evDir = filepath.Join(os.TempDir(), "verif-trial-evidence")
	}
	if werr := c.Ev.Write(evDir); werr != nil {
		fmt.Fprintf(os.Stderr, "cannot write evidence: %v\n", werr)
		return 2
	}
	if err != nil {
		fmt.Fprintf(os.Stderr, "%s: check could not complete: %v\n", c.ID, err)
		if nviol > 0 {
			return 1
		}
		return 2
	}
	if nviol > 0 {
		fmt.Fprintf(os.Stderr, "%s: %d violation(s): %s\n", c.ID, nviol, strings.Join(kinds, " "))
		return 1
	}
	if c.Ev.NDistinct() < c.nontrivMin || c.Ev.Evals() == 0 {
		fmt.Printf("INCONCLUSIVE property=%s monitors observed too little (%d non-trivial cases, minimum %d)\n", c.ID, c.Ev.NDistinct(), c.nontrivMin)
		return 2
	}
	fmt.Printf("%s: held on everything explored: %d evaluations, %d distinct non-trivial cases, %d inconclusive, %d explained by known findings (%.1fs)\n",
		c.ID, c.Ev.Evals(), c.Ev.NDistinct(), ninc, nknown, time.Since(c.start).Seconds())
	return 0
}

// parallel runs f(i) for i in [0,n) on k goroutines.
func parallel(n, k int, f func(i int)) {
	var wg sync.WaitGroup
	ch := make(chan int)
	for w := 0; w < k; w++ {
		wg.Add(1)
		go func() {
			defer wg.Done()
			for i := range ch {
				f(i)
			}
		}()
	}
	for i := 0; i < n; i++ {
		ch <- i
	}
	close(ch)
	wg.Wait()
}

// ---------------------------------------------------------------------------
// Guard for in-process calls into /repo code (hook entry points). Such a call
// can loop forever or eat memory if the code under test is broken; the driver
// must then report a violation that names the case, not die or hang. A
// goroutine watches the CPU time (not wall time) and the heap used since the
// current guarded call began.
// ---------------------------------------------------------------------------

type guardState struct {
	mu     sync.Mutex
	active map[int]*guardCall
	next   int
	once   sync.Once
}

type guardCall struct {
	desc  string
	cpu0  time.Duration
	files map[string]string
}

func cpuNowCtx() time.Duration {
	var ru syscall.Rusage
	if syscall.Getrusage(syscall.RUSAGE_SELF, &ru) != nil {
		return 0
	}
	return time.Duration(ru.Utime.Nano() + ru.Stime.Nano())
}

var guards guardState

// Guard runs f; if the process burns more than 120 CPU-seconds or grows the
// heap beyond 12 GB while f is running, the case is reported as a violation
// ("does not terminate") and the check ends.
func (c *Ctx) Guard(desc string, files map[string]string, f func()) {
	guards.once.Do(func() {
		guards.active = map[int]*guardCall{}
		go func() {
			for {
				time.Sleep(500 * time.Millisecond)
				var ms runtime.MemStats
				runtime.ReadMemStats(&ms)
				now := cpuNowCtx()
				guards.mu.Lock()
				for _, g := range guards.active {
					// several guarded calls may run at once (worker goroutines):
					// the CPU budget is shared, hence generous
					if now-g.cpu0 > 120*time.Second*time.Duration(len(guards.active)) || ms.HeapAlloc > 12<<30 {
						c.Violation("in-process-call-does-not-terminate", &Replay{Why: fmt.Sprintf("a call into the code under test did not return within its CPU / memory budget (cpu %.0fs, heap %d MB): %s", (now - g.cpu0).Seconds(), ms.HeapAlloc>>20, g.desc), Files: g.files})
						code := c.finish(nil)
						os.Exit(code)
					}
				}
				guards.mu.Unlock()
			}
		}()
	})
	guards.mu.Lock()
	id := guards.next
	guards.next++
	guards.active[id] = &guardCall{desc: desc, cpu0: cpuNowCtx(), files: files}
	guards.mu.Unlock()
	defer func() {
		guards.mu.Lock()
		delete(guards.active, id)
		guards.mu.Unlock()
	}()
	f()
}
