package main

import (
	"fmt"
	"sort"

	"github.com/dcaiafa/lox/verifhook"

	"verif/internal/evidence"
	"verif/internal/lexspec"
	"verif/internal/oracle/lexref"
	"verif/internal/rng"
	"verif/internal/specgen"
)

func init() { register("C15", checkC15) }

type bits uint16 // subset of an 8-point universe

func rangeBits(lo, hi int) bits {
	var b bits
	for i := lo; i <= hi; i++ {
		b |= 1 << uint(i)
	}
	return b
}

// c15SmallScope drives rang3.Flatten / Subtract / Normalize through the hook
// on every list of at most maxN ranges over an 8-point universe placed at
// base (0 or MaxRune-7) and compares with bitset arithmetic.
func c15SmallScope(c *Ctx, base rune, maxN int, sample *rng.R, sampleN int) {
	type rg struct{ lo, hi int }
	var all []rg
	for lo := 0; lo < 8; lo++ {
		for hi := lo; hi < 8; hi++ {
			all = append(all, rg{lo, hi})
		}
	}
	mk := func(rs []rg) []verifhook.Range {
		out := make([]verifhook.Range, len(rs))
		for i, r := range rs {
			out[i] = verifhook.Range{B: base + rune(r.lo), E: base + rune(r.hi)}
		}
		return out
	}
	toBits := func(rs []verifhook.Range) (bits, bool) {
		var b bits
		for _, r := range rs {
			if r.B < base || r.E > base+7 || r.B > r.E {
				return 0, false
			}
			b |= rangeBits(int(r.B-base), int(r.E-base))
		}
		return b, true
	}
	report := func(kind, why string, in any) {
		c.Violation(kind, &Replay{Why: fmt.Sprintf("%s (universe base %d): %s", kind, base, why), Observed: in})
	}
	checkList := func(list []rg) {
		c.Ev.Eval(1)
		var want bits
		touching := false
		for i, r := range list {
			want |= rangeBits(r.lo, r.hi)
			for _, q := range list[:i] {
				if r.lo <= q.hi+1 && q.lo <= r.hi+1 {
					touching = true
				}
			}
		}
		if touching {
			c.Ev.Distinct(fmt.Sprint(base, list))
		}
		in := mk(list)
		// Flatten
		var out []verifhook.Range
		var calls []verifhook.FlattenCall
		c.Guard(fmt.Sprintf("rang3.Flatten(%v)", in), nil, func() { out, calls = verifhook.Flatten(in) })
		got, ok := toBits(out)
		if !ok || got != want {
			report("flatten-wrong-set", fmt.Sprintf("Flatten(%v) = %v", in, out), in)
			return
		}
		for i := range out {
			if i > 0 && out[i].B <= out[i-1].E+1 {
				report("flatten-not-canonical", fmt.Sprintf("Flatten(%v) = %v is not sorted, disjoint and non-adjacent", in, out), in)
				return
			}
		}
		for _, cl := range calls {
			a, _ := toBits([]verifhook.Range{cl.OA})
			b, _ := toBits([]verifhook.Range{cl.OB})
			n, _ := toBits([]verifhook.Range{cl.N})
			if a|b != n {
				report("flatten-callback-wrong", fmt.Sprintf("Flatten(%v) reported merging %v and %v into %v", in, cl.OA, cl.OB, cl.N), in)
				return
			}
		}
		// Normalize on the distinct ranges
		seen := map[rg]bool{}
		var uniq []rg
		for _, r := range list {
			if !seen[r] {
				seen[r] = true
				uniq = append(uniq, r)
			}
		}
		uin := mk(uniq)
		var ncalls []verifhook.NormalizeCall
		c.Guard(fmt.Sprintf("rang3.Normalize(%v)", uin), nil, func() { ncalls = verifhook.Normalize(uin) })
		// shadow labelling: original range -> current pieces
		pieces := map[verifhook.Range]map[verifhook.Range]bool{}
		for _, o := range uin {
			pieces[o] = map[verifhook.Range]bool{o: true}
		}
		for _, cl := range ncalls {
			hit := false
			for _, ps := range pieces {
				if ps[cl.O] {
					hit = true
					delete(ps, cl.O)
					ps[cl.A], ps[cl.B], ps[cl.C] = true, true, true
				}
			}
			if !hit {
				report("normalize-callback-for-unknown-range", fmt.Sprintf("Normalize(%v) split %v which is not a current piece", uin, cl.O), uin)
				return
			}
		}
		var finals []verifhook.Range
		fs := map[verifhook.Range]bool{}
		for o, ps := range pieces {
			var u bits
			for p := range ps {
				pb, ok := toBits([]verifhook.Range{p})
				if !ok {
					report("normalize-piece-out-of-range", fmt.Sprintf("Normalize(%v): piece %v", uin, p), uin)
					return
				}
				if u&pb != 0 {
					report("normalize-pieces-overlap", fmt.Sprintf("Normalize(%v): pieces of %v overlap", uin, o), uin)
					return
				}
				u |= pb
				if !fs[p] {
					fs[p] = true
					finals = append(finals, p)
				}
			}
			ob, _ := toBits([]verifhook.Range{o})
			if u != ob {
				report("normalize-class-not-union-of-pieces", fmt.Sprintf("Normalize(%v): %v became %v", uin, o, ps), uin)
				return
			}
		}
		sort.Slice(finals, func(i, j int) bool { return finals[i].B < finals[j].B })
		for i := 1; i < len(finals); i++ {
			if finals[i].B <= finals[i-1].E {
				report("normalize-pieces-not-disjoint", fmt.Sprintf("Normalize(%v): final pieces %v and %v overlap", uin, finals[i-1], finals[i]), uin)
				return
			}
		}
	}
	checkSub := func(a, b []rg) {
		c.Ev.Eval(1)
		var wa, wb bits
		for _, r := range a {
			wa |= rangeBits(r.lo, r.hi)
		}
		for _, r := range b {
			wb |= rangeBits(r.lo, r.hi)
		}
		var out []verifhook.Range
		c.Guard(fmt.Sprintf("rang3.Subtract(%v, %v)", mk(a), mk(b)), nil, func() { out = verifhook.Subtract(mk(a), mk(b)) })
		got, ok := toBits(out)
		if !ok || got != wa&^wb {
			report("subtract-wrong-set", fmt.Sprintf("Subtract(%v, %v) = %v", mk(a), mk(b), out), nil)
			return
		}
	}
	// lists of exactly n ranges, n = 0..maxN, completely
	var rec func(list []rg, n int)
	rec = func(list []rg, n int) {
		checkList(list)
		if len(list) == n {
			return
		}
		for _, r := range all {
			rec(append(list, r), n)
		}
	}
	rec(nil, maxN)
	// sampled longer lists
	for i := 0; i < sampleN; i++ {
		n := maxN + 1 + sample.Intn(3)
		list := make([]rg, n)
		for k := range list {
			list[k] = all[sample.Intn(len(all))]
		}
		checkList(list)
	}
	// Subtract: every pair of lists of at most 2 ranges
	var lists [][]rg
	lists = append(lists, nil)
	for _, r := range all {
		lists = append(lists, []rg{r})
	}
	if maxN >= 3 {
		for _, r := range all {
			for _, s := range all {
				lists = append(lists, []rg{r, s})
			}
		}
	}
	for _, a := range lists {
		for _, b := range lists {
			if len(a)+len(b) > 3 && maxN < 4 {
				continue
			}
			checkSub(a, b)
		}
	}
}

// classSpec draws a specification whose token rules are single class
// expressions (deliberately overlapping; earliest wins) or literals.
func classSpec(r *rng.R) (*lexspec.Spec, specgen.Alphabet, []rune) {
	pts := []rune{0, 1, 0x7E, 0x7F, 0x80, 0x81, 0x7FF, 0x800, 0x801, 0xD7FF, 0xE000, 0xFFFD, 0xFFFE, 0xFFFF, 0x10000, 0x10001, 0x10FFFE, 0x10FFFF,
		'a', 'b', 'c', 'm', 'z', '0', '9', ' ', '-', ']', '\\', '\'', '\t', '\r', 0xE9, 0x3A9, 0x4E16, 0x1F600}
	pick := func() rune { return pts[r.Intn(len(pts))] }
	var probes []rune
	s := &lexspec.Spec{}
	class := func() lexspec.Class {
		c := lexspec.Class{Raw: r.Chance(1, 2)}
		n := r.Range(1, 4)
		for i := 0; i < n; i++ {
			lo := pick()
			hi := lo
			if r.Chance(2, 3) {
				hi = pick()
				if hi < lo {
					lo, hi = hi, lo
				}
			}
			c.Items = append(c.Items, lexspec.Item{Lo: lo, Hi: hi})
			probes = append(probes, lo-1, lo, lo+1, hi-1, hi, hi+1)
		}
		return c
	}
	n := r.Range(2, 6)
	for i := 0; i < n; i++ {
		var x lexspec.Rx
		switch r.Intn(9) {
		case 8:
			// negation whose leading or trailing gap is 0, 1 or 2 code points
			// wide: the complement's pieces at the two ends of the code-point
			// space
			c := class()
			k := rune(r.Intn(3))
			if r.Chance(1, 2) {
				lo := pick()
				if lo > 0x10FFFF-k {
					lo = 0x10FFFF - k // never a range whose lower bound is above its upper bound
				}
				c.Items = append(c.Items, lexspec.Item{Lo: lo, Hi: 0x10FFFF - k})
				probes = append(probes, lo-1, lo, 0x10FFFF-k-1, 0x10FFFF-k, 0x10FFFF-k+1, 0x10FFFF)
			} else {
				hi := pick()
				if hi < k {
					hi = k
				}
				c.Items = append(c.Items, lexspec.Item{Lo: k, Hi: hi})
				probes = append(probes, 0, k-1, k, k+1, hi, hi+1)
			}
			c.Neg = true
			if c.Set().Empty() {
				c.Neg = false
			}
			x = c
		case 0:
			c := class()
			c.Neg = true
			if c.Set().Empty() {
				c.Neg = false
			}
			x = c
		case 1, 2:
			a, b := class(), class()
			if a.Set().Diff(b.Set()).Empty() {
				x = a
			} else {
				x = lexspec.Diff{A: a, B: b}
			}
		case 3:
			if i == n-1 {
				x = lexspec.Any{}
			} else {
				x = class()
			}
		case 4:
			// literal with escapes and multi-byte characters
			k := r.Range(1, 3)
			l := lexspec.Lit{S: make([]rune, k), Esc: make([]bool, k), Raw: r.Chance(1, 2)}
			for j := range l.S {
				l.S[j] = pick()
				for l.S[j] == '\n' {
					l.S[j] = pick()
				}
				l.Esc[j] = r.Chance(1, 2)
			}
			x = l
		default:
			x = class()
		}
		s.Entries = append(s.Entries, lexspec.Entry{Rule: &lexspec.Rule{Kind: lexspec.RToken, Name: fmt.Sprintf("K%d", i), Rx: x}})
	}
	probes = append(probes, 0, 0x10FFFF, 0x7F, 0x80, 0x7FF, 0x800, 0xFFFF, 0x10000)
	for i := 0; i < 60; i++ {
		probes = append(probes, rune(r.Intn(0x110000)))
	}
	var alpha specgen.Alphabet
	for _, p := range pts[:8] {
		alpha = append(alpha, p)
	}
	return s, alpha, probes
}

func checkC15(c *Ctx) error {
	c.Ev = evidence.New("C15", c.Tier, c.Seed, "exploration",
		"(1) small scope, exhaustive: rang3.Flatten, Subtract and Normalize are driven through the hook on EVERY list of at most N ranges over an 8-point universe placed at 0 and at U+10FFF8..U+10FFFF (N=3 quick, 4 thorough; plus sampled longer lists) and compared with bitset arithmetic: Flatten = union, canonical, callbacks consistent; Subtract = difference; after Normalize (callbacks replayed on a shadow labelling, as the mode builder does) every original range is exactly the disjoint union of its pieces and all pieces are pairwise disjoint. (2) full scale: specifications whose rules are single class expressions (ranges, single characters, all listed escapes, raw multi-byte characters, negation, difference, '.') and literals, deliberately overlapping, probed through the real generated state machine and driver with single code points: every range end point and its neighbours, 0, U+10FFFF, the UTF-8 width boundaries and random code points; the label must be the earliest class containing the code point (ERROR if none). Non-trivial: (1) lists with at least two overlapping or adjacent ranges; (2) probes within one code point of a class boundary; distinct by list / spec+probe.")
	c.Ev.Assumptions = []string{
		"escape end points never denote surrogates or values above U+10FFFF (Go strings cannot carry them); \\x is not among the escapes the property lists",
		"surrogate code points cannot be supplied as input (not encodable in UTF-8) and are not probed",
	}
	maxN := c.N(3, 4)
	r := c.R.Derive("sample", 0)
	c15SmallScope(c, 0, maxN, r, c.N(20000, 300000))
	c15SmallScope(c, verifhook.MaxRune-7, maxN, r, c.N(20000, 300000))
	exh := true
	c.Ev.Exhaustive = &exh
	c.Ev.Set("small_scope", fmt.Sprintf("all lists of <= %d ranges over 8 points at both ends of the code-point space: enumerated completely", maxN))
	c.Ev.Count("small_scope_cases", c.Ev.Evals())
	c.Logf("small scope done: %d cases", c.Ev.Evals())

	probesOf := map[*LCase][]rune{}
	return runLexCheck(c, &lexCheckSpec{
		id: "C15",
		draw: func(d *lexDrawer, rr *rng.R) *LCase {
			for try := 0; try < 200; try++ {
				s, a, probes := classSpec(rr)
				lc := newLCase(s, a, "class-probe", true)
				if !noNullableRule(lc) {
					continue
				}
				d.mu.Lock()
				probesOf[lc] = probes
				d.drawn++
				d.mu.Unlock()
				return lc
			}
			return nil
		},
		inputs: func(lc *LCase, rr *rng.R) [][]byte {
			var out [][]byte
			for _, p := range probesOf[lc] {
				if p < 0 || p > 0x10FFFF || (p >= 0xD800 && p <= 0xDFFF) {
					continue
				}
				out = append(out, []byte(string(p)))
			}
			// literals: the literal text itself and near misses
			for _, e := range lc.Spec.Entries {
				if l, ok := e.Rule.Rx.(lexspec.Lit); ok {
					out = append(out, []byte(string(l.S)))
					if len(l.S) > 1 {
						out = append(out, []byte(string(l.S[:len(l.S)-1])))
					}
				}
			}
			return out
		},
		nBatches: [2]int{3, 30}, nCLI: [2]int{1, 4}, per: 28,
		nontrivial: func(lc *LCase, in []byte, ref *lexref.Result) bool { return true },
	})
}
