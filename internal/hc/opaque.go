package hc

// Opaque aliases: types that another package can name only through the alias
// (C06: a rule typed hc.Span or hc.Handle must appear in the generated code
// under that name; the type the alias stands for cannot be spelled outside
// this package).

type hidden struct{ id int }

// Span is an unnamed struct type with unexported fields.
type Span = struct{ lo, hi int }

// Handle is a pointer to an unexported type.
type Handle = *hidden

func MkSpan(id int) Span { return Span{lo: id, hi: -id} }
func SpanID(s Span) int  { return s.lo }

func MkHandle(id int) Handle { return &hidden{id: id} }
func HandleID(h Handle) int {
	if h == nil {
		return 0
	}
	return h.id
}
