#!/bin/sh
# Run once after a fresh restore (offline): builds the driver (warming the
# regular Go build cache with /repo's packages and the oracles) and a warm
# scratch build cache for the throw-away harness modules.
cd "$(dirname "$0")" || exit 1
export GOFLAGS=-mod=mod GOPROXY=off GOSUMDB=off GOTOOLCHAIN=local
export VERIF_DIR="$(pwd)"
set -e
mkdir -p .cache/bin evidence
go build -tags verif -o .cache/bin/vcheck.setup ./cmd/vcheck
(cd /repo && go build -tags verif -o /dev/null ./cmd/lox)
rm -rf .cache/warm-gocache.tmp
mkdir -p .cache/warm-gocache.tmp
VERIF_WARM_OUT="$(pwd)/.cache/warm-gocache.tmp" .cache/bin/vcheck.setup warmcache
rm -rf .cache/warm-gocache
mv .cache/warm-gocache.tmp .cache/warm-gocache
rm -f .cache/bin/vcheck.setup
# the coverage-instrumented build of the C12 fuzz target (first build takes minutes; one execution only)
mkdir -p .cache/fuzzwarm
VERIF_FUZZ_WORK="$(pwd)/.cache/fuzzwarm" go test -tags verif -run '^$' -fuzz '^FuzzFrontEnd$' -fuzztime 1x ./internal/fuzzfe -test.fuzzcachedir="$(pwd)/.cache/fuzzwarm" >/dev/null 2>&1 || true
rm -rf .cache/fuzzwarm internal/fuzzfe/testdata
echo "setup done"
