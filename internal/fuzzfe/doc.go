// Package fuzzfe holds the coverage-guided fuzz target of the C12 check
// (fuzz_test.go, build tag verif). The target is only a crash finder: every
// input it reports is run again through the real CLI by cmd/vcheck before
// anything is reported.
package fuzzfe
