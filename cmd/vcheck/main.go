// vcheck is the single driver of all checks:
//
//	vcheck <ID> [--tier quick|thorough] [--replay <dir>]
//	vcheck genworker [-report] <pkgdir>...     (internal: in-process generation)
//
// Environment: VERIF_SEED (default 1), VERIF_TIER (overrides --tier).
package main

import (
	"fmt"
	"os"
	"sort"
	"strconv"
	"strings"
)

type checkFn func(c *Ctx) error

var checks = map[string]checkFn{}

func register(id string, f checkFn) { checks[id] = f }

func main() {
	if len(os.Args) < 2 {
		usage()
	}
	if os.Args[1] == "genworker" {
		genWorker(os.Args[2:])
		return
	}
	if os.Args[1] == "fuzzworker" {
		fuzzWorker(os.Args[2])
		return
	}
	if os.Args[1] == "warmcache" {
		os.Exit(warmCache())
	}
	if os.Args[1] == "selftest-gen" {
		selfTestGen(os.Args[2:])
		return
	}
	id := os.Args[1]
	tier := "quick"
	replay := ""
	for i := 2; i < len(os.Args); i++ {
		switch os.Args[i] {
		case "--tier":
			i++
			if i < len(os.Args) {
				tier = os.Args[i]
			}
		case "--replay":
			i++
			if i < len(os.Args) {
				replay = os.Args[i]
			}
		default:
			usage()
		}
	}
	if t := os.Getenv("VERIF_TIER"); t == "quick" || t == "thorough" {
		tier = t
	}
	seed := int64(1)
	if s := os.Getenv("VERIF_SEED"); s != "" {
		if v, err := strconv.ParseInt(s, 10, 64); err == nil {
			seed = v
		}
	}
	if replay != "" {
		os.Exit(runReplay(id, replay))
	}
	f := checks[id]
	if f == nil {
		fmt.Fprintf(os.Stderr, "unknown check %q\n", id)
		usage()
	}
	if tier != "quick" && tier != "thorough" {
		usage()
	}
	c, err := newCtx(id, tier, seed)
	if err != nil {
		fmt.Fprintf(os.Stderr, "setup failed: %v\n", err)
		os.Exit(2)
	}
	err = f(c)
	code := c.finish(err)
	os.Exit(code)
}

func usage() {
	ids := make([]string, 0, len(checks))
	for id := range checks {
		ids = append(ids, id)
	}
	sort.Strings(ids)
	fmt.Fprintf(os.Stderr, "usage: vcheck <ID> [--tier quick|thorough] [--replay <dir>]\nchecks: %s\n", strings.Join(ids, " "))
	os.Exit(2)
}
