package main

import (
	"fmt"
	"sync"
	"time"

	"verif/internal/evidence"
	"verif/internal/hc"
	"verif/internal/oracle/lexref"
	"verif/internal/rng"
	"verif/internal/run"
	"verif/internal/specgen"
)

func init() { register("C02", checkC02) }

// lexCheckSpec parameterises the token-stream checks C02, C07, C08.
type lexCheckSpec struct {
	id        string
	opts      func(r *rng.R) specgen.LexOpts
	draw      func(d *lexDrawer, r *rng.R) *LCase // overrides opts when set
	accept    func(*LCase) bool
	nBatches  [2]int
	nCLI      [2]int
	per       int
	nInputs   [2]int
	exhLen    [2]int
	rec       bool
	nontrivial func(lc *LCase, in []byte, ref *lexref.Result) bool
	extra     func(c *Ctx, lc *LCase, in []byte, ref *lexref.Result, obs *hc.LexRun) string // additional oracle
	skipCase  func(ref *lexref.Result) bool
	always    func(c *Ctx, lc *LCase, in []byte, obs *hc.LexRun) string // oracle that also applies to inputs skipCase leaves unjudged
	inputs    func(lc *LCase, r *rng.R) [][]byte // overrides the generic input generator
	noRef     bool // do not compare with the reference token stream (C11: the oracle is conservation, not equality)
	violKind  string
}

func checkC02(c *Ctx) error {
	c.Ev = evidence.New("C02", c.Tier, c.Seed, "exploration",
		"single-mode rule sets over a small alphabet (ASCII specials, multi-byte, class- and UTF-8-width-boundary code points): literals, classes, negation, difference, '.', grouping, |, ?, *, +, macros; rules overlap on purpose (common prefixes, keyword vs identifier, one rule a prefix of another); kept only if every class is non-empty and no rule matches the empty string (asked of the reference engine). Inputs: concatenations of sampled matches, truncated and near matches, alphabet and boundary characters, invalid UTF-8, newlines; plus every string up to a length bound over the alphabet. The real generated state machine runs under the real simplelexer driver; the token stream (type, offset, length) is compared with a reference tokenizer (regex derivatives: longest viable prefix, earliest rule matching exactly that prefix, else ERROR at the token start) up to and including the first ERROR. Non-trivial: inputs producing at least 2 tokens or an ERROR after at least one consumed character; distinct by spec+input.")
	c.Ev.Assumptions = []string{
		"reference driver simplelexer v0.5.0 (invalid UTF-8 byte = U+FFFD of width 1; ERROR token carries the start offset of the pending text)",
		"comparison stops after the first ERROR token (the driver's resynchronisation is not part of the property)",
		"all rules in one file (lox refuses to order overlapping rules across files, by design)",
	}
	return runLexCheck(c, &lexCheckSpec{
		id: "C02",
		opts: func(r *rng.R) specgen.LexOpts {
			return specgen.LexOpts{Wide: r.Chance(1, 2), Macros: true, NoNullable: true, MaxRules: 6}
		},
		accept:   noNullableRule,
		nBatches: [2]int{3, 40}, nCLI: [2]int{1, 5}, per: 28,
		nInputs: [2]int{250, 800}, exhLen: [2]int{5, 7},
		nontrivial: func(lc *LCase, in []byte, ref *lexref.Result) bool {
			if len(ref.Toks) >= 3 {
				return true
			}
			last := ref.Toks[len(ref.Toks)-1]
			return last.Type == 1 && len(in) > 1
		},
	})
}

func pick2(c *Ctx, v [2]int) int { return c.N(v[0], v[1]) }

func runLexCheck(c *Ctx, sp *lexCheckSpec) error {
	d := newLexDrawer()
	fastOK := true
	var mu sync.Mutex
	nB, nCLI := pick2(c, sp.nBatches), pick2(c, sp.nCLI)
	doBatch := func(bi int) {
		r := c.R.Derive("batch", bi)
		var cases []*LCase
		for len(cases) < sp.per {
			var lc *LCase
			if sp.draw != nil {
				lc = sp.draw(d, r)
			} else {
				lc = d.draw(r, sp.opts(r), "random-lexer", sp.accept)
			}
			if lc == nil {
				break
			}
			cases = append(cases, lc)
		}
		mu.Lock()
		fast := bi >= nCLI && fastOK
		mu.Unlock()
		b, err := genLexBatch(c, cases, fast)
		if err != nil {
			c.Inconclusive("batch-build-failed")
			c.Logf("batch %d: %v", bi, err)
			return
		}
		defer b.Remove()
		if bi == 0 {
			ok := crossCheckFastLex(c, cases)
			mu.Lock()
			fastOK = ok
			mu.Unlock()
		}
		lexRunBatch(c, sp, r, b, cases)
	}
	doBatch(0)
	parallel(nB-1, 4, func(i int) { doBatch(i + 1) })
	c.Ev.Set("specs_drawn", d.drawn)
	c.Ev.Set("specs_not_meeting_preconditions", d.rejected)
	c.nontrivMin = 300
	return nil
}

func lexRunBatch(c *Ctx, sp *lexCheckSpec, r *rng.R, b *run.Batch, cases []*LCase) {
	type plan struct {
		lc     *LCase
		inputs [][]byte
	}
	plans := map[int]*plan{}
	var jobs []hc.Job
	for i, lc := range cases {
		if !lc.Pkg.GenOK {
			c.Violation("valid-lexer-spec-rejected", lc.replay(fmt.Sprintf("lox rejected a well-formed lexer specification (exit %d):\n%s", lc.Pkg.Exit, lc.Pkg.Diag), nil, nil, nil))
			continue
		}
		if lc.Pkg.BuildErr != "" {
			c.Violation("generated-code-does-not-compile", lc.replay(lc.Pkg.BuildErr, nil, nil, nil))
			continue
		}
		c.Ev.Count("specs_run", 1)
		rr := r.Derive("inputs", i)
		var ins [][]byte
		if sp.inputs != nil {
			ins = sp.inputs(lc, rr)
		} else {
			for k := 0; k < pick2(c, sp.nInputs); k++ {
				ins = append(ins, specgen.LexInput(rr, lc.Ctx, lc.Res, lc.Alpha, lc.Wide, 10))
			}
		}
		if sp.inputs != nil {
			// custom inputs only
		} else if len(lc.Alpha) <= 4 {
			ins = append(ins, exhaustiveInputs(lc.Alpha, pick2(c, sp.exhLen), c.N(1500, 20000))...)
			c.Ev.Count("specs_with_exhaustive_inputs", 1)
		} else {
			ins = append(ins, exhaustiveInputs(lc.Alpha, 3, 400)...)
		}
		ins = dedupInputs(ins)
		plans[i] = &plan{lc: lc, inputs: ins}
		jobs = append(jobs, run.MkJob(i, lc.Pkg.Name, "lex", hc.LexJob{Inputs: ins, Rec: sp.rec}))
	}
	if len(jobs) == 0 {
		return
	}
	results, suspects, err := b.RunAll(jobs, 3*time.Minute, 20)
	if err != nil {
		c.Inconclusive("batch-run-failed")
		c.Logf("run: %v", err)
	}
	for range suspects {
		c.Inconclusive("job-crashed-or-hung")
	}
	for i, pl := range plans {
		lc := pl.lc
		res, err := decodeRes[hc.LexRes](results[i])
		if err != nil {
			if hung := lexHangInput(err); hung != "" {
				c.Violation("lexer-does-not-terminate", lc.replay("the state machine / driver exhausted a 5 s CPU budget on input "+hung, nil, nil, nil))
			} else {
				c.Inconclusive("job-no-result")
				c.Logf("%s: %v", lc.Pkg.Name, err)
			}
			continue
		}
		if len(res.Runs) != len(pl.inputs) {
			c.Inconclusive("result-length-mismatch")
			continue
		}
		nv := 0
		for k, in := range pl.inputs {
			obs := &res.Runs[k]
			ref := lc.Ref.Run(in)
			c.Ev.Eval(1)
			if sp.skipCase != nil && sp.skipCase(ref) {
				c.Ev.Count("inputs_outside_the_property", 1)
				if sp.always != nil {
					if why := sp.always(c, lc, in, obs); why != "" {
						c.Violation("token-stream-differs", lc.replay(fmt.Sprintf("input %q: %s", in, why),
							[]hc.Job{run.MkJob(1, "", "lex", hc.LexJob{Inputs: [][]byte{in}, Rec: true})}, nil, showObsToks(obs.Toks, 40)))
					}
				}
				continue
			}
			if !sp.noRef && ref.PopEmpty {
				c.Ev.Count("inputs_outside_the_property", 1)
				continue
			}
			if sp.nontrivial != nil && sp.nontrivial(lc, in, ref) {
				c.Ev.Distinct(lc.Lox + string(in))
			}
			c.Ev.Count("tokens_compared", len(ref.Toks))
			c.Ev.Count("pushrune_calls_observed", obs.NPush)
			why := ""
			switch {
			case len(obs.End) >= 6 && obs.End[:6] == "panic:":
				why = "generated code panicked: " + firstLine(obs.End)
			case len(obs.End) >= 5 && obs.End[:5] == "stop:":
				why = "monitor stopped the run: " + obs.End
			default:
				if !sp.noRef {
					why = compareTokens(ref, obs)
				}
			}
			if why == "" && sp.extra != nil {
				why = sp.extra(c, lc, in, ref, obs)
			}
			if why == "" {
				if c.Ev.WantSample() && len(pl.inputs) > 0 {
					c.Ev.Sample(map[string]any{"lox": lc.Lox, "input": fmt.Sprintf("%q", pl.inputs[len(pl.inputs)/2]), "tokens": showObsToks(res.Runs[len(pl.inputs)/2].Toks, 12)})
				}
				continue
			}
			vk := "token-stream-differs"
			if sp.violKind != "" {
				vk = sp.violKind
			}
			nv++
			if nv > 2 {
				c.mu.Lock()
				c.nviol++
				c.violKinds[vk]++
				c.mu.Unlock()
				continue
			}
			c.Violation(vk, lc.replay(fmt.Sprintf("input %q: %s", in, why),
				[]hc.Job{run.MkJob(1, "", "lex", hc.LexJob{Inputs: [][]byte{in}, Rec: true})},
				showRefToks(ref.Toks), showObsToks(obs.Toks, 40)))
		}
	}
}

func lexHangInput(err error) string {
	msg := err.Error()
	const p = "cpu-budget input="
	for i := 0; i+len(p) <= len(msg); i++ {
		if msg[i:i+len(p)] == p {
			return msg[i+len(p):]
		}
	}
	return ""
}
