//go:build verif

package fuzzfe

import (
	"bytes"
	"os"
	"path/filepath"
	"sort"
	"strings"
	"syscall"
	"testing"
	"time"

	"github.com/dcaiafa/lox/verifhook"
)

// Sep separates the files of a multi-file specification inside one fuzz input.
const Sep = "\n%%FILE%%\n"

func cpuNow() time.Duration {
	var ru syscall.Rusage
	if syscall.Getrusage(syscall.RUSAGE_SELF, &ru) != nil {
		return 0
	}
	return time.Duration(ru.Utime.Nano() + ru.Stime.Nano())
}

// FuzzFrontEnd drives the real front end (parse, analysis, LALR and DFA
// construction, and for specifications it accepts the base and lexer
// emitters) with coverage guidance. A panic, a failure without diagnostic or
// an exhausted CPU budget on a small input fails the target; the Go fuzzing
// engine then stores the input under testdata/fuzz/FuzzFrontEnd.
func FuzzFrontEnd(f *testing.F) {
	if dir := os.Getenv("VERIF_FUZZ_SEEDS"); dir != "" {
		ents, _ := os.ReadDir(dir)
		var names []string
		for _, e := range ents {
			names = append(names, e.Name())
		}
		sort.Strings(names)
		for _, n := range names {
			if data, err := os.ReadFile(filepath.Join(dir, n)); err == nil {
				f.Add(data)
			}
		}
	}
	f.Add([]byte("@lexer\nA = 'a'\n\n@parser\n@start s = A\n"))
	work, err := os.MkdirTemp(os.Getenv("VERIF_FUZZ_WORK"), "fz")
	if err != nil {
		f.Fatal(err)
	}
	f.Cleanup(func() { os.RemoveAll(work) })
	f.Fuzz(func(t *testing.T, data []byte) {
		if len(data) > 3000 {
			t.Skip()
		}
		dir := filepath.Join(work, "p")
		os.RemoveAll(dir)
		os.MkdirAll(dir, 0o755)
		for i, part := range strings.Split(string(data), Sep) {
			if i > 3 {
				break
			}
			os.WriteFile(filepath.Join(dir, string(rune('a'+i))+".lox"), []byte(part), 0o644)
		}
		start := cpuNow()
		var diag bytes.Buffer
		fe := verifhook.ParseLox(dir, &diag, nil)
		ok := fe != nil && fe.OK
		if !ok && diag.Len() == 0 {
			t.Fatalf("front end failed without printing any diagnostic")
		}
		if ok {
			var d2 bytes.Buffer
			if !verifhook.GenerateLexerOnly(dir, &d2, nil) && d2.Len() == 0 {
				t.Fatalf("lexer emission failed without printing any diagnostic")
			}
		}
		if cpuNow()-start > 30*time.Second {
			t.Fatalf("cpu budget: more than 30 s of CPU time on %d bytes", len(data))
		}
	})
}
