package main

import (
	"bytes"
	"crypto/sha256"
	"fmt"
	"os"
	"path/filepath"
	"strings"
	"sync"

	"github.com/dcaiafa/lox/verifhook"

	"verif/internal/evidence"
	"verif/internal/gram"
	"verif/internal/oracle/lalr"
	"verif/internal/rng"
	"verif/internal/specgen"
)

func init() { register("C04", checkC04) }

// c04Case is one grammar with its reference verdict.
type c04Case struct {
	G        *gram.Grammar
	C        *gram.CFG
	Tbl      *lalr.Table
	RR       *refResolution
	Origin   string
	WantConf bool // reference: an unresolved conflict remains
}

var twists = []string{"", "", "", "unqualified-op", "cross-rule", "reduce-reduce", "mixed-assoc-level", "mixed-shift-levels", "three-way-cell", "unqualified-prefix", "unqualified-postfix", "unqualified-shares-operator"}

// drawC04 draws a grammar of any kind (conflict-free, ambiguous, LR(1) but
// not LALR(1), precedence-resolved, precedence-must-not-help). Returns nil if
// the reference cannot judge it (budget) or leaves it unspecified.
func drawC04(r *rng.R, stats map[string]int, mu *sync.Mutex) *c04Case {
	for try := 0; try < 1000; try++ {
		cs := &c04Case{}
		switch r.Intn(12) {
		case 0, 1, 2:
			cs.G = specgen.StructuredGrammar(r)
			cs.Origin = "structured"
		case 3, 4, 5:
			cs.G = specgen.RandomGrammar(r, specgen.DefaultGrammarOpts())
			cs.Origin = "random"
		case 6:
			o := specgen.DefaultGrammarOpts()
			o.MaxRules, o.MaxProds, o.MaxLen, o.MaxTok = 3, 3, 3, 3
			cs.G = specgen.RandomGrammar(r, o)
			cs.Origin = "random-small"
		case 7:
			if r.Chance(1, 3) {
				cs.G = specgen.ErrorNameClashGrammar(r)
				cs.Origin = "rule-named-ERROR"
				break
			}
			cs.G = specgen.NotLALRGrammar(r)
			cs.Origin = "lr1-not-lalr1"
		default:
			tw := twists[r.Intn(len(twists))]
			cs.G = specgen.ExprGrammar(r, tw).G
			cs.Origin = "expr"
			if tw != "" {
				cs.Origin += "/" + tw
			}
		}
		if r.Chance(1, 3) && cs.Origin != "rule-named-ERROR" {
			specgen.RenameSymbols(r, cs.G)
		}
		if r.Chance(1, 2) {
			// declaration order of the rules is part of the input (production
			// indices, item order inside states)
			cs.G.PermuteRules(r.Perm(len(cs.G.Rules)))
		}
		if r.Chance(1, 8) && !strings.HasPrefix(cs.Origin, "expr") && cs.Origin != "rule-named-ERROR" {
			specgen.AddErrors(r, cs.G)
			cs.Origin += "+error"
		}
		cs.C = cs.G.Desugar(false)
		tbl, err := lalr.Build(toLalr(cs.C), 3000)
		if err != nil {
			mu.Lock()
			stats["reference_over_budget"]++
			mu.Unlock()
			continue
		}
		cs.Tbl = tbl
		cs.RR = resolveRef(tbl, cs.C)
		if cs.RR.Unspecified {
			mu.Lock()
			stats["skipped_unspecified_by_documentation"]++
			mu.Unlock()
			continue
		}
		cs.WantConf = len(cs.RR.Unresolved) > 0
		return cs
	}
	return nil
}

func (cs *c04Case) kindKey() string {
	if !cs.WantConf {
		if cs.RR.Kinds["resolved-by-level"]+cs.RR.Kinds["resolved-by-associativity"] > 0 {
			return "accepted-after-precedence-resolution"
		}
		return "conflict-free"
	}
	parts := []string{}
	for _, k := range []string{"reduce-reduce", "multi-way", "shift-reduce-across-rules", "shift-reduce-unqualified", "shift-levels-differ"} {
		if cs.RR.Kinds[k] > 0 {
			parts = append(parts, k)
		}
	}
	return "conflict:" + strings.Join(parts, "+")
}

func checkC04(c *Ctx) error {
	c.Ev = evidence.New("C04", c.Tier, c.Seed, "exploration",
		"grammars of every kind (structured, random, operator tables with @left/@right, deliberately unresolvable variants: unqualified operator, conflict across rules, reduce/reduce between qualified alternatives; the LR(1)-but-not-LALR(1) pattern) are judged by an independent reference: canonical LR(1) -> merge by core, then the documented precedence rule. Three observation points of the real code: P0 = lr1.ConstructLALR driven directly (hook), P2 = the real ParseLox stage on .lox text (hook, in-process), P1 = the lox CLI (exit status and 'grammar has conflicts'). Verdict must equal the reference verdict; for every grammar the whole automaton (every action cell, every goto) must be isomorphic to the reference (cells decided by equal-level associativity: only 'exactly one action', direction is C05). Non-trivial: grammars with at least one conflict cell before resolution, or at least 8 states; distinct by grammar text.")
	c.Ev.Assumptions = []string{
		"reference: internal/oracle/lalr (textbook construction, differentially tested) + documented rule: one shift + one reduce, all productions of one rule, all explicitly qualified; higher level wins, equal level by associativity",
		"a cell whose shifting productions carry different levels stays a conflict (any choice would be a silent pick); grammars in which one level mixes @left and @right in a cell decided by associativity are skipped (documentation does not say)",
	}
	stats := map[string]int{}
	var mu sync.Mutex
	seen := map[[32]byte]bool{}
	nP0 := c.N(6000, 150000)
	nP2 := c.N(400, 6000)
	nP1 := c.N(40, 300)

	// ---- P0: lr1 directly -------------------------------------------------
	parallel(8, 8, func(w int) {
		r := c.R.Derive("p0", w)
		for i := 0; i < nP0/8; i++ {
			cs := drawC04(r, stats, &mu)
			if cs == nil {
				continue
			}
			var d *verifhook.ParserDump
			c.Guard("lr1.ConstructLALR on the grammar in g.lox", map[string]string{"g.lox": loxOf(cs.G)}, func() { d = verifhook.BuildLALR(hookSpec(cs.C)) })
			c.Ev.Eval(1)
			c04Judge(c, cs, d.HasConflicts, d, "P0(lr1.ConstructLALR)", &mu, seen)
		}
	})
	c.Logf("P0 done: %d evaluations", c.Ev.Evals())

	// ---- P2: real ParseLox stage on text ----------------------------------
	tmp, err := os.MkdirTemp(c.Env.Scratch, "c04-")
	if err != nil {
		return err
	}
	parallel(4, 4, func(w int) {
		r := c.R.Derive("p2", w)
		dir := filepath.Join(tmp, fmt.Sprintf("w%d", w))
		os.MkdirAll(dir, 0o755)
		for i := 0; i < nP2/4; i++ {
			cs := drawC04(r, stats, &mu)
			if cs == nil {
				continue
			}
			lox, _ := cs.G.Lox()
			os.WriteFile(filepath.Join(dir, "g.lox"), []byte(lox), 0o644)
			var diag bytes.Buffer
			var fe *verifhook.FrontEnd
			func() {
				defer func() {
					if rec := recover(); rec != nil {
						diag.WriteString(fmt.Sprintf("panic: %v", rec))
					}
				}()
				c.Guard("ParseLox on g.lox", map[string]string{"g.lox": lox}, func() { fe = verifhook.ParseLox(dir, &diag, nil) })
			}()
			c.Ev.Eval(1)
			if fe == nil || fe.Parser == nil {
				c.Violation("front-end-failed-on-valid-spec", &Replay{Why: "ParseLox produced no automaton for a well-formed specification: " + diag.String(), Files: map[string]string{"g.lox": lox}})
				continue
			}
			gotConf := !fe.OK && strings.Contains(diag.String(), "grammar has conflicts")
			if !fe.OK && !gotConf {
				c.Violation("rejected-for-another-reason", &Replay{Why: "lox rejected a well-formed specification: " + diag.String(), Files: map[string]string{"g.lox": lox}})
				continue
			}
			if fe.Parser.HasConflicts != gotConf {
				c.Violation("conflict-flag-and-verdict-disagree", &Replay{Why: fmt.Sprintf("ParserTable.HasConflicts=%v but ParseLox ok=%v diag=%q", fe.Parser.HasConflicts, fe.OK, diag.String()), Files: map[string]string{"g.lox": lox}})
				continue
			}
			c04Judge(c, cs, gotConf, fe.Parser, "P2(ParseLox)", &mu, seen)
		}
	})
	c.Logf("P2 done: %d evaluations", c.Ev.Evals())

	// ---- P1: CLI ------------------------------------------------------------
	r := c.R.Derive("p1", 0)
	var cases []*PCase
	var want []*c04Case
	for len(cases) < nP1 {
		cs := drawC04(r, stats, &mu)
		if cs == nil {
			break
		}
		pc := &PCase{G: cs.G, Origin: cs.Origin, C: cs.C, Opt: gram.HarnessOpt{}}
		pc.prepare()
		cases = append(cases, pc)
		want = append(want, cs)
	}
	for off := 0; off < len(cases); off += 40 {
		end := off + 40
		if end > len(cases) {
			end = len(cases)
		}
		b, err := c.Env.NewBatch()
		if err != nil {
			return err
		}
		for _, pc := range cases[off:end] {
			p, err := b.Add(pc.Files, pc.Intern, pc.Stub, pc)
			if err != nil {
				return err
			}
			pc.Pkg = p
		}
		b.GenerateCLI(true)
		for i, pc := range cases[off:end] {
			cs := want[off+i]
			c.Ev.Eval(1)
			c.Ev.Count("cli_runs", 1)
			gotConf := pc.Pkg.Exit != 0 && strings.Contains(pc.Pkg.Diag, "grammar has conflicts")
			key := sha256.Sum256([]byte(pc.Lox))
			_ = key
			switch {
			case pc.Pkg.Exit != 0 && !gotConf:
				c.Violation("cli-rejected-for-another-reason", pc.replay(fmt.Sprintf("lox exit=%d on a well-formed specification:\n%s", pc.Pkg.Exit, pc.Pkg.Diag), nil, nil, nil))
			case gotConf != cs.WantConf:
				c.Violation("cli-wrong-conflict-verdict", pc.replay(fmt.Sprintf("reference says conflicts=%v (%s, %v), lox exit=%d:\n%s", cs.WantConf, cs.kindKey(), cs.RR.Kinds, pc.Pkg.Exit, pc.Pkg.Diag), nil, cs.WantConf, gotConf))
			case gotConf:
				// the --report output must mark conflicts
				if !strings.Contains(pc.Pkg.Report, "<== CONFLICT") {
					c.Violation("report-does-not-mark-conflict", pc.replay("lox refused the grammar but --report shows no '<== CONFLICT' mark", nil, nil, nil))
				}
				// no partial parser must be left behind
				if _, err := os.Stat(filepath.Join(pc.Pkg.Dir, "parser.gen.go")); err == nil {
					c.Violation("generation-not-aborted", pc.replay("lox reported conflicts but still wrote parser.gen.go", nil, nil, nil))
				}
			}
			c.Ev.Count("cli_"+cs.kindKey(), 1)
		}
		b.Remove()
	}
	mu.Lock()
	for k, v := range stats {
		c.Ev.Set(k, v)
	}
	mu.Unlock()
	c.nontrivMin = 300
	return nil
}

// c04Judge compares verdict and automaton of one grammar.
func c04Judge(c *Ctx, cs *c04Case, gotConf bool, d *verifhook.ParserDump, path string, mu *sync.Mutex, seen map[[32]byte]bool) {
	lox, _ := cs.G.Lox()
	key := sha256.Sum256([]byte(lox))
	c.Ev.Count("kind_"+cs.kindKey(), 1)
	c.Ev.Count("origin_"+cs.Origin, 1)
	nontriv := len(cs.RR.Kinds) > 0 || len(cs.Tbl.States) >= 8
	if nontriv {
		c.Ev.Distinct(string(key[:]))
	}
	mu.Lock()
	first := !seen[key]
	seen[key] = true
	mu.Unlock()
	rp := func(why string) *Replay {
		return &Replay{Why: path + ": " + why, Files: map[string]string{"g.lox": lox},
			Expected: map[string]any{"conflicts": cs.WantConf, "kinds": cs.RR.Kinds, "states": len(cs.Tbl.States)},
			Observed: map[string]any{"conflicts": gotConf, "states": len(d.States)}, Extra: map[string]any{"origin": cs.Origin}}
	}
	if gotConf != cs.WantConf {
		kind := "lalr1-grammar-rejected"
		if cs.WantConf {
			kind = "conflict-not-reported"
		}
		c.Violation(kind, rp(fmt.Sprintf("reference verdict conflicts=%v (%s), lox verdict conflicts=%v", cs.WantConf, cs.kindKey(), gotConf)))
		return
	}
	diff, cells := compareAutomata(cs.Tbl, cs.RR, cs.C, d, false)
	c.Ev.Count("action_cells_compared", cells)
	c.Ev.Count("states_compared", len(cs.Tbl.States))
	if diff != "" {
		c.Violation("automaton-differs-from-lalr1", rp(diff))
		return
	}
	if first && nontriv && c.Ev.Get("samples_taken") < 6 {
		c.Ev.Count("samples_taken", 1)
		c.Ev.Sample(map[string]any{"path": path, "lox": lox, "reference_conflicts": cs.WantConf, "lox_conflicts": gotConf, "kinds": cs.RR.Kinds, "states": len(cs.Tbl.States), "cells": cells})
	}
}

var _ = rng.New

func loxOf(g *gram.Grammar) string {
	t, _ := g.Lox()
	return t
}
