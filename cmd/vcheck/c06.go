package main

import (
	"crypto/sha256"
	"fmt"
	"strings"
	"sync"
	"time"

	"verif/internal/bind"
	"verif/internal/evidence"
	"verif/internal/gram"
	"verif/internal/hc"
	"verif/internal/rng"
	"verif/internal/run"
	"verif/internal/sem"
)

func init() { register("C06", checkC06) }

type c06Case struct {
	PCase
	Plan *bind.Plan
	Want string // "" = must succeed; otherwise why it must fail
}

var c06Faults = []string{"missing-method", "wrong-arity", "non-assignable-parameter", "two-methods-match", "second-match-is-another-productions-method", "parameter-is-the-twin-named-type", "orphan-method", "method-for-no-rule", "differing-return-types", "two-results", "no-result"}

// incompatible returns a type to which vt is not assignable.
func incompatible(p *bind.Plan, vt string) string {
	for _, cand := range []string{"TagInt", "TagInt2", "*NodeB", "TagMap", "time.Duration", "[]int", "Token"} {
		if !p.Assignable(vt, cand) {
			return cand
		}
	}
	return "TagInt"
}

// applyFault mutates a copy of the plan's method layout.
func applyFault(r *rng.R, base *bind.Plan, fault string) *bind.Plan {
	p := *base
	p.Methods = append([]bind.Method(nil), base.Methods...)
	for i := range p.Methods {
		p.Methods[i].Params = append([]string(nil), base.Methods[i].Params...)
	}
	p.Fault = fault
	g := p.G
	mi := r.Intn(len(p.Methods))
	m := &p.Methods[mi]
	ruleTag := "rule:" + g.Rules[m.Rule].Name
	switch fault {
	case "missing-method":
		p.FaultWhere = []string{ruleTag}
		p.Methods = append(p.Methods[:mi], p.Methods[mi+1:]...)
	case "wrong-arity":
		p.FaultWhere = []string{m.Name, ruleTag}
		if len(m.Params) > 0 && r.Chance(1, 2) {
			m.Params = m.Params[:len(m.Params)-1]
		} else {
			m.Params = append(m.Params, "Token")
		}
	case "non-assignable-parameter":
		// pick a method with at least one parameter
		for k := 0; k < len(p.Methods); k++ {
			c := &p.Methods[(mi+k)%len(p.Methods)]
			if len(c.Params) > 0 {
				m = c
				break
			}
		}
		if len(m.Params) == 0 {
			return nil
		}
		i := r.Intn(len(m.Params))
		ruleTag = "rule:" + g.Rules[m.Rule].Name
		p.FaultWhere = []string{m.Name, ruleTag}
		prod := g.Rules[m.Rule].Prods[m.Prods[0]]
		m.Params[i] = incompatible(&p, p.ValueType(prod.Terms[i]))
	case "parameter-is-the-twin-named-type":
		// a term whose value is a named type, a parameter of a distinct named
		// type with the same underlying type: identical underlying types are
		// not assignability
		found := false
	twin:
		for k := range p.Methods {
			c := &p.Methods[k]
			cp := g.Rules[c.Rule].Prods[c.Prods[0]]
			for j := range c.Params {
				vt := p.ValueType(cp.Terms[j])
				if vt == "TagInt" || vt == "TagInt2" {
					m = c
					m.Params[j] = map[string]string{"TagInt": "TagInt2", "TagInt2": "TagInt"}[vt]
					found = true
					break twin
				}
			}
		}
		if !found {
			return nil
		}
		p.FaultWhere = []string{m.Name, "rule:" + g.Rules[m.Rule].Name}
	case "two-methods-match":
		dup := *m
		dup.Name = fmt.Sprintf("on_%s__dup", g.Rules[m.Rule].Name)
		dup.Params = append([]string(nil), m.Params...)
		for i := range dup.Params {
			if r.Chance(1, 2) {
				dup.Params[i] = "any"
			}
		}
		p.Methods = append(p.Methods, dup)
		p.FaultWhere = []string{m.Name, dup.Name, ruleTag}
	case "second-match-is-another-productions-method":
		// m1 spells out the exact types of its production; m2, the method of
		// another production of the same rule with as many terms, is widened
		// to `any` throughout, so it matches both productions: the first one
		// now has two matching methods, and m2 is no orphan
		var pairs [][2]int
		for i := range p.Methods {
			for j := range p.Methods {
				a, b := &p.Methods[i], &p.Methods[j]
				if i != j && a.Rule == b.Rule && len(a.Prods) == 1 && len(a.Params) == len(b.Params) && len(a.Params) > 0 && a.Results == 1 && b.Results == 1 {
					pairs = append(pairs, [2]int{i, j})
				}
			}
		}
		if len(pairs) == 0 {
			return nil
		}
		pr := pairs[r.Intn(len(pairs))]
		m1, m2 := &p.Methods[pr[0]], &p.Methods[pr[1]]
		prod := g.Rules[m1.Rule].Prods[m1.Prods[0]]
		for i := range m1.Params {
			m1.Params[i] = p.ValueType(prod.Terms[i])
			m2.Params[i] = "any"
		}
		p.FaultWhere = []string{m1.Name, m2.Name, "rule:" + g.Rules[m1.Rule].Name}
	case "orphan-method":
		o := bind.Method{Name: fmt.Sprintf("on_%s__orphan", g.Rules[m.Rule].Name), Rule: m.Rule, Result: m.Result, Results: 1, ID: 9000,
			Params: []string{"Token", "Token", "Token", "Token", "Token", "Token", "Token", "TagMap"}}
		p.Methods = append(p.Methods, o)
		p.FaultWhere = []string{o.Name}
	case "method-for-no-rule":
		o := bind.Method{Name: "on_nosuchrule__x", Rule: m.Rule, Result: m.Result, Results: 1, ID: 9001, Params: []string{"Token"}}
		p.Methods = append(p.Methods, o)
		p.FaultWhere = []string{o.Name}
	case "differing-return-types":
		// needs a rule with at least two methods
		var cands []int
		count := map[int]int{}
		for _, mm := range p.Methods {
			count[mm.Rule]++
		}
		for i, mm := range p.Methods {
			if count[mm.Rule] >= 2 {
				cands = append(cands, i)
			}
		}
		if len(cands) == 0 {
			return nil
		}
		m = &p.Methods[cands[r.Intn(len(cands))]]
		other := "*NodeB"
		if m.Result == other {
			other = "TagInt"
		}
		m.Result = other
		p.FaultWhere = []string{m.Name}
		for _, mm := range p.Methods {
			if mm.Rule == m.Rule {
				p.FaultWhere = append(p.FaultWhere, mm.Name)
			}
		}
	case "two-results":
		m.Results = 2
		p.FaultWhere = []string{m.Name}
	case "no-result":
		m.Results = 0
		p.FaultWhere = []string{m.Name}
	}
	return &p
}

func checkC06(c *Ctx) error {
	c.Ev = evidence.New("C06", c.Tier, c.Seed, "fault_enumeration",
		"binding plans: a reference-LALR(1) grammar; a Go type per rule from a palette (pointers to named structs, two distinct named int types, unnamed and named slice / map / func types, an interface with three implementers, generic instantiations Box[int] and *Box[string], imported *big.Int and time.Duration, any); per production the parameter types of its action method, each either the term's exact value type or a wider type the value type is assignable to (any, an interface it implements, the named/unnamed counterpart with the same underlying type, a named list type for sugar lists); productions of a rule with identical signatures share their method; method names with and without __suffix. Assignability is decided by the Go type checker on the harness prelude, and the expected verdict by an executable statement of the documented binding rule. Every plan is run well-formed (lox must succeed, the package must compile, and on sentences every action parameter must carry exactly the node of its term: the recorded action log is compared call by call with the prescribed one, as in C03) and with one layout fault at a time: missing method, wrong arity, non-assignable parameter (also: a distinct named type with the same underlying type), two methods matching one production (a duplicate, or the widened method of another production of the rule), orphan on_ method, method for no rule, differing return types, two results, no result (lox must fail and name the production or method). Non-trivial: well-formed plans with at least one widened parameter, and every faulted plan; distinct by grammar+harness text.")
	c.Ev.Assumptions = []string{
		"assignability as computed by go/types on the harness prelude",
		"`x*!` is not used here (its element types would need a Discard method)",
		"@error under ? / * is exercised as a separately counted sub-workload",
	}
	oracle, err := bind.NewOracle()
	if err != nil {
		return err
	}
	nBatches := c.N(3, 40)
	nCLI := c.N(1, 5)
	d := newDrawer()
	fastOK := true
	var mu sync.Mutex
	doBatch := func(bi int) {
		r := c.R.Derive("batch", bi)
		var cases []*c06Case
		for len(cases) < 30 {
			pc := d.draw(r, drawOpts{errPct: 10, noStarF: true, minSent: 2, clash: true})
			if pc == nil {
				break
			}
			plan := bind.NewPlan(r, pc.G, oracle)
			if plan == nil {
				continue
			}
			bounds := r.Chance(1, 4)
			extras := r.Chance(1, 3)
			clash := ""
			if r.Chance(1, 2) {
				clash = plan.ClashName()
			}
			mk := func(p *bind.Plan, want string) *c06Case {
				cc := &c06Case{Plan: p, Want: want}
				cc.PCase = *pc
				cc.Opt = gram.HarnessOpt{Bounds: bounds}
				_, in, st := pc.G.Harness(cc.Opt)
				cc.Files = map[string]string{"g.lox": pc.Lox, "harness.go": p.Harness(bounds)}
				if clash != "" {
					// the user's package is called like a package it imports
					cc.Files["harness.go"] = p.HarnessClash(bounds, clash)
					cc.Files["__pkgname__"] = clash
				}
				if extras {
					// files that belong to the directory but not to the package:
					// an external test package and a file excluded by its build
					// constraint; both sort after every other Go file
					cc.Files["zz_ext_test.go"] = "package PKGNAME_test\n\nimport \"testing\"\n\nfunc TestNothing(t *testing.T) {}\n"
					cc.Files["zzz_tool.go"] = "//go:build ignore\n\npackage main\n\nfunc main() {}\n"
					// package-level objects of the parser's type that are not parser
					// types: a variable, a pointer variable, an alias, a constructor
					cc.Files["more.go"] = "package PKGNAME\n\nvar defaultParser P\nvar parserPtr *P\nvar parserList []P\n\ntype PAlias = P\n\nfunc newP() P { return defaultParser }\n\nvar _ = []any{parserPtr, parserList, PAlias{}, newP}\n"
				}
				cc.Intern, cc.Stub = in, st
				cc.Origin = pc.Origin + "/" + p.Fault
				if clash != "" {
					cc.Origin += "/package-named-" + clash
				}
				return cc
			}
			cases = append(cases, mk(plan, ""))
			// one or two faulted variants of the same plan
			for k := 0; k < 4; k++ {
				f := c06Faults[r.Intn(len(c06Faults))]
				if k == 3 {
					f = "parameter-is-the-twin-named-type"
				}
				if k == 2 {
					// needs a particular layout (two methods of one rule with
					// as many parameters): tried on every plan
					f = "second-match-is-another-productions-method"
				}
				fp := applyFault(r, plan, f)
				if fp == nil {
					continue
				}
				why := fp.Verdict()
				if why == "" {
					continue // the fault happened to be harmless under the documented rule
				}
				cases = append(cases, mk(fp, why))
			}
		}
		mu.Lock()
		fast := bi >= nCLI && fastOK
		mu.Unlock()
		pcs := make([]*PCase, len(cases))
		for i, cc := range cases {
			pcs[i] = &cc.PCase
		}
		b, err := genBatch(c, pcs, fast, false)
		if err != nil {
			c.Inconclusive("batch-build-failed")
			c.Logf("batch %d: %v", bi, err)
			return
		}
		defer b.Remove()
		if bi == 0 {
			ok := crossCheckFast(c, pcs)
			mu.Lock()
			fastOK = ok
			mu.Unlock()
		}
		c06RunBatch(c, r, b, cases)
	}
	doBatch(0)
	c06ErrorSugar(c)
	c06StarBang(c)
	parallel(nBatches-1, 4, func(i int) { doBatch(i + 1) })
	c.nontrivMin = 60
	return nil
}

func c06RunBatch(c *Ctx, r *rng.R, b *run.Batch, cases []*c06Case) {
	type item struct {
		cc   *c06Case
		toks []hc.Token
	}
	items := map[int]*item{}
	var jobs []hc.Job
	id := 0
	for i, cc := range cases {
		c.Ev.Eval(1)
		key := fmt.Sprintf("%x", sha256.Sum256([]byte(cc.Lox+cc.Files["harness.go"])))
		if cc.Want != "" {
			c.Ev.Count("faulted_plans", 1)
			c.Ev.Count("fault_"+cc.Plan.Fault, 1)
			c.Ev.Distinct(key)
			if cc.Pkg.GenOK {
				c.Violation("ill-formed-binding-accepted/"+cc.Plan.Fault, cc.replay(fmt.Sprintf("fault %q (%s): lox accepted the package", cc.Plan.Fault, cc.Want), nil, "rejected: "+cc.Want, "exit 0"))
				continue
			}
			if strings.Contains(cc.Pkg.Diag, "panic:") || cc.Pkg.Exit == 2 {
				c.Violation("binding-fault-crashes-generator/"+cc.Plan.Fault, cc.replay(fmt.Sprintf("fault %q: lox crashed:\n%s", cc.Plan.Fault, tail(cc.Pkg.Diag, 1500)), nil, nil, nil))
				continue
			}
			// the diagnostic must name the production or the method
			ok := false
			for _, w := range cc.Plan.FaultWhere {
				if strings.HasPrefix(w, "rule:") {
					pos := cc.Pos[w]
					for _, m := range diagRe.FindAllStringSubmatch(cc.Pkg.Diag, -1) {
						var line int
						fmt.Sscan(m[2], &line)
						if m[1] == "g.lox" && line >= pos.First && line <= pos.Last {
							ok = true
						}
					}
				} else if strings.Contains(cc.Pkg.Diag, w) {
					ok = true
				}
			}
			if !ok {
				c.Violation("binding-diagnostic-names-neither-production-nor-method/"+cc.Plan.Fault, cc.replay(fmt.Sprintf("fault %q (%s): expected a diagnostic naming one of %v; stderr:\n%s", cc.Plan.Fault, cc.Want, cc.Plan.FaultWhere, tail(cc.Pkg.Diag, 1500)), nil, cc.Plan.FaultWhere, nil))
			}
			continue
		}
		c.Ev.Count("well_formed_plans", 1)
		widened := 0
		for _, m := range cc.Plan.Methods {
			prod := cc.G.Rules[m.Rule].Prods[m.Prods[0]]
			for k, pt := range m.Params {
				if pt != cc.Plan.ValueType(prod.Terms[k]) {
					widened++
				}
			}
		}
		c.Ev.Count("parameters_with_wider_type", widened)
		if widened > 0 {
			c.Ev.Distinct(key)
		}
		if !cc.Pkg.GenOK {
			c.Violation("well-formed-binding-rejected", cc.replay(fmt.Sprintf("lox rejected a package whose methods satisfy the documented binding rule (exit %d):\n%s", cc.Pkg.Exit, tail(cc.Pkg.Diag, 2000)), nil, nil, nil))
			continue
		}
		if cc.Pkg.BuildErr != "" {
			c.Violation("generated-code-does-not-compile", cc.replay("lox succeeded but the generated files do not compile with the package:\n"+cc.Pkg.BuildErr, nil, nil, nil))
			continue
		}
		rr := r.Derive("inputs", i)
		var ws [][]int
		cc.Eng.Enumerate(10, 15, func(w []int) bool { ws = append(ws, w); return true })
		for k := 0; k < 10; k++ {
			if w := cc.Eng.RandomSentence(rr.Intn, 5+rr.Intn(25)); w != nil {
				ws = append(ws, w)
			}
		}
		for _, w := range ws {
			toks := make([]hc.Token, len(w))
			pj := hc.ParseJob{Rec: true}
			for k, t := range w {
				toks[k] = hc.Token{Type: t, Seq: k + 1}
				pj.Toks = append(pj.Toks, [2]int{t, 0})
			}
			id++
			items[id] = &item{cc: cc, toks: toks}
			jobs = append(jobs, run.MkJob(id, cc.Pkg.Name, "parse", pj))
		}
	}
	if len(jobs) == 0 {
		return
	}
	results, suspects, err := b.RunAll(jobs, 3*time.Minute, 20)
	if err != nil {
		c.Inconclusive("batch-run-failed")
	}
	for range suspects {
		c.Inconclusive("job-crashed-or-hung")
	}
	nv := map[*c06Case]int{}
	for jid, it := range items {
		cc := it.cc
		res, err := decodeRes[hc.ParseRes](results[jid])
		if err != nil {
			c.Inconclusive("job-no-result")
			continue
		}
		c.Ev.Eval(1)
		w := make([]int, len(it.toks))
		for k, t := range it.toks {
			w[k] = t.Type
		}
		report := func(kind, why string, exp, obs any) {
			nv[cc]++
			if nv[cc] > 1 {
				c.mu.Lock()
				c.nviol++
				c.violKinds[kind]++
				c.mu.Unlock()
				return
			}
			pj := hc.ParseJob{Rec: true}
			for _, t := range it.toks {
				pj.Toks = append(pj.Toks, [2]int{t.Type, 0})
			}
			c.Violation(kind, cc.replay(fmt.Sprintf("%s: input [%s]: %s", kind, tokString(cc.G, w), why), []hc.Job{run.MkJob(1, "", "parse", pj)}, exp, obs))
		}
		if res.Panic != "" || res.Stop != "" || !res.OK || res.NErr != 0 {
			report("sentence-not-parsed-cleanly", fmt.Sprintf("ok=%v nerr=%d stop=%q panic=%q", res.OK, res.NErr, res.Stop, firstLine(res.Panic)), nil, nil)
			continue
		}
		methodOf := map[[2]int]int{}
		for _, m := range cc.Plan.Methods {
			for _, pi := range m.Prods {
				methodOf[[2]int{m.Rule, pi}] = m.ID
			}
		}
		exp, err := sem.SimulateWith(cc.G, cc.C, cc.Ref, methodOf, cc.Opt.Bounds, it.toks)
		if err != nil {
			c.Inconclusive("reference-parser-failed")
			continue
		}
		c.Ev.Count("action_calls_compared", len(exp.Events))
		if diff := sem.Compare(exp, res.Events); diff != "" {
			report("action-parameter-does-not-hold-its-terms-value", diff, sem.Show(exp.Events), sem.Show(res.Events))
			continue
		}
		if c.Ev.WantSample() {
			c.Ev.Sample(map[string]any{"lox": cc.Lox, "harness_methods": methodSigs(cc.Plan), "input": tokString(cc.G, w)})
		}
	}
}

func methodSigs(p *bind.Plan) []string {
	var out []string
	for _, m := range p.Methods {
		out = append(out, fmt.Sprintf("%s(%s) %s", m.Name, strings.Join(m.Params, ", "), m.Result))
	}
	return out
}

// c06ErrorSugar is the separately counted sub-workload for @error under
// ?, * and +: the action parameter must be typed Error / []Error and must
// hold the Error value of a shifted ERROR token, never a zero Token.
func c06ErrorSugar(c *Ctx) {
	tk := func(i int) gram.Term { return gram.Term{Ref: gram.Ref{Kind: gram.KTok, Idx: i}} }
	er := func(s gram.Sugar) gram.Term { return gram.Term{Ref: gram.Ref{Kind: gram.KErr}, Sugar: s} }
	toks := []gram.Token{{Name: "A", Lit: "a"}, {Name: "B", Lit: "b"}, {Name: "C", Lit: "c"}}
	grammars := []*gram.Grammar{
		{Tokens: toks, Rules: []gram.Rule{{Name: "s", Prods: []gram.Prod{{Terms: []gram.Term{tk(0), er(gram.Opt), tk(1)}}}}}},
		{Tokens: toks, Rules: []gram.Rule{{Name: "s", Prods: []gram.Prod{{Terms: []gram.Term{tk(0), er(gram.Star), tk(1)}}}}}},
		{Tokens: toks, Rules: []gram.Rule{
			{Name: "s", Prods: []gram.Prod{{Terms: []gram.Term{tk(0), {Ref: gram.Ref{Kind: gram.KRule, Idx: 1}}, tk(1)}}}},
			{Name: "r", Prods: []gram.Prod{{Terms: []gram.Term{er(gram.Plus)}}, {Terms: []gram.Term{tk(2)}}}},
		}},
	}
	inputs := [][]int{{2, 3}, {2, 1, 3}, {2, 1, 1, 3}, {2, 1, 1, 1, 3}, {2, 4, 3}}
	var cases []*PCase
	for _, g := range grammars {
		pc := &PCase{G: g, Origin: "error-under-sugar"}
		pc.C = g.Desugar(false)
		tbl, free, ok := refConflictFree(pc.C)
		if !ok || !free {
			c.Inconclusive("error-sugar-grammar-not-lalr")
			continue
		}
		pc.Ref = tbl
		pc.prepare()
		cases = append(cases, pc)
	}
	b, err := genBatch(c, cases, false, false)
	if err != nil {
		c.Inconclusive("batch-build-failed")
		return
	}
	defer b.Remove()
	var jobs []hc.Job
	type item struct {
		pc   *PCase
		toks []hc.Token
	}
	items := map[int]*item{}
	id := 0
	for _, pc := range cases {
		c.Ev.Eval(1)
		c.Ev.Count("error_under_sugar_grammars", 1)
		if !pc.Pkg.GenOK {
			c.Violation("well-formed-binding-rejected/error-under-sugar", pc.replay(fmt.Sprintf("the term's value type is Error (or []Error) and the method takes exactly that, yet lox rejected the package (exit %d):\n%s", pc.Pkg.Exit, tail(pc.Pkg.Diag, 1500)), nil, nil, nil))
			continue
		}
		if pc.Pkg.BuildErr != "" {
			c.Violation("generated-code-does-not-compile", pc.replay(pc.Pkg.BuildErr, nil, nil, nil))
			continue
		}
		for _, w := range inputs {
			ts := make([]hc.Token, len(w))
			pj := hc.ParseJob{Rec: true}
			for k, t := range w {
				ts[k] = hc.Token{Type: t, Seq: k + 1}
				pj.Toks = append(pj.Toks, [2]int{t, 0})
			}
			id++
			items[id] = &item{pc, ts}
			jobs = append(jobs, run.MkJob(id, pc.Pkg.Name, "parse", pj))
		}
	}
	if len(jobs) == 0 {
		return
	}
	results, _, _ := b.RunAll(jobs, 2*time.Minute, 20)
	for jid, it := range items {
		res, err := decodeRes[hc.ParseRes](results[jid])
		if err != nil {
			c.Inconclusive("job-no-result")
			continue
		}
		exp, err := sem.Simulate(it.pc.G, it.pc.C, it.pc.Ref, it.pc.Opt, it.toks)
		if err != nil {
			continue // not a sentence of this grammar (e.g. two ERROR tokens for @error?)
		}
		c.Ev.Eval(1)
		c.Ev.Count("error_under_sugar_parses", 1)
		w := make([]int, len(it.toks))
		for k, t := range it.toks {
			w[k] = t.Type
		}
		if !res.OK {
			c.Violation("sentence-not-parsed-cleanly/error-under-sugar", it.pc.replay(fmt.Sprintf("input [%s]: parse() returned false", tokString(it.pc.G, w)), nil, nil, nil))
			continue
		}
		if diff := sem.Compare(exp, res.Events); diff != "" {
			c.Violation("action-parameter-does-not-hold-its-terms-value/error-under-sugar", it.pc.replay(fmt.Sprintf("input [%s]: %s", tokString(it.pc.G, w), diff), nil, sem.Show(exp.Events), sem.Show(res.Events)))
		}
	}
}
