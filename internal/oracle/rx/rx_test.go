package rx

import (
	"fmt"
	"math/bits"
	"math/rand"
	"strings"
	"testing"
)

// ---------------------------------------------------------------------------
// Part 1: sets, exhaustively against bitmask arithmetic on an 8-point window.
// ---------------------------------------------------------------------------

// fromMask builds, by scanning bits, the canonical set {base+i | bit i of m}.
func fromMask(m uint8, base rune) Set {
	var s Set
	for i := 0; i < 8; i++ {
		if m&(1<<i) == 0 {
			continue
		}
		j := i
		for j+1 < 8 && m&(1<<(j+1)) != 0 {
			j++
		}
		s = append(s, Range{base + rune(i), base + rune(j)})
		i = j
	}
	return s
}

// windowMask reads the ranges of s (not Contains) restricted to base..base+7.
func windowMask(s Set, base rune) uint8 {
	var m uint8
	for _, r := range s {
		for i := 0; i < 8; i++ {
			if p := base + rune(i); r.Lo <= p && p <= r.Hi {
				m |= 1 << i
			}
		}
	}
	return m
}

// insideWindow reports whether all of s lies in base..base+7.
func insideWindow(s Set, base rune) bool {
	for _, r := range s {
		if r.Lo < base || r.Hi > base+7 {
			return false
		}
	}
	return true
}

func checkWindowSet(t *testing.T, what string, got Set, want uint8, base rune) {
	t.Helper()
	if !got.Valid() {
		t.Fatalf("%s: not canonical: %v", what, got)
	}
	if !insideWindow(got, base) {
		t.Fatalf("%s: leaves the window: %v", what, got)
	}
	if m := windowMask(got, base); m != want {
		t.Fatalf("%s: got mask %08b want %08b (%v)", what, m, want, got)
	}
	ref := fromMask(want, base)
	if !got.Equal(ref) || !ref.Equal(got) {
		t.Fatalf("%s: not Equal to reference %v: %v", what, ref, got)
	}
	if got.Key() != ref.Key() {
		t.Fatalf("%s: key %q != %q", what, got.Key(), ref.Key())
	}
	if got.Count() != bits.OnesCount8(want) {
		t.Fatalf("%s: Count %d want %d", what, got.Count(), bits.OnesCount8(want))
	}
	if got.Empty() != (want == 0) {
		t.Fatalf("%s: Empty() = %v", what, got.Empty())
	}
	for i := -2; i < 10; i++ {
		p := base + rune(i)
		want1 := i >= 0 && i < 8 && want&(1<<i) != 0
		if got.Contains(p) != want1 {
			t.Fatalf("%s: Contains(%#x) = %v want %v (%v)", what, p, !want1, want1, got)
		}
	}
}

func TestNewSetExhaustive(t *testing.T) {
	for _, base := range []rune{0, MaxRune - 7} {
		// All 64 (lo,hi) pairs over the window, including the 28 with lo>hi
		// (which must be dropped).
		var all []Range
		var masks []uint8
		for lo := 0; lo < 8; lo++ {
			for hi := 0; hi < 8; hi++ {
				all = append(all, Range{base + rune(lo), base + rune(hi)})
				var m uint8
				for i := lo; i <= hi; i++ {
					m |= 1 << i
				}
				masks = append(masks, m)
			}
		}
		n := 0
		check := func(idx ...int) {
			n++
			rs := make([]Range, len(idx))
			var want uint8
			for i, k := range idx {
				rs[i] = all[k]
				want |= masks[k]
			}
			orig := append([]Range(nil), rs...)
			got := NewSet(rs...)
			checkWindowSet(t, fmt.Sprintf("NewSet(%v)", orig), got, want, base)
			for i := range rs {
				if rs[i] != orig[i] {
					t.Fatalf("NewSet modified its argument")
				}
			}
		}
		check()
		for i := range all {
			check(i)
			for j := range all {
				check(i, j)
				for k := range all {
					check(i, j, k)
				}
			}
		}
		if n != 1+64+64*64+64*64*64 {
			t.Fatalf("enumerated %d lists", n)
		}
	}
}

func TestSetOpsExhaustive(t *testing.T) {
	const total = MaxRune + 1
	for _, base := range []rune{0, MaxRune - 7, 0x1000} {
		for a := 0; a < 256; a++ {
			A := fromMask(uint8(a), base)
			cA := A.Complement()
			// Complement: inverse inside the window, everything outside.
			if !cA.Valid() {
				t.Fatalf("Complement(%v) not canonical: %v", A, cA)
			}
			for i := 0; i < 8; i++ {
				if cA.Contains(base+rune(i)) != (a&(1<<i) == 0) {
					t.Fatalf("Complement(%v) wrong at %d: %v", A, i, cA)
				}
			}
			if windowMask(cA, base) != ^uint8(a) {
				t.Fatalf("Complement(%v) window mask: %v", A, cA)
			}
			if cA.Count() != total-bits.OnesCount8(uint8(a)) {
				t.Fatalf("Complement(%v).Count() = %d", A, cA.Count())
			}
			for _, p := range []rune{0, base - 1, base + 8, base + 1000, MaxRune / 2, MaxRune - 8, MaxRune} {
				if p < 0 || p > MaxRune || (p >= base && p <= base+7) {
					continue
				}
				if !cA.Contains(p) {
					t.Fatalf("Complement(%v) lacks %#x: %v", A, p, cA)
				}
			}
			if base+8 <= MaxRune {
				if last := cA[len(cA)-1]; last.Hi != MaxRune || last.Lo > base+8 {
					t.Fatalf("Complement(%v) tail missing: %v", A, cA)
				}
			}
			if base > 0 {
				if first := cA[0]; first.Lo != 0 || first.Hi < base-1 {
					t.Fatalf("Complement(%v) head missing: %v", A, cA)
				}
			}
			if !cA.Complement().Equal(A) {
				t.Fatalf("double complement of %v: %v", A, cA.Complement())
			}
			if cA.Contains(-1) || cA.Contains(MaxRune+1) {
				t.Fatalf("Complement contains out-of-range point")
			}

			for b := 0; b < 256; b++ {
				B := fromMask(uint8(b), base)
				name := fmt.Sprintf("%v ? %v", A, B)
				checkWindowSet(t, "Union "+name, A.Union(B), uint8(a|b), base)
				checkWindowSet(t, "Intersect "+name, A.Intersect(B), uint8(a&b), base)
				checkWindowSet(t, "Diff "+name, A.Diff(B), uint8(a&^b), base)
				if A.Equal(B) != (a == b) {
					t.Fatalf("Equal %s", name)
				}
				if (A.Key() == B.Key()) != (a == b) {
					t.Fatalf("Key %s", name)
				}
				// The same with sets that have a head and a tail outside the
				// window (De Morgan).
				cB := B.Complement()
				cUnion := fromMask(uint8(a|b), base).Complement()
				cInter := fromMask(uint8(a&b), base).Complement()
				for _, x := range []struct {
					what      string
					got, want Set
				}{
					{"A'∪B'", cA.Union(cB), cInter},
					{"A'∩B'", cA.Intersect(cB), cUnion},
					{"A'\\B'", cA.Diff(cB), fromMask(uint8(b&^a), base)},
					{"A\\B'", A.Diff(cB), fromMask(uint8(a&b), base)},
					{"A'\\B", cA.Diff(B), cUnion},
					{"A∪B'", A.Union(cB), fromMask(uint8(b&^a), base).Complement()},
					{"A∩B'", A.Intersect(cB), fromMask(uint8(a&^b), base)},
				} {
					if !x.got.Valid() || !x.got.Equal(x.want) {
						t.Fatalf("%s for %s: got %v want %v", x.what, name, x.got, x.want)
					}
				}
			}
		}
	}
}

func TestSetBoundaryCases(t *testing.T) {
	eq := func(what string, got, want Set) {
		t.Helper()
		if !got.Valid() || !got.Equal(want) {
			t.Fatalf("%s: got %v want %v", what, got, want)
		}
	}
	eq("Any", Any(), Set{{0, MaxRune}})
	if Any().Count() != 0x110000 {
		t.Fatalf("Any().Count() = %d", Any().Count())
	}
	eq("Any complement", Any().Complement(), nil)
	eq("empty complement", Set(nil).Complement(), Any())
	eq("empty complement 2", NewSet().Complement(), Any())
	if !NewSet().Empty() || !Set(nil).Equal(Set{}) || Set(nil).Key() != (Set{}).Key() {
		t.Fatalf("empty set handling")
	}
	eq("{0}", NewSet(Range{0, 0}), Set{{0, 0}})
	eq("{0}'", NewSet(Range{0, 0}).Complement(), Set{{1, MaxRune}})
	eq("{Max}", NewSet(Range{MaxRune, MaxRune}), Set{{MaxRune, MaxRune}})
	eq("{Max}'", NewSet(Range{MaxRune, MaxRune}).Complement(), Set{{0, MaxRune - 1}})
	eq("{0,Max}'", NewSet(Range{MaxRune, MaxRune}, Range{0, 0}).Complement(), Set{{1, MaxRune - 1}})
	eq("adjacent at Max", NewSet(Range{MaxRune, MaxRune}, Range{MaxRune - 2, MaxRune - 1}), Set{{MaxRune - 2, MaxRune}})
	eq("adjacent at 0", NewSet(Range{1, 5}, Range{0, 0}), Set{{0, 5}})
	eq("non-adjacent", NewSet(Range{2, 5}, Range{0, 0}), Set{{0, 0}, {2, 5}})
	eq("clip", NewSet(Range{-5, 3}, Range{MaxRune - 1, MaxRune + 100}), Set{{0, 3}, {MaxRune - 1, MaxRune}})
	eq("outside", NewSet(Range{-5, -1}, Range{MaxRune + 1, MaxRune + 100}), nil)
	eq("inverted", NewSet(Range{5, 4}), nil)
	eq("nested", NewSet(Range{10, 20}, Range{12, 13}, Range{0, 30}), Set{{0, 30}})
	eq("union touching Max", Set{{0, 9}}.Union(Set{{10, MaxRune}}), Any())
	eq("diff head", Any().Diff(Set{{0, 0}}), Set{{1, MaxRune}})
	eq("diff tail", Any().Diff(Set{{MaxRune, MaxRune}}), Set{{0, MaxRune - 1}})
	eq("diff both", Any().Diff(Set{{0, 0}, {MaxRune, MaxRune}}), Set{{1, MaxRune - 1}})
	eq("diff all", Set{{0, 0}, {MaxRune, MaxRune}}.Diff(Any()), nil)
	eq("diff many holes", Set{{0, 100}}.Diff(Set{{0, 0}, {10, 19}, {50, 50}, {100, 200}}), Set{{1, 9}, {20, 49}, {51, 99}})
	eq("diff one spanning several", Set{{0, 1}, {3, 4}, {6, 7}, {9, 10}}.Diff(Set{{1, 9}}), Set{{0, 0}, {10, 10}})
	eq("intersect ends", Any().Intersect(Set{{0, 0}, {MaxRune, MaxRune}}), Set{{0, 0}, {MaxRune, MaxRune}})
	for _, p := range []rune{-1, MaxRune + 1, -0x80000000, 0x7fffffff} {
		if Any().Contains(p) {
			t.Fatalf("Any contains %d", p)
		}
	}
	if !Any().Contains(0) || !Any().Contains(MaxRune) || !Any().Contains(0xD800) {
		t.Fatalf("Any misses a code point")
	}
	if (Set{{1, 2}}).Key() == (Set{{1, 1}, {2, 2}}).Key() || (Set{{0x12, 0x12}}).Key() == (Set{{1, 2}}).Key() {
		t.Fatalf("key collision")
	}
	if (Set{{1, 3}, {3, 5}}).Valid() || (Set{{1, 2}, {3, 5}}).Valid() || (Set{{4, 3}}).Valid() || (Set{{5, 6}, {1, 2}}).Valid() {
		t.Fatalf("Valid accepts a non-canonical set")
	}
}

// Random sets over the whole code-point space against a sampled-point model.
func TestSetOpsRandomWide(t *testing.T) {
	rng := rand.New(rand.NewSource(7))
	points := []rune{0, 1, 0x7f, 0x80, 0x7ff, 0x800, 0xd7ff, 0xd800, 0xdfff, 0xe000, 0xffff, 0x10000, MaxRune - 1, MaxRune}
	randSet := func() Set {
		var rs []Range
		for i := rng.Intn(5); i > 0; i-- {
			a := points[rng.Intn(len(points))] + rune(rng.Intn(3)) - 1
			b := points[rng.Intn(len(points))] + rune(rng.Intn(3)) - 1
			rs = append(rs, Range{a, b}) // may be inverted or out of range
		}
		return NewSet(rs...)
	}
	var probes []rune
	for _, p := range points {
		for d := rune(-3); d <= 3; d++ {
			probes = append(probes, p+d)
		}
	}
	for it := 0; it < 3000; it++ {
		A, B := randSet(), randSet()
		u, x, d, cmp := A.Union(B), A.Intersect(B), A.Diff(B), A.Complement()
		for _, s := range []Set{A, B, u, x, d, cmp} {
			if !s.Valid() {
				t.Fatalf("not canonical: %v (A=%v B=%v)", s, A, B)
			}
		}
		for _, p := range probes {
			a, b := A.Contains(p), B.Contains(p)
			in := p >= 0 && p <= MaxRune
			if u.Contains(p) != (a || b) || x.Contains(p) != (a && b) || d.Contains(p) != (a && !b) || cmp.Contains(p) != (in && !a) {
				t.Fatalf("A=%v B=%v wrong at %#x", A, B, p)
			}
		}
		if u.Count() != A.Count()+B.Count()-x.Count() || d.Count() != A.Count()-x.Count() || cmp.Count() != MaxRune+1-A.Count() {
			t.Fatalf("counts: A=%v B=%v", A, B)
		}
	}
}

// ---------------------------------------------------------------------------
// Part 2: regular expressions.
// ---------------------------------------------------------------------------

// tn is the test's own regex AST; its semantics is given by the backtracking
// matcher bt below, which shares nothing with the engine (class membership is
// a Go predicate, not a Set).
type tn struct {
	op   int
	name string          // tClass
	set  Set             // tClass: what is handed to Ctx.Class
	in   func(rune) bool // tClass: independent membership predicate
	l, r *tn
}

const (
	tEmpty = iota
	tEps
	tClass
	tCat
	tAlt
	tStar
	tPlus
	tOpt
)

func cls(name string, in func(rune) bool, rs ...Range) *tn {
	return &tn{op: tClass, name: name, set: NewSet(rs...), in: in}
}

var (
	leafEmpty = &tn{op: tEmpty}
	leafEps   = &tn{op: tEps}
	clsA      = cls("[a]", func(r rune) bool { return r == 'a' }, Range{'a', 'a'})
	clsB      = cls("[b]", func(r rune) bool { return r == 'b' }, Range{'b', 'b'})
	clsC      = cls("[c]", func(r rune) bool { return r == 'c' }, Range{'c', 'c'})
	clsAB     = cls("[a-b]", func(r rune) bool { return r == 'a' || r == 'b' }, Range{'a', 'b'})
	clsBC     = cls("[b-c]", func(r rune) bool { return r == 'b' || r == 'c' }, Range{'b', 'c'})
	clsAC     = cls("[ac]", func(r rune) bool { return r == 'a' || r == 'c' }, Range{'a', 'a'}, Range{'c', 'c'})
	clsABC    = cls("[a-c]", func(r rune) bool { return r >= 'a' && r <= 'c' }, Range{'a', 'c'})
	clsNotA   = cls("[^a]", func(r rune) bool { return r != 'a' }, Range{0, 'a' - 1}, Range{'a' + 1, MaxRune})
	clsNotB   = cls("[^b]", func(r rune) bool { return r != 'b' }, Range{0, 'b' - 1}, Range{'b' + 1, MaxRune})
	clsNotABC = cls("[^a-c]", func(r rune) bool { return r < 'a' || r > 'c' }, Range{0, 'a' - 1}, Range{'c' + 1, MaxRune})
	clsAny    = cls(".", func(r rune) bool { return true }, Range{0, MaxRune})
	clsNone   = cls("[]", func(r rune) bool { return false })
)

var randClasses = []*tn{clsA, clsA, clsB, clsB, clsC, clsAB, clsBC, clsAC, clsABC, clsNotA, clsNotB, clsNotABC, clsAny}

func (t *tn) String() string {
	switch t.op {
	case tEmpty:
		return "∅"
	case tEps:
		return "ε"
	case tClass:
		return t.name
	case tCat:
		return "(" + t.l.String() + t.r.String() + ")"
	case tAlt:
		return "(" + t.l.String() + "|" + t.r.String() + ")"
	case tStar:
		return t.l.String() + "*"
	case tPlus:
		return t.l.String() + "+"
	case tOpt:
		return t.l.String() + "?"
	}
	panic("bad op")
}

func (t *tn) build(c *Ctx) *Re {
	switch t.op {
	case tEmpty:
		return c.Empty()
	case tEps:
		return c.Eps()
	case tClass:
		return c.Class(t.set)
	case tCat:
		return c.Cat(t.l.build(c), t.r.build(c))
	case tAlt:
		return c.Alt(t.l.build(c), t.r.build(c))
	case tStar:
		return c.Star(t.l.build(c))
	case tPlus:
		return c.Plus(t.l.build(c))
	case tOpt:
		return c.Opt(t.l.build(c))
	}
	panic("bad op")
}

// bt: is there j such that t matches s[i:j] and k(j)?
func bt(t *tn, s []rune, i int, k func(int) bool) bool {
	switch t.op {
	case tEmpty:
		return false
	case tEps:
		return k(i)
	case tClass:
		return i < len(s) && t.in(s[i]) && k(i+1)
	case tCat:
		return bt(t.l, s, i, func(j int) bool { return bt(t.r, s, j, k) })
	case tAlt:
		return bt(t.l, s, i, k) || bt(t.r, s, i, k)
	case tOpt:
		return k(i) || bt(t.l, s, i, k)
	case tStar:
		return btStar(t.l, s, i, k)
	case tPlus:
		return bt(t.l, s, i, func(j int) bool { return btStar(t.l, s, j, k) })
	}
	panic("bad op")
}

// btStar: zero or more iterations of t; an iteration that consumes nothing
// never helps, so only progressing iterations are continued.
func btStar(t *tn, s []rune, i int, k func(int) bool) bool {
	if k(i) {
		return true
	}
	return bt(t, s, i, func(j int) bool { return j > i && btStar(t, s, j, k) })
}

func btMatch(t *tn, s []rune) bool {
	return bt(t, s, 0, func(j int) bool { return j == len(s) })
}

const inf = 1 << 20

// tmin: independent structural shortest-match length on the *uncanonicalised*
// test AST, with explicit handling of emptiness (inf).
func tmin(t *tn) int {
	switch t.op {
	case tEmpty:
		return inf
	case tEps:
		return 0
	case tClass:
		if t.set.Empty() {
			return inf
		}
		return 1
	case tCat:
		a, b := tmin(t.l), tmin(t.r)
		if a >= inf || b >= inf {
			return inf
		}
		return a + b
	case tAlt:
		a, b := tmin(t.l), tmin(t.r)
		if b < a {
			return b
		}
		return a
	case tStar, tOpt:
		return 0
	case tPlus:
		return tmin(t.l)
	}
	panic("bad op")
}

func genTn(rng *rand.Rand, depth int) *tn {
	if depth == 0 || rng.Intn(6) == 0 {
		switch rng.Intn(14) {
		case 0:
			return leafEmpty
		case 1:
			return leafEps
		case 2:
			return clsNone
		}
		return randClasses[rng.Intn(len(randClasses))]
	}
	switch rng.Intn(9) {
	case 0, 1, 2:
		return &tn{op: tCat, l: genTn(rng, depth-1), r: genTn(rng, depth-1)}
	case 3, 4, 5:
		return &tn{op: tAlt, l: genTn(rng, depth-1), r: genTn(rng, depth-1)}
	case 6:
		return &tn{op: tStar, l: genTn(rng, depth-1)}
	case 7:
		return &tn{op: tPlus, l: genTn(rng, depth-1)}
	}
	return &tn{op: tOpt, l: genTn(rng, depth-1)}
}

// allStrings returns every string over alpha of length <= n, shortest first.
func allStrings(alpha []rune, n int) [][]rune {
	out := [][]rune{{}}
	start := 0
	for l := 1; l <= n; l++ {
		end := len(out)
		for _, p := range out[start:end] {
			for _, ch := range alpha {
				out = append(out, append(append([]rune(nil), p...), ch))
			}
		}
		start = end
	}
	return out
}

func prng(seed int64) func(int) int {
	r := rand.New(rand.NewSource(seed))
	return r.Intn
}

// closure explores every derivative reachable from r over the atoms of r and
// returns the states with one access string each.
func closure(t *testing.T, c *Ctx, r *Re, limit int) (states []*Re, access map[*Re][]rune) {
	t.Helper()
	atoms := c.Atoms(r)
	access = map[*Re][]rune{r: {}}
	states = []*Re{r}
	for i := 0; i < len(states); i++ {
		s := states[i]
		for _, a := range atoms {
			d := c.Deriv(s, a.Lo)
			if _, ok := access[d]; !ok {
				access[d] = append(append([]rune(nil), access[s]...), a.Lo)
				states = append(states, d)
				if len(states) >= limit {
					t.Fatalf("%s: more than %d distinct derivatives", c.String(r), limit)
				}
			}
		}
	}
	return states, access
}

func checkAtomsCover(t *testing.T, atoms []Range) {
	t.Helper()
	if len(atoms) == 0 || atoms[0].Lo != 0 || atoms[len(atoms)-1].Hi != MaxRune {
		t.Fatalf("atoms do not cover 0..MaxRune: %v", atoms)
	}
	for i, a := range atoms {
		if a.Lo > a.Hi || (i > 0 && atoms[i-1].Hi+1 != a.Lo) {
			t.Fatalf("atoms not contiguous: %v", atoms)
		}
	}
}

func TestRegexRandom(t *testing.T) {
	rng := rand.New(rand.NewSource(20260923))
	alpha := []rune("abcd")
	strs := allStrings(alpha, 5)
	short := allStrings(alpha, 2)
	if len(strs) != 1365 {
		t.Fatalf("%d strings", len(strs))
	}
	var c *Ctx
	nEmpty, nNonEmpty, maxStates := 0, 0, 0
	const N = 500
	for it := 0; it < N; it++ {
		if it%100 == 0 {
			c = NewCtx() // mostly shared, so that memo tables see many expressions
		}
		tx := genTn(rng, 1+it%4)
		r := tx.build(c)
		desc := fmt.Sprintf("#%d %s => %s", it, tx, c.String(r))

		// (1) Matches == backtracking matcher on every string up to length 5.
		bruteMin := -1
		for _, s := range strs {
			want := btMatch(tx, s)
			if got := c.Matches(r, s); got != want {
				t.Fatalf("%s: Matches(%q) = %v, backtracking says %v", desc, string(s), got, want)
			}
			if want && bruteMin < 0 {
				bruteMin = len(s)
			}
		}

		// (2) MinLen / IsEmpty / Nullable against brute force and against tmin.
		tm := tmin(tx)
		ml := c.MinLen(r)
		if (tm >= inf) != (ml == -1) || (tm < inf && tm != ml) {
			t.Fatalf("%s: MinLen = %d, structural reference %d", desc, ml, tm)
		}
		if c.IsEmpty(r) != (ml == -1) || c.IsEmpty(r) != (r == c.Empty()) {
			t.Fatalf("%s: IsEmpty inconsistent", desc)
		}
		if c.Nullable(r) != btMatch(tx, nil) {
			t.Fatalf("%s: Nullable", desc)
		}
		switch {
		case c.IsEmpty(r):
			nEmpty++
			if bruteMin != -1 {
				t.Fatalf("%s: IsEmpty but a string of length %d matches", desc, bruteMin)
			}
		default:
			nNonEmpty++
			if ml <= 5 && bruteMin != ml {
				t.Fatalf("%s: MinLen = %d, brute force %d", desc, ml, bruteMin)
			}
			if ml > 5 && bruteMin != -1 {
				t.Fatalf("%s: MinLen = %d but brute force found %d", desc, ml, bruteMin)
			}
			// Independent non-emptiness witness, whatever the length.
			w, ok := c.Sample(r, prng(int64(it)), ml)
			if !ok || len(w) != ml || !btMatch(tx, w) {
				t.Fatalf("%s: no witness of length %d: %q %v", desc, ml, string(w), ok)
			}
		}

		// (3) Sample only returns matching strings within the bound.
		next := prng(int64(1000 + it))
		for _, maxLen := range []int{ml - 1, ml, ml + 1, ml + 3, 9} {
			for k := 0; k < 8; k++ {
				w, ok := c.Sample(r, next, maxLen)
				if ok != (ml >= 0 && ml <= maxLen) {
					t.Fatalf("%s: Sample(maxLen=%d) ok=%v, MinLen=%d", desc, maxLen, ok, ml)
				}
				if !ok {
					if w != nil {
						t.Fatalf("%s: Sample returned a string with ok=false", desc)
					}
					continue
				}
				if len(w) > maxLen || !btMatch(tx, w) || !c.Matches(r, w) {
					t.Fatalf("%s: Sample(maxLen=%d) = %q does not match", desc, maxLen, string(w))
				}
			}
		}

		// (4) Finite, small derivative closure; per state: uniformity inside
		// atoms, FirstSet, viability.
		atoms := c.Atoms(r)
		checkAtomsCover(t, atoms)
		bs := c.Boundaries(r)
		if len(bs) != len(atoms) {
			t.Fatalf("%s: %d boundaries, %d atoms", desc, len(bs), len(atoms))
		}
		for i, a := range atoms {
			if bs[i] != a.Lo {
				t.Fatalf("%s: boundaries %v atoms %v", desc, bs, atoms)
			}
		}
		states, access := closure(t, c, r, 2000)
		if len(states) > maxStates {
			maxStates = len(states)
		}
		for _, s := range states {
			fs := c.FirstSet(s)
			if !fs.Valid() {
				t.Fatalf("%s: FirstSet not canonical: %v", desc, fs)
			}
			pre := access[s]
			if (s != c.Empty()) != (c.MinLen(s) >= 0) {
				t.Fatalf("%s: state %s MinLen", desc, c.String(s))
			}
			if s != c.Empty() {
				// Non-∅ derivative => the access string really is a prefix of
				// a match, according to the independent matcher.
				w, ok := c.Sample(s, next, c.MinLen(s))
				full := append(append([]rune(nil), pre...), w...)
				if !ok || !btMatch(tx, full) {
					t.Fatalf("%s: state %s after %q is not viable (%q)", desc, c.String(s), string(pre), string(full))
				}
			} else if len(pre) <= 3 {
				// ∅ derivative => no short extension matches.
				for _, w := range short {
					if btMatch(tx, append(append([]rune(nil), pre...), w...)) {
						t.Fatalf("%s: ∅ after %q but %q matches", desc, string(pre), string(pre)+string(w))
					}
				}
			}
			if c.Nullable(s) != btMatch(tx, pre) {
				t.Fatalf("%s: Nullable after %q", desc, string(pre))
			}
			for _, a := range atoms {
				d := c.Deriv(s, a.Lo)
				pts := []rune{a.Lo, a.Hi, a.Lo + rune(rng.Intn(int(a.Hi-a.Lo)+1)), a.Lo + rune(rng.Intn(int(a.Hi-a.Lo)+1))}
				for _, p := range pts {
					if c.derivNoMemo(s, p) != d || c.Deriv(s, p) != d {
						t.Fatalf("%s: derivative of %s not uniform in atom %v at %#x", desc, c.String(s), a, p)
					}
					if fs.Contains(p) != (d != c.Empty()) {
						t.Fatalf("%s: FirstSet(%s) = %v wrong at %#x", desc, c.String(s), fs, p)
					}
				}
			}
		}
	}
	if nEmpty < 20 || nNonEmpty < 200 {
		t.Fatalf("generator is unbalanced: %d empty, %d non-empty", nEmpty, nNonEmpty)
	}
	t.Logf("%d expressions (%d empty); largest derivative closure %d states", N, nEmpty, maxStates)
}

// Every expression of depth <= 2 over five leaves: the longest possible
// shortest word has length 4 and every non-empty class meets {a,b,c}, so
// strings over {a,b,c} up to length 4 decide emptiness and MinLen exactly.
func TestRegexExhaustiveSmall(t *testing.T) {
	leaves := []*tn{leafEmpty, leafEps, clsA, clsAB, clsNotA}
	level := leaves
	for d := 0; d < 2; d++ {
		next := append([]*tn(nil), leaves...)
		for _, x := range level {
			next = append(next, &tn{op: tStar, l: x}, &tn{op: tPlus, l: x}, &tn{op: tOpt, l: x})
			for _, y := range level {
				next = append(next, &tn{op: tCat, l: x, r: y}, &tn{op: tAlt, l: x, r: y})
			}
		}
		level = next
	}
	if len(level) != 10015 {
		t.Fatalf("%d expressions", len(level))
	}
	strs := allStrings([]rune("abc"), 4)
	c := NewCtx()
	nEmpty := 0
	for _, tx := range level {
		r := tx.build(c)
		bruteMin := -1
		for _, s := range strs {
			want := btMatch(tx, s)
			if got := c.Matches(r, s); got != want {
				t.Fatalf("%s => %s: Matches(%q) = %v want %v", tx, c.String(r), string(s), got, want)
			}
			if want && bruteMin < 0 {
				bruteMin = len(s)
			}
		}
		if c.IsEmpty(r) != (bruteMin == -1) {
			t.Fatalf("%s => %s: IsEmpty = %v, brute force shortest %d", tx, c.String(r), c.IsEmpty(r), bruteMin)
		}
		if c.MinLen(r) != bruteMin {
			t.Fatalf("%s => %s: MinLen = %d, brute force %d", tx, c.String(r), c.MinLen(r), bruteMin)
		}
		if c.IsEmpty(r) {
			nEmpty++
		}
	}
	if nEmpty == 0 {
		t.Fatalf("no empty expression enumerated")
	}
	t.Logf("%d expressions, %d empty, %d distinct canonical nodes", len(level), nEmpty, c.NumNodes())
}

func TestCanonicalForms(t *testing.T) {
	c := NewCtx()
	a := c.Class(Set{{'a', 'a'}})
	b := c.Class(Set{{'b', 'b'}})
	x := c.Lit([]rune("xy"))
	y := c.Star(c.Lit([]rune("pq")))
	z := c.Cat(a, c.Star(b))
	same := func(what string, p, q *Re) {
		t.Helper()
		if p != q || p.ID != q.ID {
			t.Fatalf("%s: %s (#%d) vs %s (#%d)", what, c.String(p), p.ID, c.String(q), q.ID)
		}
	}
	if c.Empty().ID == c.Eps().ID || c.Empty() == c.Eps() {
		t.Fatalf("∅ and ε coincide")
	}
	same("Class(empty)", c.Class(nil), c.Empty())
	same("Class(inverted)", c.Class(Set{{5, 4}}), c.Empty())
	same("Class uncanonical", c.Class(Set{{'b', 'b'}, {'a', 'a'}}), c.Class(Set{{'a', 'b'}}))
	same("Lit(nil)", c.Lit(nil), c.Eps())
	same("Lit(a)", c.Lit([]rune{'a'}), a)
	same("Lit(ab)", c.Lit([]rune("ab")), c.Cat(a, b))
	same("∅·x", c.Cat(c.Empty(), x), c.Empty())
	same("x·∅", c.Cat(x, c.Empty()), c.Empty())
	same("ε·x", c.Cat(c.Eps(), x), x)
	same("x·ε", c.Cat(x, c.Eps()), x)
	same("cat assoc", c.Cat(c.Cat(x, y), z), c.Cat(x, c.Cat(y, z)))
	same("CatN", c.CatN(x, y, z), c.Cat(x, c.Cat(y, z)))
	same("CatN()", c.CatN(), c.Eps())
	if r := c.Cat(c.Cat(x, y), z); r.Kind != KCat || r.A.Kind == KCat {
		t.Fatalf("cat not right-associated: %s", c.String(r))
	}
	same("∅|x", c.Alt(c.Empty(), x), x)
	same("x|∅", c.Alt(x, c.Empty()), x)
	same("x|x", c.Alt(x, x), x)
	same("alt comm", c.Alt(x, y), c.Alt(y, x))
	same("alt assoc", c.Alt(c.Alt(x, y), z), c.Alt(x, c.Alt(y, z)))
	same("alt assoc/comm", c.Alt(c.Alt(z, x), y), c.Alt(y, c.Alt(z, x)))
	same("alt idem nested", c.Alt(c.Alt(x, y), c.Alt(y, x)), c.Alt(x, y))
	same("AltN", c.AltN(z, y, x, y, c.Empty()), c.Alt(x, c.Alt(y, z)))
	same("AltN()", c.AltN(), c.Empty())
	same("class merge", c.Alt(a, b), c.Class(Set{{'a', 'b'}}))
	same("class merge nested", c.Alt(c.Alt(a, x), c.Alt(y, b)), c.Alt(c.Class(Set{{'a', 'b'}}), c.Alt(x, y)))
	same("class merge to any", c.Alt(c.Class(Set{{0, 'm'}}), c.Class(Set{{'n', MaxRune}})), c.Class(Any()))
	if r := c.Alt(c.Alt(a, x), c.Alt(y, b)); r.Kind != KAlt || len(r.Alts) != 3 {
		t.Fatalf("alt not flattened: %s", c.String(r))
	} else {
		for i := 1; i < len(r.Alts); i++ {
			if r.Alts[i-1].ID >= r.Alts[i].ID {
				t.Fatalf("alt not sorted by ID")
			}
		}
	}
	same("a**", c.Star(c.Star(x)), c.Star(x))
	same("ε*", c.Star(c.Eps()), c.Eps())
	same("∅*", c.Star(c.Empty()), c.Eps())
	same("plus", c.Plus(x), c.Cat(x, c.Star(x)))
	same("opt", c.Opt(x), c.Alt(c.Eps(), x))
	same("opt of nullable", c.Opt(y), y)
	same("opt ∅", c.Opt(c.Empty()), c.Eps())
	same("plus ∅", c.Plus(c.Empty()), c.Empty())
	same("plus of star", c.Plus(y), c.Cat(y, y))

	if !c.IsEmpty(c.Empty()) || c.IsEmpty(c.Eps()) || c.IsEmpty(a) {
		t.Fatalf("IsEmpty")
	}
	if c.MinLen(c.Empty()) != -1 || c.MinLen(c.Eps()) != 0 || c.MinLen(c.Lit([]rune("hello"))) != 5 {
		t.Fatalf("MinLen")
	}
	// Nodes of another context are rejected.
	func() {
		defer func() {
			if recover() == nil {
				t.Fatalf("foreign node accepted")
			}
		}()
		c2 := NewCtx()
		c.Cat(x, c2.Class(Set{{'q', 'q'}}))
	}()
	if s := c.String(c.Cat(c.Alt(x, y), c.Star(c.Alt(a, c.Eps())))); s == "" {
		t.Fatalf("String is empty")
	}
}

// (a|b)* a (a|b)^n needs 2^(n+1) DFA states; the derivative closure must find
// at least those and stay well below the canonicalisation-failure threshold.
func TestClosureKnown(t *testing.T) {
	c := NewCtx()
	ab := c.Class(Set{{'a', 'b'}})
	a := c.Class(Set{{'a', 'a'}})
	const n = 6
	r := a
	for i := 0; i < n; i++ {
		r = c.Cat(r, ab)
	}
	r = c.Cat(c.Star(ab), r)
	states, _ := closure(t, c, r, 2000)
	if len(states) < 1<<(n+1) {
		t.Fatalf("only %d states", len(states))
	}
	t.Logf("(a|b)*a(a|b)^%d: %d derivative states (minimal DFA %d + sink)", n, len(states), 1<<(n+1))

	// Classic blow-up candidates for non-canonical derivatives.
	for _, r := range []*Re{
		c.Star(c.Cat(c.Star(a), c.Star(ab))),
		c.Star(c.Alt(c.Star(a), c.Cat(ab, c.Star(c.Star(c.Alt(a, c.Lit([]rune("ab")))))))),
		c.Star(c.Star(c.Alt(c.Plus(a), c.Plus(c.Cat(a, a))))),
		c.Cat(c.Star(c.Opt(a)), c.Cat(c.Star(c.Opt(a)), c.Star(c.Opt(a)))),
	} {
		states, _ := closure(t, c, r, 200)
		t.Logf("%s: %d states", c.String(r), len(states))
	}
}

func TestBoundariesAndAtoms(t *testing.T) {
	c := NewCtx()
	eqRunes := func(got, want []rune) {
		t.Helper()
		if len(got) != len(want) {
			t.Fatalf("got %v want %v", got, want)
		}
		for i := range got {
			if got[i] != want[i] {
				t.Fatalf("got %v want %v", got, want)
			}
		}
	}
	eqRunes(c.Boundaries(), []rune{0})
	eqRunes(c.Boundaries(c.Eps(), c.Empty()), []rune{0})
	if a := c.Atoms(); len(a) != 1 || a[0] != (Range{0, MaxRune}) {
		t.Fatalf("atoms of nothing: %v", a)
	}
	r1 := c.Cat(c.Class(Set{{'a', 'c'}}), c.Star(c.Class(Set{{0, 0}})))
	r2 := c.Alt(c.Lit([]rune("xz")), c.Class(Set{{'x', MaxRune}}))
	eqRunes(c.Boundaries(r1), []rune{0, 1, 'a', 'd'})
	eqRunes(c.Boundaries(r2), []rune{0, 'x', 'y', 'z', 'z' + 1})
	eqRunes(c.Boundaries(r1, r2, r1), []rune{0, 1, 'a', 'd', 'x', 'y', 'z', 'z' + 1})
	eqRunes(c.Boundaries(c.Class(Any())), []rune{0})
	eqRunes(c.Boundaries(c.Class(Set{{MaxRune, MaxRune}})), []rune{0, MaxRune})
	atoms := c.Atoms(r1, r2)
	checkAtomsCover(t, atoms)
	want := []Range{{0, 0}, {1, 'a' - 1}, {'a', 'c'}, {'d', 'x' - 1}, {'x', 'x'}, {'y', 'y'}, {'z', 'z'}, {'z' + 1, MaxRune}}
	if len(atoms) != len(want) {
		t.Fatalf("atoms %v", atoms)
	}
	for i := range want {
		if atoms[i] != want[i] {
			t.Fatalf("atoms %v want %v", atoms, want)
		}
	}
}

func TestFirstSetFixed(t *testing.T) {
	c := NewCtx()
	a := c.Class(Set{{'a', 'a'}})
	dig := c.Class(Set{{'0', '9'}})
	r := c.Cat(c.Opt(a), c.Cat(c.Star(dig), c.Class(Set{{'x', 'z'}})))
	if got, want := c.FirstSet(r), NewSet(Range{'a', 'a'}, Range{'0', '9'}, Range{'x', 'z'}); !got.Equal(want) {
		t.Fatalf("FirstSet = %v want %v", got, want)
	}
	if !c.FirstSet(c.Empty()).Empty() || !c.FirstSet(c.Eps()).Empty() {
		t.Fatalf("FirstSet of ∅/ε")
	}
	if got := c.FirstSet(c.Cat(a, dig)); !got.Equal(Set{{'a', 'a'}}) {
		t.Fatalf("FirstSet(a[0-9]) = %v", got)
	}
}

func TestUnicodeAndRestrict(t *testing.T) {
	c := NewCtx()
	word := []rune("héllo\U0001F600\U0010FFFF\x00")
	r := c.Lit(word)
	if !c.Matches(r, word) || c.Matches(r, word[:len(word)-1]) || c.Matches(r, append(append([]rune(nil), word...), 0)) {
		t.Fatalf("Lit/Matches on non-ASCII")
	}
	if c.MinLen(r) != len(word) {
		t.Fatalf("MinLen(Lit) = %d", c.MinLen(r))
	}
	if c.Deriv(r, -1) != c.Empty() || c.Deriv(r, MaxRune+1) != c.Empty() {
		t.Fatalf("out-of-range derivative")
	}
	dot := c.Class(Any())
	for _, p := range []rune{0, 0xD800, 0xDFFF, 0xFFFF, 0x10000, MaxRune} {
		if !c.Matches(dot, []rune{p}) {
			t.Fatalf(". does not match %#x", p)
		}
	}
	noSurr := Any().Diff(Set{{0xD800, 0xDFFF}})
	sur := c.Class(Set{{0xD800, 0xDFFF}})
	hi := c.Class(Set{{0xD000, 0xE000}})
	e := c.Alt(c.Cat(sur, dot), c.Cat(hi, c.Star(sur)))
	re := c.Restrict(e, noSurr)
	if want := c.Class(Set{{0xD000, 0xD7FF}, {0xE000, 0xE000}}); re != want {
		t.Fatalf("Restrict = %s want %s", c.String(re), c.String(want))
	}
	if c.Restrict(c.Plus(sur), noSurr) != c.Empty() || c.Restrict(c.Star(sur), noSurr) != c.Eps() {
		t.Fatalf("Restrict to ∅/ε")
	}
	next := prng(5)
	for i := 0; i < 500; i++ {
		w, ok := c.Sample(c.Restrict(c.Star(dot), noSurr), next, 6)
		if !ok {
			t.Fatalf("Sample failed")
		}
		for _, p := range w {
			if p >= 0xD800 && p <= 0xDFFF || p < 0 || p > MaxRune {
				t.Fatalf("sampled %#x", p)
			}
		}
	}
}

// Creating new classes after derivatives have been memoised refines the
// context-wide partition; old memo entries must stay correct.
func TestMemoSurvivesRefinement(t *testing.T) {
	c := NewCtx()
	az := c.Class(Set{{'a', 'z'}})
	r := c.Cat(c.Plus(az), c.Class(Set{{'0', '9'}}))
	d0 := c.Deriv(r, 'q')
	if d0 == c.Empty() || c.Deriv(r, 'a') != d0 || c.Deriv(r, 'z') != d0 {
		t.Fatalf("setup")
	}
	m := c.Class(Set{{'m', 'm'}}) // splits [a-z] into [a-l] m [n-z]
	r2 := c.Cat(c.Plus(az), m)
	for _, p := range []rune{'a', 'l', 'm', 'n', 'z'} {
		if c.Deriv(r, p) != d0 || c.derivNoMemo(r, p) != d0 {
			t.Fatalf("derivative by %c changed after refinement", p)
		}
	}
	for _, p := range []rune{'a' - 1, 'z' + 1, '5', 0, MaxRune} {
		if c.Deriv(r, p) != c.Empty() {
			t.Fatalf("derivative by %#x", p)
		}
	}
	if !c.Matches(r2, []rune("mmm")) || c.Matches(r2, []rune("mmn")) || !c.Matches(r2, []rune("nm")) || !c.Matches(r, []rune("lmn7")) {
		t.Fatalf("matches after refinement")
	}
	// Cross-check memoised against unmemoised derivatives on a mix.
	rng := rand.New(rand.NewSource(3))
	for i := 0; i < 2000; i++ {
		x := []*Re{r, r2, d0}[rng.Intn(3)]
		for k := rng.Intn(4); k >= 0; k-- {
			p := []rune{'a', 'l', 'm', 'n', 'z', '0', '9', '!', 0x10000}[rng.Intn(9)]
			d := c.Deriv(x, p)
			if d != c.derivNoMemo(x, p) {
				t.Fatalf("memo mismatch on %s by %c", c.String(x), p)
			}
			x = d
		}
	}
}

func TestSampleBehaviour(t *testing.T) {
	c := NewCtx()
	ab := c.Class(Set{{'a', 'b'}})

	// Determinism.
	r := c.Cat(c.Star(ab), c.Opt(c.Lit([]rune("xyz"))))
	w1, _ := c.Sample(r, prng(42), 10)
	w2, _ := c.Sample(r, prng(42), 10)
	if string(w1) != string(w2) {
		t.Fatalf("Sample not deterministic: %q %q", string(w1), string(w2))
	}

	// Coverage: every string of (a|b)* up to length 2 shows up, and maxLen is
	// both respected and reached.
	seen := map[string]int{}
	next := prng(1)
	for i := 0; i < 2000; i++ {
		w, ok := c.Sample(c.Star(ab), next, 2)
		if !ok || len(w) > 2 {
			t.Fatalf("Sample((a|b)*, 2) = %q, %v", string(w), ok)
		}
		seen[string(w)]++
	}
	for _, s := range []string{"", "a", "b", "aa", "ab", "ba", "bb"} {
		if seen[s] == 0 {
			t.Fatalf("never sampled %q: %v", s, seen)
		}
	}
	if len(seen) != 7 {
		t.Fatalf("sampled outside the language: %v", seen)
	}

	// Budget: x{3}(y|zzzz) with maxLen 4 must always take the y branch.
	xb := c.Cat(c.Lit([]rune("xxx")), c.Alt(c.Lit([]rune("y")), c.Lit([]rune("zzzz"))))
	both := map[string]bool{}
	for i := 0; i < 200; i++ {
		w, ok := c.Sample(xb, next, 4)
		if !ok || string(w) != "xxxy" {
			t.Fatalf("budgeted sample %q %v", string(w), ok)
		}
		w, ok = c.Sample(xb, next, 7)
		if !ok {
			t.Fatalf("sample failed")
		}
		both[string(w)] = true
	}
	if !both["xxxy"] || !both["xxxzzzz"] || len(both) != 2 {
		t.Fatalf("branches sampled: %v", both)
	}
	if _, ok := c.Sample(xb, next, 3); ok {
		t.Fatalf("sample below MinLen")
	}
	if w, ok := c.Sample(c.Empty(), next, 100); ok || w != nil {
		t.Fatalf("sample of ∅")
	}
	if w, ok := c.Sample(c.Eps(), next, 0); !ok || len(w) != 0 {
		t.Fatalf("sample of ε")
	}
	if _, ok := c.Sample(ab, next, -1); ok {
		t.Fatalf("negative maxLen")
	}

	// Boundary preference: in a wide atom the two end points together get
	// about half of the picks; interior points occur too.
	wide := c.Class(Set{{0x100, 0x10FF}})
	lo, hi, mid := 0, 0, 0
	const trials = 4000
	for i := 0; i < trials; i++ {
		w, ok := c.Sample(wide, next, 1)
		if !ok || len(w) != 1 || w[0] < 0x100 || w[0] > 0x10FF {
			t.Fatalf("wide sample %v", w)
		}
		switch w[0] {
		case 0x100:
			lo++
		case 0x10FF:
			hi++
		default:
			mid++
		}
	}
	if lo < trials/8 || hi < trials/8 || mid < trials/4 {
		t.Fatalf("boundary preference: lo=%d hi=%d interior=%d", lo, hi, mid)
	}

	// Grouping by derivative: a class shattered into many atoms by other
	// parts of the expression does not crowd out the alternative.
	var pieces []*Re
	for ch := rune('A'); ch <= 'Z'; ch++ {
		pieces = append(pieces, c.Cat(c.Lit([]rune{'#', ch}), c.Lit([]rune{ch})))
	}
	shatter := c.Alt(c.AltN(pieces...), c.Alt(c.Cat(c.Class(Set{{'A', 'Z'}}), c.Lit([]rune("!"))), c.Lit([]rune("q?"))))
	q := 0
	for i := 0; i < 1000; i++ {
		w, ok := c.Sample(shatter, next, 3)
		if !ok || !c.Matches(shatter, w) {
			t.Fatalf("shatter sample %q", string(w))
		}
		if w[0] == 'q' {
			q++
		}
	}
	if q < 200 {
		t.Fatalf("alternative crowded out: q chosen %d/1000", q)
	}
}

func TestStringRendering(t *testing.T) {
	c := NewCtx()
	r := c.Cat(c.Alt(c.Lit([]rune("ab")), c.Star(c.Class(Set{{'x', 'z'}, {0, 0}, {']', ']'}}))), c.Class(Any()))
	s := c.String(r)
	for _, want := range []string{"[a][b]", "*", "|", "(", ".", `\]`, `\u{0}`, "x-z"} {
		if !strings.Contains(s, want) {
			t.Fatalf("String = %q lacks %q", s, want)
		}
	}
	if c.String(c.Empty()) != "∅" || c.String(c.Eps()) != "ε" {
		t.Fatalf("String of constants")
	}
}

// A lexer-like workload: identifiers, numbers, strings, comments.
func lexerLike(c *Ctx) *Re {
	letter := c.Class(NewSet(Range{'a', 'z'}, Range{'A', 'Z'}, Range{'_', '_'}, Range{0x80, MaxRune}))
	digit := c.Class(Set{{'0', '9'}})
	ident := c.Cat(letter, c.Star(c.Alt(letter, digit)))
	num := c.Cat(c.Plus(digit), c.Opt(c.Cat(c.Lit([]rune(".")), c.Plus(digit))))
	str := c.CatN(c.Lit([]rune(`"`)), c.Star(c.Alt(c.Class(Any().Diff(NewSet(Range{'"', '"'}, Range{'\\', '\\'}, Range{'\n', '\n'}))), c.Cat(c.Lit([]rune(`\`)), c.Class(Any())))), c.Lit([]rune(`"`)))
	comment := c.CatN(c.Lit([]rune("//")), c.Star(c.Class(Any().Diff(Set{{'\n', '\n'}}))))
	return c.AltN(ident, num, str, comment, c.Lit([]rune("while")), c.Lit([]rune("=>")))
}

func TestLexerLike(t *testing.T) {
	c := NewCtx()
	r := lexerLike(c)
	for s, want := range map[string]bool{
		"while": true, "whilé_9": true, "9": true, "3.14": true, "3.": false, `"a\"b"`: true,
		`"a`: false, "// hi \"": true, "//\n": false, "=>": true, "=": false, "": false, "\"\\\n\"": true,
	} {
		if got := c.Matches(r, []rune(s)); got != want {
			t.Fatalf("Matches(%q) = %v", s, got)
		}
	}
	states, _ := closure(t, c, r, 200)
	next := prng(9)
	for i := 0; i < 300; i++ {
		w, ok := c.Sample(r, next, 12)
		if !ok || len(w) > 12 || !c.Matches(r, w) {
			t.Fatalf("sample %q", string(w))
		}
	}
	t.Logf("%d states, %d atoms, %d nodes", len(states), len(c.Atoms(r)), c.NumNodes())
}

func BenchmarkDerivMemoised(b *testing.B) {
	c := NewCtx()
	r := lexerLike(c)
	input := []rune(`while foo_1 => 3.14 "str\"ing" // comment`)
	b.ResetTimer()
	for i := 0; i < b.N; i++ {
		cur := r
		for _, ch := range input {
			cur = c.Deriv(cur, ch)
			if cur == c.Empty() {
				cur = r
			}
		}
	}
	b.ReportMetric(float64(b.Elapsed().Nanoseconds())/float64(b.N*len(input)), "ns/deriv")
}
