// Package decode reads the tables and constants out of generated *.gen.go
// files (go/parser over the source text) by the row formats that the
// generated code itself documents (_Find, PushRune).
package decode

import (
	"errors"
	"fmt"
	"go/ast"
	"go/parser"
	"go/token"
	"math"
	"sort"
	"strconv"
)

// Vars returns every package-level `var name = []T{ints...}` of a file and the
// list-of-identifiers variables (`[][]uint32{a, b}`), plus int constants.
type File struct {
	Ints   map[string][]int64
	Lists  map[string][]string
	Consts map[string]int64
	ConstOrder []string
	Funcs  map[string]bool
	Types  map[string]bool
}

func intLit(e ast.Expr) (int64, bool) {
	switch v := e.(type) {
	case *ast.BasicLit:
		if v.Kind == token.INT {
			n, err := strconv.ParseInt(v.Value, 0, 64)
			return n, err == nil
		}
	case *ast.UnaryExpr:
		if v.Op == token.SUB {
			n, ok := intLit(v.X)
			return -n, ok
		}
	case *ast.ParenExpr:
		return intLit(v.X)
	}
	return 0, false
}

func Parse(src string) (*File, error) {
	fset := token.NewFileSet()
	f, err := parser.ParseFile(fset, "gen.go", src, 0)
	if err != nil {
		return nil, err
	}
	out := &File{Ints: map[string][]int64{}, Lists: map[string][]string{}, Consts: map[string]int64{}, Funcs: map[string]bool{}, Types: map[string]bool{}}
	for _, d := range f.Decls {
		switch d := d.(type) {
		case *ast.FuncDecl:
			if d.Recv == nil {
				out.Funcs[d.Name.Name] = true
			}
		case *ast.GenDecl:
			for _, sp := range d.Specs {
				switch sp := sp.(type) {
				case *ast.TypeSpec:
					out.Types[sp.Name.Name] = true
				case *ast.ValueSpec:
					for i, name := range sp.Names {
						if i >= len(sp.Values) {
							continue
						}
						if d.Tok == token.CONST {
							if n, ok := intLit(sp.Values[i]); ok {
								out.Consts[name.Name] = n
								out.ConstOrder = append(out.ConstOrder, name.Name)
							}
							continue
						}
						cl, ok := sp.Values[i].(*ast.CompositeLit)
						if !ok {
							continue
						}
						var ints []int64
						var ids []string
						allInt, allID := true, true
						for _, el := range cl.Elts {
							if n, ok := intLit(el); ok {
								ints = append(ints, n)
								allID = false
							} else if id, ok := el.(*ast.Ident); ok {
								ids = append(ids, id.Name)
								allInt = false
							} else {
								allInt, allID = false, false
							}
						}
						if allInt {
							if ints == nil {
								ints = []int64{}
							}
							out.Ints[name.Name] = ints
						} else if allID {
							out.Lists[name.Name] = ids
						}
					}
				}
			}
		}
	}
	return out, nil
}

// Rows splits an encoded table (row-sharing format of table.go: n index
// entries followed by rows, each preceded by its length; an index entry is the
// absolute position of the row's length cell, or -1) into rows. unsigned says
// whether -1 appears as 0xFFFFFFFF.
func Rows(arr []int64, n int) (rows [][]int64, offsets []int64, err error) {
	if n > len(arr) {
		return nil, nil, fmt.Errorf("table has %d cells but %d index entries are needed", len(arr), n)
	}
	for i := 0; i < n; i++ {
		off := arr[i]
		if off == -1 || off == math.MaxUint32 {
			rows = append(rows, nil)
			offsets = append(offsets, -1)
			continue
		}
		if off < int64(n) || off >= int64(len(arr)) {
			return nil, nil, fmt.Errorf("index entry %d = %d points outside the row area [%d,%d)", i, off, n, len(arr))
		}
		l := arr[off]
		if l < 0 || off+1+l > int64(len(arr)) {
			return nil, nil, fmt.Errorf("row of entry %d at %d has length %d which runs past the table", i, off, l)
		}
		rows = append(rows, arr[off+1:off+1+l])
		offsets = append(offsets, off)
	}
	return rows, offsets, nil
}

// RowAreaCovered checks that the rows referenced by the index tile the row
// area exactly (no unreferenced cells, no partial overlaps).
func RowAreaCovered(arr []int64, n int, offsets []int64) error {
	type span struct{ b, e int64 }
	seen := map[int64]bool{}
	var spans []span
	for _, off := range offsets {
		if off < 0 || seen[off] {
			continue
		}
		seen[off] = true
		spans = append(spans, span{off, off + 1 + arr[off]})
	}
	sort.Slice(spans, func(i, j int) bool { return spans[i].b < spans[j].b })
	pos := int64(n)
	for _, s := range spans {
		if s.b != pos {
			return fmt.Errorf("row area: cells [%d,%d) are unreferenced or rows overlap", pos, s.b)
		}
		pos = s.e
	}
	if pos != int64(len(arr)) {
		return fmt.Errorf("row area: cells [%d,%d) are unreferenced", pos, len(arr))
	}
	return nil
}

// LexState is one decoded row of a lexer mode table.
type LexState struct {
	Flags   int64
	Trans   [][3]int64 // lo, hi, next
	Actions [][2]int64 // type, param
}

type LexMode struct {
	States []LexState
}

// LexTable decodes one _lexerModeN array with n states (n <= 0: take the
// number of index entries from the first row's offset, which is how the
// encoder lays tables out).
func LexTable(arr []int64, n int) (*LexMode, error) {
	if len(arr) == 0 {
		return nil, fmt.Errorf("empty mode table")
	}
	if n <= 0 {
		n = int(arr[0])
	}
	if n <= 0 || n > len(arr) {
		return nil, fmt.Errorf("%d index entries do not fit a table of %d cells", n, len(arr))
	}
	rows, offsets, err := Rows(arr, n)
	if err != nil {
		return nil, err
	}
	if err := RowAreaCovered(arr, n, offsets); err != nil {
		return nil, err
	}
	m := &LexMode{}
	for si, row := range rows {
		if row == nil {
			return nil, fmt.Errorf("state %d has no row", si)
		}
		if len(row) < 2 {
			return nil, fmt.Errorf("state %d: row too short", si)
		}
		st := LexState{Flags: row[0]}
		gn := row[1]
		if gn < 0 || 2+3*gn > int64(len(row)) {
			return nil, fmt.Errorf("state %d: goto count %d does not fit the row", si, gn)
		}
		for k := int64(0); k < gn; k++ {
			st.Trans = append(st.Trans, [3]int64{row[2+3*k], row[3+3*k], row[4+3*k]})
		}
		rest := row[2+3*gn:]
		if len(rest)%2 != 0 {
			return nil, fmt.Errorf("state %d: odd number of cells in the action section", si)
		}
		for k := 0; k < len(rest); k += 2 {
			st.Actions = append(st.Actions, [2]int64{rest[k], rest[k+1]})
		}
		m.States = append(m.States, st)
	}
	return m, nil
}

// CheckLexStructure verifies the invariants the properties state: sorted
// disjoint range triples inside the code-point space, next states inside the
// table, well-formed action pairs.
func (m *LexMode) CheckStructure(nModes, nTerminals int) error {
	for si, st := range m.States {
		if st.Flags != 0 && st.Flags != 1 {
			return fmt.Errorf("state %d: unknown flags %d", si, st.Flags)
		}
		prev := int64(-1)
		for _, t := range st.Trans {
			if t[0] > t[1] || t[0] <= prev || t[1] > 0x10FFFF || t[0] < 0 {
				return fmt.Errorf("state %d: range [%d,%d] is not sorted/disjoint/in range (previous end %d)", si, t[0], t[1], prev)
			}
			prev = t[1]
			if t[2] < 0 || t[2] >= int64(len(m.States)) {
				return fmt.Errorf("state %d: transition to state %d outside the table", si, t[2])
			}
		}
		for _, a := range st.Actions {
			switch a[0] {
			case 1:
				if a[1] < 0 || a[1] >= int64(nModes) {
					return fmt.Errorf("state %d: push of mode %d outside _lexerModes", si, a[1])
				}
			case 2, 4, 5:
			case 3:
				if a[1] < 2 || a[1] >= int64(nTerminals) {
					return fmt.Errorf("state %d: accept of terminal %d which is not a token", si, a[1])
				}
			default:
				return fmt.Errorf("state %d: unknown action type %d", si, a[0])
			}
		}
	}
	return nil
}

// ParserTables are the decoded parser arrays.
type ParserTables struct {
	Actions []map[int64]int64 // per state: terminal -> action (shift >= 0, reduce < 0, accept = MaxInt32)
	Gotos   []map[int64]int64 // per state: rule -> state
	Rules   []int64           // production -> lhs rule
	Counts  []int64           // production -> number of terms
}

const Accept = math.MaxInt32

// ErrLayout marks "the documented table variables are not there at all": the
// generated code was restructured, which the decoder cannot judge.
var ErrLayout = errors.New("generated table layout not recognised")

func pairRows(arr []int64, n int, what string) ([]map[int64]int64, error) {
	rows, offsets, err := Rows(arr, n)
	if err != nil {
		return nil, fmt.Errorf("%s: %v", what, err)
	}
	if err := RowAreaCovered(arr, n, offsets); err != nil {
		return nil, fmt.Errorf("%s: %v", what, err)
	}
	var out []map[int64]int64
	for si, row := range rows {
		if row == nil {
			return nil, fmt.Errorf("%s: state %d has no row", what, si)
		}
		if len(row)%2 != 0 {
			return nil, fmt.Errorf("%s: state %d: odd row length", what, si)
		}
		m := map[int64]int64{}
		for k := 0; k < len(row); k += 2 {
			if _, dup := m[row[k]]; dup {
				return nil, fmt.Errorf("%s: state %d: key %d twice", what, si, row[k])
			}
			m[row[k]] = row[k+1]
		}
		out = append(out, m)
	}
	return out, nil
}

// Parser decodes the parser arrays; n is the number of states (<= 0: taken
// from the first index entry).
func Parser(f *File, n int) (*ParserTables, error) {
	acts, ok1 := f.Ints["_actions"]
	gotos, ok2 := f.Ints["_goto"]
	rules, ok3 := f.Ints["_rules"]
	counts, ok4 := f.Ints["_termCounts"]
	if !ok1 || !ok2 || !ok3 || !ok4 {
		return nil, fmt.Errorf("%w: parser.gen.go lacks one of _actions/_goto/_rules/_termCounts", ErrLayout)
	}
	if len(acts) == 0 || len(gotos) == 0 {
		return nil, fmt.Errorf("empty parser table")
	}
	if n <= 0 {
		n = int(acts[0])
	}
	pt := &ParserTables{Rules: rules, Counts: counts}
	var err error
	if pt.Actions, err = pairRows(acts, n, "_actions"); err != nil {
		return nil, err
	}
	if pt.Gotos, err = pairRows(gotos, n, "_goto"); err != nil {
		return nil, err
	}
	return pt, nil
}

// CheckStructure: every index inside its table.
func (pt *ParserTables) CheckStructure(nTerminals, nRules int) error {
	if len(pt.Rules) != len(pt.Counts) {
		return fmt.Errorf("_rules has %d entries, _termCounts %d", len(pt.Rules), len(pt.Counts))
	}
	n := int64(len(pt.Actions))
	for si, row := range pt.Actions {
		for term, a := range row {
			if term < 0 || term >= int64(nTerminals) {
				return fmt.Errorf("_actions state %d: terminal %d out of range", si, term)
			}
			switch {
			case a == Accept:
			case a >= 0:
				if a >= n {
					return fmt.Errorf("_actions state %d: shift to state %d outside the table", si, a)
				}
			default:
				if -a >= int64(len(pt.Rules)) {
					return fmt.Errorf("_actions state %d: reduce by production %d outside _rules", si, -a)
				}
			}
		}
	}
	for si, row := range pt.Gotos {
		for rule, to := range row {
			if rule < 0 || rule >= int64(nRules) {
				return fmt.Errorf("_goto state %d: rule %d out of range", si, rule)
			}
			if to < 0 || to >= n {
				return fmt.Errorf("_goto state %d: goto state %d outside the table", si, to)
			}
		}
	}
	for p, r := range pt.Rules {
		if r < 0 || r >= int64(nRules) {
			return fmt.Errorf("_rules[%d] = %d out of range", p, r)
		}
		if pt.Counts[p] < 0 {
			return fmt.Errorf("_termCounts[%d] negative", p)
		}
	}
	return nil
}
