package main

import (
	"bytes"
	"errors"
	"fmt"
	"os"
	"path/filepath"
	"sort"
	"strings"
	"sync"

	"github.com/dcaiafa/lox/verifhook"

	"verif/internal/decode"
	"verif/internal/evidence"
	"verif/internal/oracle/lexref"
	"verif/internal/oracle/rx"
	"verif/internal/rng"
	"verif/internal/specgen"
)

func init() { register("C10", checkC10) }

// ---------------------------------------------------------------------------
// A. the row-sharing encoder, small scope
// ---------------------------------------------------------------------------

func c10Encoder(c *Ctx) {
	vals := []int32{-1, 0, 1, 2}
	var rows [][]int32
	rows = append(rows, []int32{})
	for _, a := range vals {
		rows = append(rows, []int32{a})
	}
	for _, a := range vals {
		for _, b := range vals {
			rows = append(rows, []int32{a, b})
		}
	}
	rows2 := append([][]int32(nil), rows...)
	for _, a := range vals {
		for _, b := range vals {
			for _, d := range vals {
				rows2 = append(rows2, []int32{a, b, d})
			}
		}
	}
	check := func(indices []int, rs [][]int32) {
		c.Ev.Eval(1)
		var arr []int32
		c.Guard(fmt.Sprintf("table encoder on indices=%v rows=%v", indices, rs), nil, func() { arr = verifhook.EncodeTable(indices, rs) })
		a64 := make([]int64, len(arr))
		for i, v := range arr {
			a64[i] = int64(v)
		}
		n := indices[len(indices)-1] + 1
		dec, offs, err := decode.Rows(a64, n)
		fail := func(why string) {
			c.Violation("table-encoder-roundtrip", &Replay{Why: fmt.Sprintf("EncodeTable(indices=%v, rows=%v) = %v: %s", indices, rs, arr, why)})
		}
		if err != nil {
			fail(err.Error())
			return
		}
		if err := decode.RowAreaCovered(a64, n, offs); err != nil {
			fail(err.Error())
			return
		}
		given := map[int]int{}
		for k, idx := range indices {
			given[idx] = k
		}
		for i := 0; i < n; i++ {
			k, ok := given[i]
			if !ok {
				if offs[i] != -1 {
					fail(fmt.Sprintf("index %d was never added but has a row", i))
					return
				}
				continue
			}
			if offs[i] < 0 || len(dec[i]) != len(rs[k]) {
				fail(fmt.Sprintf("row %d decodes to %v", i, dec[i]))
				return
			}
			for j := range dec[i] {
				if dec[i][j] != int64(rs[k][j]) {
					fail(fmt.Sprintf("row %d decodes to %v", i, dec[i]))
					return
				}
			}
		}
		for x, kx := range given {
			for y, ky := range given {
				same := len(rs[kx]) == len(rs[ky])
				if same {
					for j := range rs[kx] {
						if rs[kx][j] != rs[ky][j] {
							same = false
						}
					}
				}
				if same != (offs[x] == offs[y]) {
					fail(fmt.Sprintf("rows %d and %d: identical=%v but shared offset=%v", x, y, same, offs[x] == offs[y]))
					return
				}
			}
		}
	}
	gaps := [][]int{{0, 0, 0, 0}, {1, 0, 0, 0}, {0, 2, 0, 0}, {0, 0, 1, 3}, {2, 1, 0, 1}}
	mkIdx := func(k int, g []int) []int {
		idx := make([]int, k)
		cur := -1
		for i := 0; i < k; i++ {
			cur += 1 + g[i]
			idx[i] = cur
		}
		return idx
	}
	// every sequence of up to 3 rows of length <= 2, every gap pattern
	for _, g := range gaps {
		for _, a := range rows {
			check(mkIdx(1, g), [][]int32{a})
			for _, b := range rows {
				check(mkIdx(2, g), [][]int32{a, b})
				for _, d := range rows {
					check(mkIdx(3, g), [][]int32{a, b, d})
				}
			}
		}
	}
	c.Ev.Count("encoder_tables_exhaustive", c.Ev.Evals())
	// Multi-digit and boundary values: every PAIR of rows of length <= 2 over a
	// value set chosen so that any non-injective row key (digits running into
	// each other, 7-bit group boundaries, sign handling) makes two different
	// rows collide; complete.
	wide := []int32{-1, 0, 1, 2, 8, 10, 11, 12, 18, 21, 22, 101, 110, 63, 64, 127, 128, 255, 256, 8191, 8192, -2, -10, -12, -64, -65, 2147483647}
	var wrows [][]int32
	wrows = append(wrows, []int32{})
	for _, a := range wide {
		wrows = append(wrows, []int32{a})
	}
	for _, a := range wide {
		for _, b := range wide {
			wrows = append(wrows, []int32{a, b})
		}
	}
	for _, a := range wrows {
		for _, b := range wrows {
			check([]int{0, 1}, [][]int32{a, b})
		}
	}
	c.Ev.Count("encoder_row_pairs_wide_values", len(wrows)*len(wrows))
	// sampled: 4-6 rows of length <= 3
	r := c.R.Derive("encoder", 0)
	for i := 0; i < c.N(30000, 400000); i++ {
		k := r.Range(4, 6)
		rs := make([][]int32, k)
		for j := range rs {
			if r.Chance(1, 2) {
				rs[j] = rows2[r.Intn(len(rows2))]
			} else {
				n := r.Intn(4)
				rs[j] = make([]int32, n)
				for q := range rs[j] {
					rs[j][q] = wide[r.Intn(len(wide))]
				}
			}
		}
		g := make([]int, k)
		for j := range g {
			if r.Chance(1, 4) {
				g[j] = r.Intn(3)
			}
		}
		check(mkIdx(k, g), rs)
	}
}

// ---------------------------------------------------------------------------
// B. lexer tables
// ---------------------------------------------------------------------------

type lexAct struct{ typ, param int64 }

func dumpActs(md *verifhook.ModeDump, st *verifhook.LexStateDump, modeIdx map[string]int) []lexAct {
	var out []lexAct
	for _, a := range st.Actions {
		switch a.Type {
		case 1:
			out = append(out, lexAct{1, int64(modeIdx[a.Mode])})
		case 3:
			out = append(out, lexAct{3, int64(a.Terminal)})
		default:
			out = append(out, lexAct{int64(a.Type), 0})
		}
	}
	return out
}

// c10LexerTables compares the decoded lexer tables with the dump of the
// automata they were emitted from; returns the decoded modes.
func c10LexerTables(lexerGen string, fe *verifhook.FrontEnd) ([]*decode.LexMode, string) {
	f, err := decode.Parse(lexerGen)
	if err != nil {
		return nil, "lexer.gen.go does not parse: " + err.Error()
	}
	names := f.Lists["_lexerModes"]
	if len(names) != len(fe.Modes) {
		return nil, fmt.Sprintf("_lexerModes lists %d tables, %d modes were built", len(names), len(fe.Modes))
	}
	modeIdx := map[string]int{}
	for _, m := range fe.Modes {
		modeIdx[m.Name] = m.Index
	}
	nTerm := len(fe.Parser.Terminals)
	var out []*decode.LexMode
	for i, md := range fe.Modes {
		if md.Index != i {
			return nil, fmt.Sprintf("mode %q has index %d at position %d", md.Name, md.Index, i)
		}
		arr, ok := f.Ints[names[i]]
		if !ok {
			return nil, fmt.Sprintf("table %s not found", names[i])
		}
		dm, err := decode.LexTable(arr, len(md.States))
		if err != nil {
			return nil, fmt.Sprintf("%s: %v", names[i], err)
		}
		if err := dm.CheckStructure(len(fe.Modes), nTerm); err != nil {
			return nil, fmt.Sprintf("%s: %v", names[i], err)
		}
		for si := range md.States {
			sd := &md.States[si]
			if sd.ID != si {
				return nil, fmt.Sprintf("%s: dump state %d has id %d", names[i], si, sd.ID)
			}
			ds := dm.States[si]
			wantFlag := int64(0)
			if sd.Accept && sd.NonGreedy {
				wantFlag = 1
			}
			if ds.Flags != wantFlag {
				return nil, fmt.Sprintf("%s state %d: flags %d, automaton says %d", names[i], si, ds.Flags, wantFlag)
			}
			if len(ds.Trans) != len(sd.Trans) {
				return nil, fmt.Sprintf("%s state %d: %d transitions in the table, %d in the automaton", names[i], si, len(ds.Trans), len(sd.Trans))
			}
			for k, t := range sd.Trans {
				if ds.Trans[k] != [3]int64{int64(t.B), int64(t.E), int64(t.To)} {
					return nil, fmt.Sprintf("%s state %d transition %d: table %v, automaton [%d,%d]->%d", names[i], si, k, ds.Trans[k], t.B, t.E, t.To)
				}
			}
			want := dumpActs(&md, sd, modeIdx)
			if len(want) != len(ds.Actions) {
				return nil, fmt.Sprintf("%s state %d: %d actions in the table, %d in the automaton", names[i], si, len(ds.Actions), len(want))
			}
			for k, a := range want {
				if ds.Actions[k] != [2]int64{a.typ, a.param} {
					return nil, fmt.Sprintf("%s state %d action %d: table %v, automaton %v", names[i], si, k, ds.Actions[k], a)
				}
			}
		}
		out = append(out, dm)
	}
	return out, ""
}

// c10Product explores the product of a decoded mode table with the tuple of
// rule derivatives over the atoms of the joint partition of the code-point
// space: the table has a transition iff some derivative is non-empty, and a
// state reached with no further transition carries the actions of the
// earliest rule whose derivative is nullable. Covers all strings for that
// mode. Returns states explored, "" / difference, and whether the budget was
// exhausted.
func c10Product(ctx *rx.Ctx, dm *decode.LexMode, rules []lexref.Rule, cap int) (int, string, bool) {
	res := make([]*rx.Re, len(rules))
	for i, r := range rules {
		res[i] = r.Re
	}
	cuts := map[rune]bool{0: true}
	for _, b := range ctx.Boundaries(res...) {
		cuts[b] = true
	}
	for _, st := range dm.States {
		for _, t := range st.Trans {
			cuts[rune(t[0])] = true
			if t[1]+1 <= 0x10FFFF {
				cuts[rune(t[1]+1)] = true
			}
		}
	}
	var reps []rune
	for b := range cuts {
		reps = append(reps, b)
	}
	sort.Slice(reps, func(i, j int) bool { return reps[i] < reps[j] })
	type node struct {
		st  int
		key string
	}
	keyOf := func(ds []*rx.Re) string {
		var sb strings.Builder
		for _, d := range ds {
			fmt.Fprintf(&sb, "%d,", d.ID)
		}
		return sb.String()
	}
	type item struct {
		st   int
		ds   []*rx.Re
		path []rune
	}
	seen := map[node]bool{}
	queue := []item{{0, res, nil}}
	seen[node{0, keyOf(res)}] = true
	step := func(st int, ch rune) int {
		ts := dm.States[st].Trans
		lo, hi := 0, len(ts)
		for lo < hi {
			m := (lo + hi) / 2
			switch {
			case int64(ch) < ts[m][0]:
				hi = m
			case int64(ch) > ts[m][1]:
				lo = m + 1
			default:
				return int(ts[m][2])
			}
		}
		return -1
	}
	for len(queue) > 0 {
		it := queue[0]
		queue = queue[1:]
		st := dm.States[it.st]
		// label
		win := -1
		stopNG := false
		for i, d := range it.ds {
			if ctx.Nullable(d) {
				if win < 0 {
					win = i
				}
				if rules[i].NonGreedy {
					stopNG = true
				}
			}
		}
		if win < 0 {
			if len(st.Actions) != 0 {
				return len(seen), fmt.Sprintf("after %q: table state %d carries actions %v but no rule matches exactly this text", string(it.path), it.st, st.Actions), false
			}
		} else {
			a := rules[win].Act
			var want [][2]int64
			if a.Push >= 0 {
				want = append(want, [2]int64{1, int64(a.Push)})
			}
			if a.Pop {
				want = append(want, [2]int64{2, 0})
			}
			switch {
			case a.Emit >= 0:
				want = append(want, [2]int64{3, int64(a.Emit)})
			case a.Discard:
				want = append(want, [2]int64{4, 0})
			default:
				want = append(want, [2]int64{5, 0})
			}
			got := append([][2]int64(nil), st.Actions...)
			less := func(x [][2]int64) func(i, j int) bool {
				return func(i, j int) bool {
					if x[i][0] != x[j][0] {
						return x[i][0] < x[j][0]
					}
					return x[i][1] < x[j][1]
				}
			}
			sort.Slice(want, less(want))
			sort.Slice(got, less(got))
			if fmt.Sprint(want) != fmt.Sprint(got) {
				return len(seen), fmt.Sprintf("after %q: table state %d carries actions %v, the earliest rule matching exactly this text (rule %d) has %v", string(it.path), it.st, st.Actions, win, want), false
			}
		}
		if stopNG {
			// A non-greedy rule matches completely: the machine must stop
			// here, either because the state is flagged or because it has no
			// way to go on.
			if st.Flags&1 == 0 {
				for _, ch := range reps {
					if step(it.st, ch) >= 0 {
						return len(seen), fmt.Sprintf("after %q: a non-greedy rule matches completely but table state %d is not flagged non-greedy-accepting and goes on with U+%04X", string(it.path), it.st, ch), false
					}
				}
			}
			continue
		}
		if st.Flags&1 != 0 {
			return len(seen), fmt.Sprintf("after %q: table state %d is flagged non-greedy-accepting but no non-greedy rule matches completely", string(it.path), it.st), false
		}
		for _, ch := range reps {
			next := step(it.st, ch)
			nds := make([]*rx.Re, len(it.ds))
			viable := false
			for i, d := range it.ds {
				nds[i] = ctx.Deriv(d, ch)
				if !ctx.IsEmpty(nds[i]) {
					viable = true
				}
			}
			if viable != (next >= 0) {
				return len(seen), fmt.Sprintf("after %q on U+%04X: table has a transition = %v, some rule can continue = %v", string(it.path), ch, next >= 0, viable), false
			}
			if next < 0 {
				continue
			}
			n := node{next, keyOf(nds)}
			if !seen[n] {
				if len(seen) >= cap {
					return len(seen), "", true
				}
				seen[n] = true
				queue = append(queue, item{next, nds, append(append([]rune(nil), it.path...), ch)})
			}
		}
	}
	return len(seen), "", false
}

// ---------------------------------------------------------------------------
// C. parser tables
// ---------------------------------------------------------------------------

func c10ParserTables(parserGen string, d *verifhook.ParserDump) (int, string) {
	f, err := decode.Parse(parserGen)
	if err != nil {
		return 0, "parser.gen.go does not parse: " + err.Error()
	}
	pt, err := decode.Parser(f, len(d.States))
	if err != nil {
		if errors.Is(err, decode.ErrLayout) {
			return 0, "INCONCLUSIVE:" + err.Error()
		}
		return 0, err.Error()
	}
	if err := pt.CheckStructure(len(d.Terminals), len(d.Rules)); err != nil {
		return 0, err.Error()
	}
	if len(pt.Rules) != len(d.Prods) {
		return 0, fmt.Sprintf("_rules has %d entries, the grammar %d productions", len(pt.Rules), len(d.Prods))
	}
	for p, pd := range d.Prods {
		if pt.Rules[p] != int64(pd.Rule) || pt.Counts[p] != int64(len(pd.Terms)) {
			return 0, fmt.Sprintf("production %d: _rules=%d _termCounts=%d, grammar says rule %d with %d terms", p, pt.Rules[p], pt.Counts[p], pd.Rule, len(pd.Terms))
		}
	}
	cells := 0
	for s, sd := range d.States {
		want := map[int64]int64{}
		for _, a := range sd.Actions {
			var code int64
			switch a.Kind {
			case 0:
				code = int64(a.Target)
			case 1:
				code = -int64(a.Target)
			case 2:
				code = decode.Accept
			}
			if _, dup := want[int64(a.Terminal)]; dup {
				return cells, fmt.Sprintf("state %d: the automaton keeps two actions on terminal %d although generation succeeded", s, a.Terminal)
			}
			want[int64(a.Terminal)] = code
		}
		got := pt.Actions[s]
		if len(got) != len(want) {
			return cells, fmt.Sprintf("_actions state %d: %d entries in the table, %d in the automaton", s, len(got), len(want))
		}
		for t, w := range want {
			cells++
			if g, ok := got[t]; !ok || g != w {
				return cells, fmt.Sprintf("_actions state %d terminal %d: table %v (present=%v), automaton %d", s, t, g, ok, w)
			}
		}
		wg := map[int64]int64{}
		for _, g := range sd.Gotos {
			wg[int64(g[0])] = int64(g[1])
		}
		gg := pt.Gotos[s]
		if len(gg) != len(wg) {
			return cells, fmt.Sprintf("_goto state %d: %d entries in the table, %d in the automaton", s, len(gg), len(wg))
		}
		for r, w := range wg {
			cells++
			if g, ok := gg[r]; !ok || g != w {
				return cells, fmt.Sprintf("_goto state %d rule %d: table %v, automaton %d", s, r, g, w)
			}
		}
	}
	return cells, ""
}

// ---------------------------------------------------------------------------

func checkC10(c *Ctx) error {
	c.Ev = evidence.New("C10", c.Tier, c.Seed, "exploration",
		"(A) the generic row-sharing encoder is driven through the hook on every sequence of up to 3 rows of length <= 2 over {-1,0,1,2} with 5 index-gap patterns (complete) and on sampled sequences of 4-6 rows of length <= 3: decoding by the documented format gives back every row, missing indices stay -1, identical rows share an offset and different rows never do, the row area is tiled exactly. (B) lexer: specifications as in C02/C07/C08 are generated by the real EmitLexer stage; the decoded _lexerModeN tables must be structurally sound (indices inside tables, sorted disjoint triples, well-formed action pairs), equal state by state to the automata they were emitted from (hook dump of the same run), and — over ALL strings — equivalent to the rules: breadth-first exploration of the product (table state x tuple of rule derivatives) over the atoms of the joint partition of the code-point space. (C) parser: for C01-style grammars generated by CLI and hook path the decoded _actions/_goto/_rules/_termCounts equal the constructed automaton cell by cell. Non-trivial: lexer modes with at least 3 states / parser tables with at least 6 states; distinct by specification text.")
	c.Ev.Assumptions = []string{
		"row formats as documented in the generated code (_Find; PushRune comment block)",
		"product exploration is cut off at 50000 product states (counted as inconclusive)",
	}
	c10Encoder(c)
	c.Logf("encoder done: %d tables", c.Ev.Evals())

	// ---- B ------------------------------------------------------------------
	tmp, err := os.MkdirTemp(c.Env.Scratch, "c10-")
	if err != nil {
		return err
	}
	nLex := c.N(1600, 20000)
	var mu sync.Mutex

	parallel(4, 4, func(w int) {
		r := c.R.Derive("lex", w)
		dir := filepath.Join(tmp, fmt.Sprintf("w%d", w))
		os.MkdirAll(dir, 0o755)
		d := newLexDrawer()
		for i := 0; i < nLex/4; i++ {
			var lc *LCase
			switch r.Intn(5) {
			case 0:
				s, a := specgen.NonGreedyLexer(r)
				lc = newLCase(s, a, "non-greedy", false)
			case 1, 2:
				lc = d.draw(r, specgen.LexOpts{Wide: r.Chance(1, 2), Modes: true, Frags: true, Macros: true, NoNullable: true, MaxRules: 5}, "modes", noNullableRule)
			default:
				lc = d.draw(r, specgen.LexOpts{Wide: r.Chance(1, 2), Macros: true, NullablePct: 20, MaxRules: 6}, "single-mode", nil)
			}
			if lc == nil {
				continue
			}
			for fn, src := range lc.Files {
				os.WriteFile(filepath.Join(dir, fn), []byte(strings.ReplaceAll(src, "package PKGNAME", "package w")), 0o644)
			}
			var diag bytes.Buffer
			ok := false
			var fe *verifhook.FrontEnd
			func() {
				defer func() {
					if rec := recover(); rec != nil {
						fmt.Fprintf(&diag, "panic: %v", rec)
					}
				}()
				c.Guard("lexer generation (ParseLox + EmitLexer) on l.lox", map[string]string{"l.lox": lc.Lox}, func() {
					ok = verifhook.GenerateLexerOnly(dir, &diag, nil)
					if ok {
						fe = verifhook.ParseLox(dir, &diag, nil)
					}
				})
			}()
			c.Ev.Eval(1)
			rp := func(why string) *Replay {
				return &Replay{Why: why, Files: map[string]string{"l.lox": lc.Lox}, Extra: map[string]any{"origin": lc.Origin}}
			}
			if !ok || fe == nil || !fe.OK {
				c.Violation("valid-lexer-spec-rejected", rp("EmitLexer path failed on a well-formed specification: "+diag.String()))
				continue
			}
			gen, _ := os.ReadFile(filepath.Join(dir, "lexer.gen.go"))
			modes, why := c10LexerTables(string(gen), fe)
			if why != "" {
				c.Violation("lexer-table-differs-from-automaton", rp(why))
				continue
			}
			c.Ev.Count("lexer_modes_decoded", len(modes))
			for mi, dm := range modes {
				c.Ev.Count("lexer_states_decoded", len(dm.States))
				n, diff, over := c10Product(lc.Ctx, dm, lc.Ref.Modes[mi].Rules, 50000)
				c.Ev.Count("product_states_explored", n)
				if over {
					c.Inconclusive("product-exploration-over-budget")
					continue
				}
				if diff != "" {
					c.Violation("lexer-table-not-equivalent-to-rules", rp(fmt.Sprintf("mode %d: %s", mi, diff)))
					break
				}
				if len(dm.States) >= 3 {
					c.Ev.Distinct(fmt.Sprintf("%s|mode%d", lc.Lox, mi))
				}
			}
			if c.Ev.WantSample() {
				c.Ev.Sample(map[string]any{"lox": lc.Lox, "modes": len(modes), "states_mode0": len(modes[0].States)})
			}
		}
	})
	c.Logf("lexer tables done: %d evaluations", c.Ev.Evals())

	// ---- C ------------------------------------------------------------------
	nBatches := c.N(2, 24)
	nCLI := c.N(1, 4)
	dr := newDrawer()
	fastOK := true
	doBatch := func(bi int) {
		r := c.R.Derive("batch", bi)
		var cases []*PCase
		for len(cases) < 32 {
			pc := dr.draw(r, drawOpts{errPct: 15, bounds: 10, large: true})
			if pc == nil {
				break
			}
			cases = append(cases, pc)
		}
		mu.Lock()
		fast := bi >= nCLI && fastOK
		mu.Unlock()
		b, err := genBatch(c, cases, fast, false)
		if err != nil {
			c.Inconclusive("batch-build-failed")
			return
		}
		defer b.Remove()
		if bi == 0 {
			ok := crossCheckFast(c, cases)
			mu.Lock()
			fastOK = ok
			mu.Unlock()
		}
		for _, pc := range cases {
			if !pc.Pkg.GenOK {
				c.Ev.Count("grammars_lox_rejected", 1)
				continue
			}
			var diag bytes.Buffer
			fe := verifhook.ParseLox(pc.Pkg.Dir, &diag, nil)
			c.Ev.Eval(1)
			if fe == nil || !fe.OK || fe.Parser == nil {
				c.Inconclusive("dump-unavailable")
				continue
			}
			gen := pc.Pkg.ReadGen()
			cells, why := c10ParserTables(gen["parser.gen.go"], fe.Parser)
			c.Ev.Count("parser_cells_compared", cells)
			c.Ev.Count("parser_states_decoded", len(fe.Parser.States))
			if strings.HasPrefix(why, "INCONCLUSIVE:") {
				c.Inconclusive("parser-table-variables-not-found")
				continue
			}
			if why != "" {
				c.Violation("parser-table-differs-from-automaton", pc.replay(why, nil, nil, nil))
				continue
			}
			if _, why := c10LexerTables(gen["lexer.gen.go"], fe); why != "" {
				c.Violation("lexer-table-differs-from-automaton", pc.replay(why, nil, nil, nil))
				continue
			}
			if len(fe.Parser.States) >= 6 {
				c.Ev.Distinct(pc.Lox)
			}
		}
	}
	doBatch(0)
	parallel(nBatches-1, 4, func(i int) { doBatch(i + 1) })
	c.nontrivMin = 100
	return nil
}

var _ = rng.New
