package main

import (
	"bufio"
	"bytes"
	"crypto/sha256"
	"encoding/json"
	"fmt"
	"os"
	"os/exec"
	"path/filepath"
	"strings"
	"sync"
	"time"

	"github.com/dcaiafa/lox/verifhook"

	"verif/internal/evidence"
	"verif/internal/gram"
	"verif/internal/rng"
	"verif/internal/run"
)

func init() { register("C13", checkC13) }

// c13Draw draws a specification with many tokens / modes / files (family A)
// or a grammar whose rules return imported Go types (family B).
// c13SameNameCase: a rule may legally be called ERROR (only token names are
// reserved); next to @error two different symbols then carry the same name,
// and any ordering "by name" needs a deterministic tie-break.
func c13SameNameCase(r *rng.R) *PCase {
	g := &gram.Grammar{}
	names := []string{"NUM", "SEMI", "ID", "COMMA", "LP"}
	lits := []string{"0", ";", "id", ",", "("}
	n := r.Range(3, 5)
	for i := 0; i < n; i++ {
		g.Tokens = append(g.Tokens, gram.Token{Name: names[i], Lit: lits[i]})
	}
	tok := func(i int) gram.Term { return gram.Term{Ref: gram.Ref{Kind: gram.KTok, Idx: i}} }
	rule := func(i int) gram.Term { return gram.Term{Ref: gram.Ref{Kind: gram.KRule, Idx: i}} }
	errT := gram.Term{Ref: gram.Ref{Kind: gram.KErr}}
	stmt := []gram.Prod{
		{Terms: []gram.Term{tok(2), tok(1)}},
		{Terms: []gram.Term{rule(2), tok(1)}},
		{Terms: []gram.Term{errT, tok(1)}},
	}
	if r.Chance(1, 2) {
		stmt[1], stmt[2] = stmt[2], stmt[1]
	}
	if n > 3 && r.Chance(1, 2) {
		stmt = append(stmt, gram.Prod{Terms: []gram.Term{tok(3), rule(2), errT, tok(1)}})
	}
	sugar := []gram.Sugar{gram.Plus, gram.Star}[r.Intn(2)]
	g.Rules = []gram.Rule{
		{Name: "prog", Prods: []gram.Prod{{Terms: []gram.Term{{Ref: gram.Ref{Kind: gram.KRule, Idx: 1}, Sugar: sugar}}}}},
		{Name: "stmt", Prods: stmt},
		{Name: "ERROR", Prods: []gram.Prod{{Terms: []gram.Term{tok(0), tok(0)}}}},
	}
	pc := &PCase{G: g, Origin: "rule-named-like-the-error-terminal"}
	pc.C = g.Desugar(false)
	pc.prepare()
	return pc
}

// c13ExternalOnlyCase: every token is declared @external (the user brings
// their own lexer): the lexer half of the output has nothing to recognise,
// and must still be the same bytes whatever the directory held before.
func c13ExternalOnlyCase(r *rng.R) *PCase {
	base := c13SameNameCase(r)
	g := base.G
	var names []string
	for _, t := range g.Tokens {
		names = append(names, t.Name)
	}
	g.CustomLexer = "@lexer\n@external " + strings.Join(names, " ")
	if r.Chance(1, 2) {
		g.CustomLexer = "@lexer"
		for _, n := range names {
			g.CustomLexer += "\n@external " + n
		}
	}
	pc := &PCase{G: g, Origin: "all-tokens-external"}
	pc.C = g.Desugar(false)
	pc.prepare()
	return pc
}

func c13Draw(d *caseDrawer, r *rng.R) *PCase {
	if r.Chance(1, 6) {
		return c13SameNameCase(r)
	}
	if r.Chance(1, 6) {
		return c13ExternalOnlyCase(r)
	}
	if r.Chance(1, 2) {
		cc := drawC19(r)
		cc.PCase.Origin = "many-tokens-modes-files"
		return &cc.PCase
	}
	for try := 0; try < 50; try++ {
		pc := d.draw(r, drawOpts{errPct: 10, noStarF: true, minSent: 1})
		if pc == nil {
			return nil
		}
		types := make([]gram.GoType, len(pc.G.Rules))
		for i := range types {
			types[i] = gram.StdPalette[r.Intn(len(gram.StdPalette))]
		}
		pc.Files = map[string]string{"g.lox": pc.Lox}
		if r.Chance(1, 2) {
			// the user's package in two files, types spelled two ways
			for fn, src := range pc.G.TypedHarnessFiles(types, r.Chance(1, 3)) {
				pc.Files[fn] = src
			}
			pc.Origin += "+two-go-files"
		} else {
			pc.Files["harness.go"] = pc.G.TypedHarness(types, r.Chance(1, 3))
		}
		pc.Intern, pc.Stub = "", ""
		pc.Origin += "+imported-types"
		return pc
	}
	return nil
}

type genOut struct {
	files  map[string]string
	report string
	exit   int
	diag   string
}

func (g *genOut) digest() string {
	h := sha256.New()
	for _, fn := range []string{"base.gen.go", "lexer.gen.go", "parser.gen.go"} {
		fmt.Fprintf(h, "%s:%d:", fn, len(g.files[fn]))
		h.Write([]byte(g.files[fn]))
	}
	h.Write([]byte(g.report))
	return fmt.Sprintf("%x", h.Sum(nil))
}

func readGen(dir string) map[string]string {
	out := map[string]string{}
	for _, fn := range []string{"base.gen.go", "lexer.gen.go", "parser.gen.go"} {
		if data, err := os.ReadFile(filepath.Join(dir, fn)); err == nil {
			out[fn] = string(data)
		}
	}
	return out
}

func firstDiff(a, b *genOut) string {
	for _, fn := range []string{"base.gen.go", "lexer.gen.go", "parser.gen.go"} {
		if a.files[fn] != b.files[fn] {
			al, bl := strings.Split(a.files[fn], "\n"), strings.Split(b.files[fn], "\n")
			for i := 0; i < len(al) && i < len(bl); i++ {
				if al[i] != bl[i] {
					return fmt.Sprintf("%s line %d: %q vs %q", fn, i+1, al[i], bl[i])
				}
			}
			return fmt.Sprintf("%s: %d vs %d lines", fn, len(al), len(bl))
		}
	}
	if a.report != b.report {
		al, bl := strings.Split(a.report, "\n"), strings.Split(b.report, "\n")
		for i := 0; i < len(al) && i < len(bl); i++ {
			if al[i] != bl[i] {
				return fmt.Sprintf("--report line %d: %q vs %q", i+1, al[i], bl[i])
			}
		}
		return "--report length differs"
	}
	if a.exit != b.exit {
		return fmt.Sprintf("exit status %d vs %d", a.exit, b.exit)
	}
	return ""
}

func checkC13(c *Ctx) error {
	c.Ev = evidence.New("C13", c.Tier, c.Seed, "exploration",
		"specifications chosen so that every map in the generator has many entries (up to 40 tokens, several modes and files; grammars whose rules return types from up to 10 imported packages). For each specification the bytes of base.gen.go, lexer.gen.go, parser.gen.go and of the --report text are compared across: fresh CLI processes; working directory inside the package ('lox .'), its parent (relative path) and / (absolute path); a directory that already holds its own output, the output of a different grammar, or a syntactically broken parser.gen.go; and, in-process, repeated full generations in one process (every repetition re-randomises every Go map iteration order) plus repeated front-end + report + lexer renders. Non-trivial: specifications with at least 8 terminals or at least 3 imported packages; distinct by specification text. A dependence on map order is detected with probability 1-2^-k per run, not certainly.")
	c.Ev.Assumptions = []string{
		"diagnostics on stderr are not part of the compared output",
	}
	d := newDrawer()
	nCLI := c.N(12, 120)
	r := c.R.Derive("cli", 0)
	var cases []*PCase
	for len(cases) < nCLI {
		pc := c13Draw(d, r)
		switch len(cases) {
		case 3:
			// the special families are part of every run, whatever the draw
			pc = c13ExternalOnlyCase(r)
		case 6:
			pc = c13SameNameCase(r)
		case 7, 8, 9, 10, 11:
			// the user's package in two Go files, types spelled two ways
			for try := 0; try < 60 && (pc == nil || !strings.Contains(pc.Origin, "two-go-files")); try++ {
				pc = c13Draw(d, r)
			}
		}
		if pc == nil {
			break
		}
		cases = append(cases, pc)
	}
	root := filepath.Join(c.Env.Scratch, "c13")
	// one module for all: batch-like layout so that imports resolve
	b, err := c.Env.NewBatch()
	if err != nil {
		return err
	}
	defer b.Remove()
	_ = root
	// goPrefix: the user's Go files are called harness.go / internals.go, or,
	// for every other specification, a_harness.go / a_internals.go, so that
	// they sort before the generated files (whatever the generator does with
	// "the first" or "the last" Go file of the directory then meets a
	// generated file instead of a user file).
	goPrefix := map[*PCase]string{}
	writePkg := func(name string, pc *PCase, extra map[string]string) string {
		dir := filepath.Join(b.Dir, name)
		os.MkdirAll(dir, 0o755)
		pkg := name
		for fn, src := range pc.Files {
			if strings.HasSuffix(fn, ".go") {
				fn = goPrefix[pc] + fn
			}
			os.WriteFile(filepath.Join(dir, fn), []byte(strings.ReplaceAll(src, "package PKGNAME", "package "+pkg)), 0o644)
		}
		if pc.Stub != "" {
			os.WriteFile(filepath.Join(dir, goPrefix[pc]+"internals.go"), []byte(strings.ReplaceAll(pc.Stub, "package PKGNAME", "package "+pkg)), 0o644)
		}
		for fn, src := range extra {
			os.WriteFile(filepath.Join(dir, fn), []byte(src), 0o644)
		}
		return dir
	}
	runCLI := func(cwd string, args ...string) *genOut {
		exit, so, se, _ := c.Env.RunLox(cwd, 3*time.Minute, args...)
		return &genOut{exit: exit, report: so, diag: se}
	}
	var mu sync.Mutex
	for i, pc := range cases {
		if i%2 == 1 {
			goPrefix[pc] = "a_"
		}
	}
	parallel(len(cases), 3, func(i int) {
		pc := cases[i]
		base := fmt.Sprintf("s%03d", i)
		variants := []struct {
			name string
			run  func() *genOut
		}{}
		mk := func(name string, f func() *genOut) {
			variants = append(variants, struct {
				name string
				run  func() *genOut
			}{name, f})
		}
		ref := writePkg(base+"a", pc, nil)
		mk("fresh process, relative path from the parent", func() *genOut {
			o := runCLI(b.Dir, "--report", base+"a")
			o.files = readGen(ref)
			return o
		})
		for k := 0; k < c.N(1, 2); k++ {
			k := k
			mk(fmt.Sprintf("another fresh process #%d", k+1), func() *genOut {
				dir := writePkg(fmt.Sprintf("%sb%d", base, k), pc, nil)
				o := runCLI(b.Dir, "--report", filepath.Base(dir))
				o.files = readGen(dir)
				return o
			})
		}
		mk("cwd inside the package, 'lox .'", func() *genOut {
			dir := writePkg(base+"c", pc, nil)
			o := runCLI(dir, "--report", ".")
			o.files = readGen(dir)
			return o
		})
		mk("cwd /, absolute path", func() *genOut {
			dir := writePkg(base+"d", pc, nil)
			o := runCLI("/", "--report", dir)
			o.files = readGen(dir)
			return o
		})
		mk("again over its own output", func() *genOut {
			o := runCLI(b.Dir, "--report", base+"a")
			o.files = readGen(ref)
			return o
		})
		mk("over the output of a different grammar", func() *genOut {
			other := cases[(i+1)%len(cases)]
			odir := writePkg(base+"o", other, nil)
			runCLI(b.Dir, base+"o")
			stale := readGen(odir)
			for fn, src := range stale {
				stale[fn] = strings.Replace(src, "package "+base+"o", "package "+base+"e", 1)
			}
			dir := writePkg(base+"e", pc, stale)
			o := runCLI(b.Dir, "--report", base+"e")
			o.files = readGen(dir)
			os.RemoveAll(odir)
			return o
		})
		mk("over generated files that carry another package name", func() *genOut {
			// as left behind when the user renames the package, or copies a
			// directory: the stale files are generated files like any other
			other := cases[(i+2)%len(cases)]
			odir := writePkg(base+"p", other, nil)
			runCLI(b.Dir, base+"p")
			stale := readGen(odir)
			dir := writePkg(base+"g", pc, stale)
			o := runCLI(b.Dir, "--report", base+"g")
			o.files = readGen(dir)
			os.RemoveAll(odir)
			return o
		})
		mk("over a syntactically broken base.gen.go", func() *genOut {
			dir := writePkg(base+"h", pc, map[string]string{"base.gen.go": "package " + base + "h\n\nconst broken = (\n"})
			o := runCLI(b.Dir, "--report", base+"h")
			o.files = readGen(dir)
			return o
		})
		mk("over a syntactically broken lexer.gen.go", func() *genOut {
			dir := writePkg(base+"k", pc, map[string]string{"lexer.gen.go": "package " + base + "k\n\nvar broken = [\n"})
			o := runCLI(b.Dir, "--report", base+"k")
			o.files = readGen(dir)
			return o
		})
		mk("over a syntactically broken parser.gen.go", func() *genOut {
			dir := writePkg(base+"f", pc, map[string]string{"parser.gen.go": "package " + base + "f\n\nfunc broken( {\n"})
			o := runCLI(b.Dir, "--report", base+"f")
			o.files = readGen(dir)
			return o
		})
		var first *genOut
		for vi, v := range variants {
			o := v.run()
			// package clause differs by construction (directory-named packages): normalise it
			for fn, src := range o.files {
				if j := strings.Index(src, "\n"); j > 0 && strings.HasPrefix(src, "package ") {
					o.files[fn] = "package X" + src[j:]
				}
			}
			c.Ev.Eval(1)
			c.Ev.Count("cli_runs", 1)
			if vi == 0 {
				first = o
				if o.exit != 0 {
					c.Violation("valid-spec-rejected", pc.replay(fmt.Sprintf("lox exit %d:\n%s", o.exit, o.diag), nil, nil, nil))
					break
				}
				continue
			}
			if diff := firstDiff(first, o); diff != "" {
				c.Violation("output-differs-between-runs", pc.replay(fmt.Sprintf("run %q differs from the first run: %s\nstderr of this run: %s", v.name, diff, o.diag), nil, nil, nil))
			}
		}
		if first != nil && first.exit == 0 {
			mu.Lock()
			nTerm := strings.Count(first.files["base.gen.go"], " int = ")
			nImp := strings.Count(first.files["parser.gen.go"], "\t_i")
			mu.Unlock()
			if nTerm >= 8 || nImp >= 3 {
				c.Ev.Distinct(pc.Lox + pc.Files["harness.go"])
			}
			if i < 3 {
				c.Ev.Sample(map[string]any{"origin": pc.Origin, "terminals": nTerm, "imports_in_parser_gen": nImp, "variants_compared": len(variants), "digest": first.digest()})
			}
		}
		// keep the reference directory for the in-process repetitions below
	})
	c.Logf("CLI matrix done: %d runs", c.Ev.Get("cli_runs"))

	// ---- in-process: full generation repeated in one process ------------------
	reps := c.N(12, 30)
	var names []string
	for i := range cases {
		names = append(names, fmt.Sprintf("s%03da", i))
	}
	args := append([]string{"genworker", "-report", fmt.Sprintf("-repeat=%d", reps)}, names...)
	cmd := exec.Command(c.Env.Self, args...)
	cmd.Dir = b.Dir
	cmd.Env = append(os.Environ(), "GOFLAGS=-mod=mod", "GOPROXY=off", "GOSUMDB=off", "GOTOOLCHAIN=local", "GOCACHE="+c.Env.GoCache)
	var so, se bytes.Buffer
	cmd.Stdout, cmd.Stderr = &so, &se
	if err := cmd.Run(); err != nil {
		c.Logf("genworker repeat failed: %v %s", err, firstLine(se.String()))
		c.Inconclusive("in-process-repetition-unavailable")
	} else {
		digests := map[string]map[string]int{}
		sc := bufio.NewScanner(&so)
		sc.Buffer(make([]byte, 1<<20), 1<<28)
		for sc.Scan() {
			var gr run.GenResult
			if json.Unmarshal(sc.Bytes(), &gr) != nil {
				continue
			}
			if digests[gr.Name] == nil {
				digests[gr.Name] = map[string]int{}
			}
			digests[gr.Name][gr.Report]++
			c.Ev.Eval(1)
			c.Ev.Count("in_process_full_generations", 1)
		}
		for i, n := range names {
			if len(digests[n]) > 1 {
				c.Violation("output-differs-between-repetitions-in-one-process", cases[i].replay(fmt.Sprintf("%d repetitions of the full generation in one process produced %d different outputs (digests %v)", reps, len(digests[n]), digests[n]), nil, nil, nil))
			}
		}
	}

	// ---- in-process: front end + report + lexer, volume ------------------------
	nVol := c.N(100, 1500)
	volReps := c.N(25, 50)
	tmp, _ := os.MkdirTemp(c.Env.Scratch, "c13v-")
	parallel(4, 4, func(w int) {
		rr := c.R.Derive("vol", w)
		dir := filepath.Join(tmp, fmt.Sprintf("w%d", w))
		dd := newDrawer()
		for i := 0; i < nVol/4; i++ {
			pc := c13Draw(dd, rr)
			if pc == nil {
				continue
			}
			os.RemoveAll(dir)
			os.MkdirAll(dir, 0o755)
			for fn, src := range pc.Files {
				os.WriteFile(filepath.Join(dir, fn), []byte(strings.ReplaceAll(src, "package PKGNAME", "package w")), 0o644)
			}
			seen := map[string]int{}
			for k := 0; k < volReps; k++ {
				var diag, rep bytes.Buffer
				ok := false
				c.Guard("ParseLox + report + EmitLexer on g.lox", map[string]string{"g.lox": pc.Lox}, func() { ok = verifhook.GenerateLexerOnly(dir, &diag, &rep) })
				h := sha256.New()
				fmt.Fprintf(h, "%v|", ok)
				h.Write(rep.Bytes())
				for _, fn := range []string{"base.gen.go", "lexer.gen.go"} {
					data, _ := os.ReadFile(filepath.Join(dir, fn))
					h.Write(data)
				}
				seen[fmt.Sprintf("%x", h.Sum(nil))]++
				c.Ev.Eval(1)
			}
			c.Ev.Count("in_process_front_end_repetitions", volReps)
			if len(seen) > 1 {
				c.Violation("report-or-lexer-differs-between-repetitions", pc.replay(fmt.Sprintf("%d repetitions of ParseLox + --report + base + lexer in one process produced %d different outputs", volReps, len(seen)), nil, nil, nil))
			} else {
				c.Ev.Distinct("vol" + pc.Lox)
			}
		}
	})
	c.nontrivMin = 10
	return nil
}
