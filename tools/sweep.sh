#!/bin/sh
# usage: tools/sweep.sh [tier] [seed] [ids...]   — runs the checks one after another and prints one line each
cd "$(dirname "$0")/.." || exit 2
tier="${1:-quick}"; seed="${2:-1}"; shift 2 2>/dev/null
ids="$*"
[ -z "$ids" ] && ids="C01 C02 C03 C04 C05 C06 C07 C08 C09 C10 C11 C12 C13 C14 C15 C16 C17 C18 C19"
for id in $ids; do
  t0=$(date +%s)
  VERIF_SEED=$seed ./check.sh $id $tier > /tmp/sweep.$id.$seed.log 2>&1
  rc=$?
  t1=$(date +%s)
  echo "$id seed=$seed tier=$tier exit=$rc $((t1-t0))s $(grep -c '^VIOLATION' /tmp/sweep.$id.$seed.log) violations | $(tail -1 /tmp/sweep.$id.$seed.log | cut -c1-160)"
done
