package specgen

import (
	"verif/internal/lexspec"
)

// TinyLexer is a fixed small lexer specification (used to warm caches and in
// self tests).
func TinyLexer() *lexspec.Spec {
	return &lexspec.Spec{Entries: []lexspec.Entry{
		{Rule: &lexspec.Rule{Kind: lexspec.RToken, Name: "NUM", Rx: lexspec.Card{X: lexspec.Class{Items: []lexspec.Item{{Lo: '0', Hi: '9'}}}, Op: "+"}}},
		{Rule: &lexspec.Rule{Kind: lexspec.RToken, Name: "PLUS", Rx: lexspec.Lit{S: []rune("+")}}},
		{Rule: &lexspec.Rule{Kind: lexspec.RFrag, Rx: lexspec.Card{X: lexspec.Class{Items: []lexspec.Item{{Lo: ' ', Hi: ' '}, {Lo: '\n', Hi: '\n'}}}, Op: "+"}, Actions: []lexspec.Action{{Kind: lexspec.ADiscard}}}},
	}}
}
