package main

import (
	"bufio"
	"bytes"
	"context"
	"fmt"
	"os"
	"os/exec"
	"path/filepath"
	"regexp"
	"strconv"
	"strings"
	"time"
)

// c12Sep separates the files of a multi-file specification inside one fuzz
// input (same constant as in internal/fuzzfe).
const c12Sep = "\n%%FILE%%\n"

type covStats struct {
	Execs       int
	Interesting int
	Seeds       int
	Ran         bool
	Note        string
}

var (
	fuzzExecRe = regexp.MustCompile(`execs: (\d+) .*new interesting: \d+ \(total: (\d+)\)`)
	fuzzFileRe = regexp.MustCompile(`Failing input written to (\S+)`)
)

// c12CoverageGuided runs the Go fuzzing engine (coverage-guided mutation) on
// the target in internal/fuzzfe for a fixed number of executions, starting
// from the given seeds and an empty cache. It returns the inputs the engine
// reports as failing (at most one per run: the engine stops at the first);
// the caller runs them through the CLI.
func c12CoverageGuided(c *Ctx, seeds [][]byte, execs int) (crashers [][]byte, st covStats) {
	verifDir := os.Getenv("VERIF_DIR")
	if verifDir == "" {
		verifDir, _ = os.Getwd()
	}
	seedDir := filepath.Join(c.Env.Scratch, "fuzzseeds")
	cacheDir := filepath.Join(c.Env.Scratch, "fuzzcache")
	workDir := filepath.Join(c.Env.Scratch, "fuzzwork")
	for _, d := range []string{seedDir, cacheDir, workDir} {
		os.MkdirAll(d, 0o755)
	}
	for i, s := range seeds {
		if len(s) > 3000 {
			continue
		}
		os.WriteFile(filepath.Join(seedDir, fmt.Sprintf("s%05d", i)), s, 0o644)
		st.Seeds++
	}
	tdata := filepath.Join(verifDir, "internal", "fuzzfe", "testdata")
	os.RemoveAll(tdata)
	defer os.RemoveAll(tdata)
	args := []string{"test"}
	if mf := os.Getenv("VERIF_MODFLAG"); mf != "" {
		args = append(args, mf)
	}
	args = append(args, "-tags", "verif", "-run", "^$", "-fuzz", "^FuzzFrontEnd$", "-fuzztime", fmt.Sprintf("%dx", execs), "-parallel", "8",
		"./internal/fuzzfe", "-test.fuzzcachedir="+cacheDir)
	ctx, cancel := context.WithTimeout(context.Background(), 40*time.Minute)
	defer cancel()
	cmd := exec.CommandContext(ctx, "go", args...)
	cmd.Dir = verifDir
	cmd.Env = append(os.Environ(), "GOFLAGS=-mod=mod", "GOPROXY=off", "GOSUMDB=off", "GOTOOLCHAIN=local",
		"VERIF_FUZZ_SEEDS="+seedDir, "VERIF_FUZZ_WORK="+workDir)
	out, err := cmd.CombinedOutput()
	if ctx.Err() != nil {
		st.Note = "wall-clock watchdog"
		return nil, st
	}
	sc := bufio.NewScanner(bytes.NewReader(out))
	sc.Buffer(make([]byte, 1<<20), 1<<26)
	for sc.Scan() {
		if m := fuzzExecRe.FindStringSubmatch(sc.Text()); m != nil {
			st.Execs, _ = strconv.Atoi(m[1])
			st.Interesting, _ = strconv.Atoi(m[2])
		}
	}
	st.Ran = st.Execs > 0
	if err == nil {
		return nil, st
	}
	// a failing input (or a build problem)
	for _, m := range fuzzFileRe.FindAllStringSubmatch(string(out), -1) {
		p := m[1]
		if !filepath.IsAbs(p) {
			p = filepath.Join(verifDir, "internal", "fuzzfe", p)
		}
		if data, ok := readFuzzCorpusFile(p); ok {
			crashers = append(crashers, data)
		}
	}
	if len(crashers) == 0 {
		// a seed that fails during the baseline run is named, not written
		ents, _ := filepath.Glob(filepath.Join(tdata, "fuzz", "FuzzFrontEnd", "*"))
		for _, p := range ents {
			if data, ok := readFuzzCorpusFile(p); ok {
				crashers = append(crashers, data)
			}
		}
	}
	if len(crashers) == 0 {
		st.Note = "go test -fuzz failed without a failing input: " + trimTo(string(out), 1500)
		if m := regexp.MustCompile(`failure while testing seed corpus entry: FuzzFrontEnd/seed#(\d+)`).FindStringSubmatch(string(out)); m != nil {
			// seeds are added in sorted file order; seed#k is the k-th f.Add
			k, _ := strconv.Atoi(m[1])
			names, _ := filepath.Glob(filepath.Join(seedDir, "s*"))
			if k < len(names) {
				if data, err := os.ReadFile(names[k]); err == nil {
					crashers = append(crashers, data)
					st.Note = "failing seed " + filepath.Base(names[k])
				}
			}
		}
	}
	return crashers, st
}

// readFuzzCorpusFile decodes a "go test fuzz v1" corpus file with one []byte value.
func readFuzzCorpusFile(p string) ([]byte, bool) {
	raw, err := os.ReadFile(p)
	if err != nil {
		return nil, false
	}
	lines := strings.SplitN(string(raw), "\n", 3)
	if len(lines) < 2 || !strings.HasPrefix(lines[0], "go test fuzz v1") {
		return nil, false
	}
	v := strings.TrimSpace(lines[1])
	if !strings.HasPrefix(v, "[]byte(") || !strings.HasSuffix(v, ")") {
		return nil, false
	}
	s, err := strconv.Unquote(v[len("[]byte(") : len(v)-1])
	if err != nil {
		return nil, false
	}
	return []byte(s), true
}

// c12SplitFuzzInput turns one fuzz input into the files the target wrote.
func c12SplitFuzzInput(data []byte) map[string]string {
	files := map[string]string{}
	for i, part := range strings.Split(string(data), c12Sep) {
		if i > 3 {
			break
		}
		files[string(rune('a'+i))+".lox"] = part
	}
	return files
}
