package main

import (
	"encoding/json"
	"fmt"
	"strings"
	"time"

	"verif/internal/gram"
	"verif/internal/hc"
	"verif/internal/oracle/cfg"
	"verif/internal/oracle/lalr"
	"verif/internal/rng"
	"verif/internal/run"
)

// PCase is one generated parser specification with everything derived from it.
type PCase struct {
	G      *gram.Grammar
	Opt    gram.HarnessOpt
	C      *gram.CFG   // desugared, @error as terminal 1
	CE     *gram.CFG   // desugared, @error as its own terminal (C09)
	Eng    *cfg.Engine // over C
	EngE   *cfg.Engine // over CE
	Ref    *lalr.Table // reference LALR(1) automaton of C
	Lox    string
	Pos    map[string]gram.Pos
	Pkg    *run.Pkg
	Origin string // which generator produced it
	Split  uint64 // non-zero: the specification is spread over several .lox files (seed of the split)
	Files  map[string]string
	Intern string
	Stub   string
}

func toCfg(c *gram.CFG) cfg.Grammar {
	g := cfg.Grammar{NumT: c.NumT, NumN: c.NumN(), Start: c.Start}
	for _, p := range c.Prods {
		g.Prods = append(g.Prods, cfg.Prod{LHS: p.LHS, RHS: p.RHS})
	}
	return g
}

func toLalr(c *gram.CFG) lalr.Grammar {
	g := lalr.Grammar{NumT: c.NumT, NumN: c.NumN(), Start: c.Start}
	for _, p := range c.Prods {
		g.Prods = append(g.Prods, lalr.Prod{LHS: p.LHS, RHS: p.RHS})
	}
	return g
}

// prepare renders the case's files.
func (pc *PCase) prepare() {
	pc.Lox, pc.Pos = pc.G.Lox()
	h, in, st := pc.G.Harness(pc.Opt)
	pc.Files = map[string]string{"g.lox": pc.Lox, "harness.go": h}
	if pc.Split != 0 {
		delete(pc.Files, "g.lox")
		for fn, src := range splitLox(pc.Lox, pc.Split) {
			pc.Files[fn] = src
		}
	}
	for fn, src := range pc.G.OtherFiles {
		pc.Files[fn] = src
	}
	pc.Intern, pc.Stub = in, st
}

func (pc *PCase) replay(why string, jobs []hc.Job, expected, observed any) *Replay {
	return &Replay{Kind: "batch", Why: why, Files: pc.Files, Internals: pc.Intern, Stub: pc.Stub,
		Jobs: jobs, Expected: expected, Observed: observed, Extra: map[string]any{"origin": pc.Origin}}
}

// refConflictFree asks the reference builder whether the desugared grammar is
// LALR(1) without any precedence resolution. ok=false when the reference ran
// out of its state budget.
func refConflictFree(c *gram.CFG) (tbl *lalr.Table, free bool, ok bool) {
	tbl, err := lalr.Build(toLalr(c), 4000)
	if err != nil {
		return nil, false, false
	}
	return tbl, len(tbl.Conflicts()) == 0, true
}

// drawLALR keeps drawing grammars until one is accepted by `want`.
type grammarSource func(r *rng.R) (*gram.Grammar, string)

// genBatch writes the cases into a new batch, generates (CLI or fast path),
// and builds. Cases whose generation failed keep Pkg.GenOK == false.
func genBatch(c *Ctx, cases []*PCase, fast, report bool) (*run.Batch, error) {
	b, err := c.Env.NewBatch()
	if err != nil {
		return nil, err
	}
	for _, pc := range cases {
		if pc.Files == nil {
			pc.prepare()
		}
		p, err := b.Add(pc.Files, pc.Intern, pc.Stub, pc)
		if err != nil {
			return nil, err
		}
		pc.Pkg = p
	}
	t0 := time.Now()
	if fast {
		if err := b.GenerateFast(report); err != nil {
			return nil, err
		}
		c.Ev.Count("generated_in_process", len(cases))
	} else {
		b.GenerateCLI(report)
		c.Ev.Count("generated_by_cli", len(cases))
	}
	tg := time.Since(t0)
	t0 = time.Now()
	if err := b.Build(false); err != nil {
		return nil, err
	}
	if b.Stubs {
		c.Ev.Count("batches_built_with_internals_stub", 1)
	}
	c.Logf("batch %s: %d specs, generate(%s) %.1fs, build %.1fs", b.Dir[len(b.Dir)-5:], len(cases), map[bool]string{true: "fast", false: "cli"}[fast], tg.Seconds(), time.Since(t0).Seconds())
	return b, nil
}

// crossCheckFast regenerates the cases of a CLI-generated batch through the
// fast path in a second batch and compares the generated files byte for byte.
// A difference switches the fast path off (it is never a violation).
func crossCheckFast(c *Ctx, cases []*PCase) bool {
	b, err := c.Env.NewBatch()
	if err != nil {
		return false
	}
	defer b.Remove()
	var pkgs []*run.Pkg
	for _, pc := range cases {
		p, err := b.Add(pc.Files, pc.Intern, pc.Stub, pc)
		if err != nil {
			return false
		}
		pkgs = append(pkgs, p)
	}
	if err := b.GenerateFast(false); err != nil {
		c.Logf("fast path unavailable: %v", err)
		return false
	}
	same := true
	for i, pc := range cases {
		if pc.Pkg.GenOK != pkgs[i].GenOK {
			same = false
			c.Logf("fast path disagrees with CLI on verdict for %s", pc.Pkg.Name)
			continue
		}
		if !pc.Pkg.GenOK {
			continue
		}
		a, bb := pc.Pkg.ReadGen(), pkgs[i].ReadGen()
		for fn, src := range a {
			if bb[fn] != src {
				same = false
				c.Logf("fast path output differs from CLI output: %s/%s", pc.Pkg.Name, fn)
			}
		}
	}
	c.Ev.Count("fast_path_crosschecked_specs", len(cases))
	return same
}

func decodeRes[T any](r *run.RawResult) (*T, error) {
	if r == nil {
		return nil, fmt.Errorf("no result")
	}
	if r.Error != "" {
		return nil, fmt.Errorf("%s", r.Error)
	}
	var v T
	if err := json.Unmarshal(r.Res, &v); err != nil {
		return nil, err
	}
	return &v, nil
}

func tokString(g *gram.Grammar, w []int) string {
	parts := make([]string, len(w))
	for i, t := range w {
		switch {
		case t == 0:
			parts[i] = "EOF"
		case t == 1:
			parts[i] = "ERROR"
		case t-2 < len(g.Tokens):
			parts[i] = g.Tokens[t-2].Name
		default:
			parts[i] = fmt.Sprint(t)
		}
	}
	return strings.Join(parts, " ")
}

// sentenceLen picks L so that |alphabet|^L stays below cap.
func enumLen(alpha, cap, maxL int) int {
	if alpha <= 1 {
		return maxL
	}
	n, l := 1, 0
	total := 1
	for l < maxL {
		n *= alpha
		if total+n > cap {
			break
		}
		total += n
		l++
	}
	return l
}

// mutate returns a near-miss of w over the alphabet.
func mutate(r *rng.R, w []int, alpha []int) []int {
	out := append([]int(nil), w...)
	switch r.Intn(5) {
	case 0: // delete
		if len(out) > 0 {
			i := r.Intn(len(out))
			out = append(out[:i], out[i+1:]...)
		}
	case 1: // insert
		i := r.Intn(len(out) + 1)
		out = append(out[:i], append([]int{alpha[r.Intn(len(alpha))]}, out[i:]...)...)
	case 2: // replace
		if len(out) > 0 {
			out[r.Intn(len(out))] = alpha[r.Intn(len(alpha))]
		}
	case 3: // swap
		if len(out) > 1 {
			i := r.Intn(len(out) - 1)
			out[i], out[i+1] = out[i+1], out[i]
		}
	default: // truncate
		if len(out) > 0 {
			out = out[:r.Intn(len(out))]
		}
	}
	return out
}

func tail(s string, n int) string {
	if len(s) > n {
		return s[len(s)-n:]
	}
	return s
}

// splitLox spreads a specification as Grammar.Lox renders it (a lexer
// section, then "@parser" and rule blocks separated by blank lines) over two to
// four files: the lexer section in one, the rules dealt out over the others
// (each under its own "@parser"). File names decide the order in which lox
// reads them; the lexer file comes first or last.
func splitLox(lox string, seed uint64) map[string]string {
	r := rng.New(seed)
	i := strings.Index(lox, "\n@parser\n")
	if i < 0 {
		return map[string]string{"g.lox": lox}
	}
	lexer, rest := lox[:i+1], lox[i+len("\n@parser\n"):]
	blocks := strings.Split(strings.TrimRight(rest, "\n"), "\n\n")
	n := 1 + r.Intn(3)
	if n > len(blocks) {
		n = len(blocks)
	}
	parts := make([][]string, n)
	for _, b := range blocks {
		k := r.Intn(n)
		parts[k] = append(parts[k], b)
	}
	files := map[string]string{}
	if r.Chance(1, 2) {
		files["a_tokens.lox"] = lexer
	} else {
		files["z_tokens.lox"] = lexer
	}
	for k, bs := range parts {
		if len(bs) == 0 {
			continue
		}
		files[fmt.Sprintf("g%d_rules.lox", k+1)] = "@parser\n" + strings.Join(bs, "\n\n") + "\n"
	}
	return files
}
