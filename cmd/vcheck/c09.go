package main

import (
	"crypto/sha256"
	"fmt"
	"strconv"
	"strings"
	"sync"
	"time"

	"verif/internal/evidence"
	"verif/internal/gram"
	"verif/internal/hc"
	"verif/internal/oracle/cfg"
	"verif/internal/rng"
	"verif/internal/run"
	"verif/internal/specgen"
)

func init() { register("C09", checkC09) }

// stripLists rewrites @list sugar into + / * and *! into * so that every
// consumed symbol shows up as an argument of some action (exact yields).
func stripLists(g *gram.Grammar) {
	for ri := range g.Rules {
		for pi := range g.Rules[ri].Prods {
			for ti := range g.Rules[ri].Prods[pi].Terms {
				t := &g.Rules[ri].Prods[pi].Terms[ti]
				switch t.Sugar {
				case gram.List:
					t.Sugar = gram.Plus
				case gram.ListOpt, gram.StarF:
					t.Sugar = gram.Star
				}
			}
		}
	}
}

func checkC09(c *Ctx) error {
	c.Ev = evidence.New("C09", c.Tier, c.Seed, "exploration",
		"grammars: reference-LALR(1) grammars (structured / random) with @error productions added at rule starts, middles, ends and inside lists (no @list / *! so that every consumed symbol is an action argument); inputs: every string over T ∪ {ERROR token} up to a length bound, plus sentences, near-misses, truncations and random strings with bursts of garbage and ERROR tokens up to 40 tokens (these with full event recording). Oracles: termination decided on logical state (configuration repeat, runaway reads) or CPU budget; no silent acceptance (Earley on the grammar without error productions); blame = first token at which the input stops being a prefix of a sentence of G_ext (Earley, @error as a terminal no input token matches); when parse() is true the yield of the final tree (tokens and Error leaves) must be a sentence of G_ext, tokens in input order, input tokens missing only where an Error leaf stands. Non-trivial: non-sentences whose first error is not at token 1, and inputs on which an Error was delivered; distinct by grammar-hash+input.")
	c.Ev.Assumptions = []string{
		"actions never call recoverLookahead (the statement does not cover it)",
		"in a third of the generated grammars @error also appears as @error?, @error*, @error+ (lox does not accept it inside @list); an Error delivered inside such a list counts as delivered, the zero Error of an empty @error? does not",
		"reference: Earley recogniser with unproductive-symbol trimming for viable prefixes",
	}
	nBatches := c.N(4, 50)
	nCLI := c.N(1, 6)
	per := 32
	d := newDrawer()
	fastOK := true
	var mu sync.Mutex
	doBatch := func(bi int) {
		r := c.R.Derive("batch", bi)
		var cases []*PCase
		for len(cases) < per {
			pc := drawErrCase(d, r)
			if pc == nil {
				break
			}
			cases = append(cases, pc)
		}
		mu.Lock()
		fast := bi >= nCLI && fastOK
		mu.Unlock()
		b, err := genBatch(c, cases, fast, false)
		if err != nil {
			c.Logf("batch %d: %v", bi, err)
			c.Inconclusive("batch-build-failed")
			return
		}
		defer b.Remove()
		if bi == 0 {
			ok := crossCheckFast(c, cases)
			mu.Lock()
			fastOK = ok
			mu.Unlock()
		}
		c09RunBatch(c, r, b, cases)
	}
	doBatch(0)
	parallel(nBatches-1, 4, func(i int) { doBatch(i + 1) })
	c.Ev.Set("grammars_drawn", d.drawn)
	c.nontrivMin = 500
	return nil
}

// drawErrCase draws a grammar with @error productions that the reference
// builder finds LALR(1) (with @error as an ordinary terminal).
func drawErrCase(d *caseDrawer, r *rng.R) *PCase {
	for try := 0; try < 4000; try++ {
		var g *gram.Grammar
		origin := ""
		kind := r.Intn(6)
		switch kind {
		case 5:
			g = specgen.ErrorSugarRecoveryGrammar(r)
			origin = "error-under-sugar-popped-by-a-recovery"
		case 4:
			g = specgen.ErrorNestedGrammar(r)
			origin = "nested-error-productions"
		case 0:
			o := specgen.DefaultGrammarOpts()
			o.AllowStarF = false
			g = specgen.RandomGrammar(r, o)
			origin = "random"
		case 1:
			g = specgen.ErrorContextsGrammar(r)
			origin = "error-rule-in-several-contexts"
		default:
			g = specgen.StructuredGrammar(r)
			origin = "structured"
		}
		stripLists(g)
		if kind != 1 && kind != 4 && kind != 5 {
			if r.Chance(1, 3) {
				specgen.AddErrorsUnderSugar(r, g)
				origin += "+error-under-sugar"
			} else {
				specgen.AddErrors(r, g)
				origin += "+error"
			}
		}
		d.mu.Lock()
		d.drawn++
		d.mu.Unlock()
		pc := &PCase{G: g, Origin: origin}
		pc.C = g.Desugar(false)
		tbl, free, ok := refConflictFree(pc.C)
		if !ok || !free {
			d.mu.Lock()
			d.refRej++
			d.mu.Unlock()
			continue
		}
		pc.Ref = tbl
		pc.Eng = cfg.New(toCfg(pc.C.WithoutErr()))
		if pc.Eng.LanguageEmpty() {
			continue
		}
		pc.CE = g.Desugar(true)
		pc.EngE = cfg.New(toCfg(pc.CE))
		pc.Opt = gram.HarnessOpt{Bounds: r.Chance(1, 5)}
		if r.Chance(1, 4) {
			pc.Split = 1 + uint64(r.Intn(1<<30))
		}
		pc.prepare()
		key := sha256.Sum256([]byte(pc.Lox))
		d.mu.Lock()
		dup := d.seen[key]
		d.seen[key] = true
		d.mu.Unlock()
		if dup {
			continue
		}
		return pc
	}
	return nil
}

// garbage builds a hostile input: a sentence with bursts of random tokens and
// ERROR tokens spliced in, or a truncation.
func garbage(r *rng.R, pc *PCase, alpha []int) []int {
	w := pc.Eng.RandomSentence(r.Intn, 2+r.Intn(30))
	if w == nil {
		w = []int{}
	}
	w = append([]int(nil), w...)
	switch r.Intn(7) {
	case 6:
		// three to five independent errors
		for k := r.Range(3, 5); k > 0; k-- {
			w = mutate(r, w, alpha)
		}
	case 0:
		if len(w) > 0 {
			w = w[:r.Intn(len(w))]
		}
	case 1, 2:
		// burst
		n := 1 + r.Intn(4)
		at := r.Intn(len(w) + 1)
		var burst []int
		for k := 0; k < n; k++ {
			if r.Chance(1, 3) {
				burst = append(burst, 1)
			} else {
				burst = append(burst, alpha[r.Intn(len(alpha))])
			}
		}
		w = append(w[:at], append(burst, w[at:]...)...)
	case 3:
		for k := 0; k < 2; k++ {
			w = mutate(r, w, alpha)
		}
	case 4:
		// fully random
		n := r.Intn(12)
		w = w[:0]
		for k := 0; k < n; k++ {
			w = append(w, alpha[r.Intn(len(alpha))])
		}
	default:
		w = mutate(r, w, append(append([]int(nil), alpha...), 1))
	}
	return w
}

func c09RunBatch(c *Ctx, r *rng.R, b *run.Batch, cases []*PCase) {
	type plan struct {
		pc    *PCase
		alpha []int // with ERROR token
		L     int
		rec   [][]int
		recID []int
	}
	plans := map[int]*plan{}
	var jobs []hc.Job
	nextID := 1000000
	for i, pc := range cases {
		if !pc.Pkg.GenOK {
			c.Ev.Count("grammars_lox_rejected", 1)
			continue
		}
		if pc.Pkg.BuildErr != "" {
			c.Violation("generated-code-does-not-compile", pc.replay("generated package does not compile:\n"+pc.Pkg.BuildErr, nil, nil, nil))
			continue
		}
		c.Ev.Count("grammars_accepted", 1)
		alpha := append([]int{1}, pc.G.Alphabet()...)
		pl := &plan{pc: pc, alpha: alpha, L: enumLen(len(alpha), c.N(1500, 6000), 7)}
		rr := r.Derive("inputs", i)
		nGarbage := c.N(40, 150)
		if strings.HasPrefix(pc.Origin, "nested-error") || strings.HasPrefix(pc.Origin, "error-rule-in") {
			// these families are small and built for inputs with several
			// errors: many more of those
			nGarbage *= 8
		}
		for k := 0; k < nGarbage; k++ {
			w := garbage(rr, pc, pc.G.Alphabet())
			pl.rec = append(pl.rec, w)
			toks := make([][2]int, len(w))
			for j, t := range w {
				toks[j] = [2]int{t, 0}
			}
			nextID++
			pl.recID = append(pl.recID, nextID)
			jobs = append(jobs, run.MkJob(nextID, pc.Pkg.Name, "parse", hc.ParseJob{Toks: toks, Rec: true}))
		}
		plans[i] = pl
		jobs = append(jobs, run.MkJob(i, pc.Pkg.Name, "enum", hc.EnumJob{Alpha: alpha, MaxLen: pl.L}))
	}
	if len(jobs) == 0 {
		return
	}
	results, suspects, err := b.RunAll(jobs, 3*time.Minute, 20)
	if err != nil {
		c.Inconclusive("batch-run-failed")
		c.Logf("run: %v", err)
	}
	for _, sp := range suspects {
		if sp.CPUKill {
			c.Ev.Count("cpu_kill_suspects", 1)
		}
		c.Inconclusive("job-crashed-or-hung-outside-watchdog")
	}
	for i, pl := range plans {
		pc := pl.pc
		key := fmt.Sprintf("%x", sha256.Sum256([]byte(pc.Lox)))[:16]
		nv := 0
		violate := func(kind, why string, w []int, expected, observed any) {
			nv++
			if nv > 2 {
				c.mu.Lock()
				c.nviol++
				c.violKinds[kind]++
				c.mu.Unlock()
				return
			}
			toks := make([][2]int, len(w))
			for j, t := range w {
				toks[j] = [2]int{t, 0}
			}
			c.Violation(kind, pc.replay(fmt.Sprintf("%s: input [%s]: %s", kind, tokString(pc.G, w), why),
				[]hc.Job{run.MkJob(1, "", "parse", hc.ParseJob{Toks: toks, Rec: true})}, expected, observed))
		}
		// judge one (input, verdict) pair: termination, silent acceptance, blame
		judge := func(w []int, v string) {
			c.Ev.Eval(1)
			letter, errSeq := v[:1], 0
			var errSeqs, pending []int
			if i := strings.IndexByte(v, '|'); i >= 0 {
				for _, f := range strings.Split(v[i+1:], ",") {
					q, _ := strconv.Atoi(f)
					pending = append(pending, q)
				}
				v = v[:i]
			}
			if len(v) > 1 {
				for _, f := range strings.Split(v[1:], ",") {
					q, _ := strconv.Atoi(f)
					errSeqs = append(errSeqs, q)
				}
				errSeq = errSeqs[0]
			}
			switch letter {
			case "P":
				violate("parse-panics", "parse() panicked", w, nil, v)
				return
			case "L":
				violate("parse-does-not-terminate", "the in-package monitor proved non-termination (same parser configuration at the same action twice without reading a token, or runaway reads)", w, nil, v)
				return
			}
			sentence := pc.Eng.Accepts(w)
			if sentence {
				if letter != "A" {
					violate("sentence-not-accepted-cleanly", "a sentence must be accepted without running an @error action", w, "A", v)
				}
				return
			}
			blame := pc.EngE.FirstError(w) // index; len(w) = EOF
			if blame >= 1 || letter == "E" || letter == "F" {
				c.Ev.Distinct(key + tokString(pc.G, w))
			}
			switch letter {
			case "A":
				violate("non-sentence-accepted-silently", "parse() returned true and no Error was delivered", w, "false or an Error", v)
			case "E", "F":
				c.Ev.Count("errors_delivered", 1)
				if errSeq != blame+1 {
					// Known finding (see KNOWN_FINDINGS.txt): with nested error
					// productions the inner production is reduced first, so the
					// Error of a later error reaches its action before the Error
					// that blames the right token. Matcher: when the first Error
					// was delivered, an Error symbol carrying the blamed token was
					// on the parser stack (created and shifted, waiting for its
					// own, outer, production).
					later := false
					for _, q := range pending {
						if q == blame+1 {
							later = true
						}
					}
					if later && c.KnownFinding("inner-error-production-delivered-first") {
						return
					}
					kind := "wrong-token-blamed"
					hasErrTok := false
					for _, t := range w {
						if t == 1 {
							hasErrTok = true
						}
					}
					if hasErrTok {
						kind = "wrong-token-blamed(input-has-ERROR-tokens)"
					}
					violate(kind, fmt.Sprintf("first Error delivered carries token #%d, but the input stops being a prefix of any sentence at token #%d", errSeq, blame+1), w, blame+1, errSeq)
				}
			}
		}
		// exhaustive part
		res, err := decodeRes[hc.EnumRes](results[i])
		if hung := hangInput(err); hung != nil {
			violate("parse-does-not-terminate", "parse() exhausted a 5 s CPU budget without making a step the monitors could observe (normal cost: microseconds)", hung, "termination", "no return")
		} else if err != nil {
			c.Inconclusive("job-no-result")
		} else {
			idx := 0
			var cur []int
			var walk func()
			okLen := true
			walk = func() {
				if idx >= len(res.V) {
					okLen = false
					return
				}
				judge(cur, res.V[idx])
				idx++
				if len(cur) == pl.L {
					return
				}
				for _, a := range pl.alpha {
					cur = append(cur, a)
					walk()
					cur = cur[:len(cur)-1]
				}
			}
			walk()
			if !okLen || idx != len(res.V) {
				c.Inconclusive("enum-result-length-mismatch")
			}
			c.Ev.Count("exhaustive_strings", idx)
		}
		// recorded part
		for k, w := range pl.rec {
			pr, err := decodeRes[hc.ParseRes](results[pl.recID[k]])
			if hung := hangInput(err); hung != nil {
				violate("parse-does-not-terminate", "parse() exhausted a 5 s CPU budget without making a step the monitors could observe", w, "termination", "no return")
				continue
			}
			if err != nil {
				c.Inconclusive("job-no-result")
				continue
			}
			v := "R"
			switch {
			case pr.Panic != "":
				v = "P"
			case pr.Stop != "":
				v = "L"
			case pr.OK && pr.NErr == 0:
				v = "A"
			case pr.OK:
				v = "E" + joinInts(pr.ErrSeqs)
			case pr.NErr > 0:
				v = "F" + joinInts(pr.ErrSeqs)
			}
			if len(pr.Pending) > 0 && (v[0] == 'E' || v[0] == 'F') {
				v += "|" + joinInts(pr.Pending)
			}
			judge(w, v)
			c.Ev.Count("recorded_runs", 1)
			if pr.Reads > len(w)+1 {
				c.Ev.Count("runs_reading_past_eof", 1)
			}
			if pr.OK && pr.Panic == "" && pr.Stop == "" {
				if why := checkConsumed(pc, w, pr); why != "" {
					violate("consumed-symbols-not-a-sentence", why, w, nil, showEvents(pr.Events))
				} else if pr.NErr > 0 {
					c.Ev.Count("recovered_parses_with_consistent_yield", 1)
				}
			}
			if c.Ev.WantSample() && len(w) >= 3 {
				c.Ev.Sample(map[string]any{"lox": pc.Lox, "input": tokString(pc.G, w), "verdict": v, "reads": pr.Reads, "errors_delivered": pr.NErr})
			}
		}
	}
}

func joinInts(xs []int) string {
	parts := make([]string, len(xs))
	for i, x := range xs {
		parts[i] = strconv.Itoa(x)
	}
	return strings.Join(parts, ",")
}

func showEvents(evs []hc.Event) []string {
	var out []string
	for _, e := range evs {
		if e.K == "a" {
			s := fmt.Sprintf("m%d(", e.M)
			for i, a := range e.Args {
				if i > 0 {
					s += ", "
				}
				s += fmt.Sprintf("%s%d", a.K, a.V)
				if a.K == "l" {
					s += fmt.Sprint(a.L)
				}
			}
			out = append(out, s+fmt.Sprintf(")->n%d", e.Ret))
		}
	}
	return out
}

// checkConsumed rebuilds the final tree of a successful parse from the action
// log and checks that its yield is a sentence of G_ext, that tokens appear in
// input order and that input tokens are missing only where an Error leaf
// stands.
func checkConsumed(pc *PCase, w []int, pr *hc.ParseRes) string {
	nodes := map[int]hc.Event{}
	last := -1
	for _, e := range pr.Events {
		if e.K == "a" {
			nodes[e.Ret] = e
			last = e.Ret
		}
	}
	if last < 0 {
		return "parse() returned true but no action ran"
	}
	meths := pc.G.Methods(pc.Opt)
	ruleOf := map[int]int{}
	for _, m := range meths {
		ruleOf[m.ID] = m.Rule
	}
	if ruleOf[nodes[last].M] != pc.G.Start {
		return fmt.Sprintf("the last action (m%d) is not an action of the @start rule", nodes[last].M)
	}
	type leaf struct {
		sym int
		seq int
		err bool
	}
	var leaves []leaf
	var walk func(a hc.Arg) string
	visited := map[int]bool{}
	walk = func(a hc.Arg) string {
		switch a.K {
		case "t":
			leaves = append(leaves, leaf{sym: a.T, seq: a.V})
		case "e":
			leaves = append(leaves, leaf{sym: pc.CE.ErrSym, seq: a.V, err: true})
		case "n":
			if visited[a.V] {
				return fmt.Sprintf("node #%d is used twice in the final tree", a.V)
			}
			visited[a.V] = true
			n, ok := nodes[a.V]
			if !ok {
				return fmt.Sprintf("node #%d was never created by an action", a.V)
			}
			for _, x := range n.Args {
				if s := walk(x); s != "" {
					return s
				}
			}
		case "l":
			for _, x := range a.L {
				if s := walk(x); s != "" {
					return s
				}
			}
		}
		return ""
	}
	if s := walk(hc.Arg{K: "n", V: last}); s != "" {
		return s
	}
	syms := make([]int, len(leaves))
	for i, l := range leaves {
		syms[i] = l.sym
	}
	if !pc.EngE.Accepts(syms) {
		names := make([]string, len(syms))
		for i, s := range syms {
			names[i] = pc.CE.SymName(s)
		}
		return fmt.Sprintf("the symbols consumed %v do not form a sentence of the grammar (with @error as a terminal)", names)
	}
	lastSeq, errSince := 0, false
	for _, l := range leaves {
		if l.err {
			errSince = true
			continue
		}
		if l.seq <= lastSeq {
			return fmt.Sprintf("token #%d appears after token #%d in the tree: not input order", l.seq, lastSeq)
		}
		if l.seq != lastSeq+1 && !errSince {
			return fmt.Sprintf("input tokens #%d..#%d are missing from the tree and no Error leaf stands in their place", lastSeq+1, l.seq-1)
		}
		lastSeq = l.seq
		errSince = false
	}
	if lastSeq != len(w) && !errSince {
		return fmt.Sprintf("input tokens #%d..#%d are missing from the end of the tree and no Error leaf stands in their place", lastSeq+1, len(w))
	}
	return ""
}
