// Package run builds the real lox from /repo's working tree, assembles scratch
// Go modules that hold generated packages plus harness code, builds them and
// drives the resulting child processes.
package run

import (
	"bufio"
	"bytes"
	"context"
	"encoding/json"
	"errors"
	"fmt"
	"os"
	"os/exec"
	"path/filepath"
	"regexp"
	"sort"
	"strings"
	"sync"
	"syscall"
	"time"

	"verif/internal/hc"
)

// RepoDir is the tree under test: /repo, unless VERIF_REPO names another
// checkout (used only to try seeded changes without touching /repo; check.sh
// then also links the driver against that checkout).
var RepoDir = func() string {
	if d := os.Getenv("VERIF_REPO"); d != "" {
		return d
	}
	return "/repo"
}()

// VerifDir is where the framework lives (used to find the warm build cache).
func VerifDir() string {
	if d := os.Getenv("VERIF_DIR"); d != "" {
		return d
	}
	return "/verif"
}

type Env struct {
	Scratch string
	Lox     string
	Self    string // path of the running vcheck binary (gen workers)
	GoCache string
	Workers int
	nbatch  int
	mu      sync.Mutex
}

func goEnv(gocache string) []string {
	env := os.Environ()
	env = append(env,
		"GOFLAGS=-mod=mod", "GOPROXY=off", "GOSUMDB=off", "GOTOOLCHAIN=local",
		"GONOSUMDB=*", "GONOSUMCHECK=1", "GOFLAGS=-mod=mod")
	if gocache != "" {
		env = append(env, "GOCACHE="+gocache)
	}
	return env
}

// NewEnv creates the scratch area and builds lox (tag verif) from /repo.
func NewEnv() (*Env, error) {
	base := os.Getenv("VERIF_SCRATCH")
	if base == "" {
		base = os.TempDir()
	}
	scratch, err := os.MkdirTemp(base, "vcheck-")
	if err != nil {
		return nil, err
	}
	e := &Env{Scratch: scratch, Workers: 8}
	if self, err := os.Executable(); err == nil {
		e.Self = self
	}
	if err := os.MkdirAll(filepath.Join(scratch, "bin"), 0o755); err != nil {
		return nil, err
	}
	e.Lox = filepath.Join(scratch, "bin", "lox")
	cmd := exec.Command("go", "build", "-tags", "verif", "-o", e.Lox, "./cmd/lox")
	cmd.Dir = RepoDir
	cmd.Env = goEnv("")
	if out, err := cmd.CombinedOutput(); err != nil {
		e.Close()
		return nil, fmt.Errorf("building lox from %s failed: %v\n%s", RepoDir, err, out)
	}
	// Scratch build cache for the throw-away packages, seeded from the warm
	// cache that setup built (if present).
	if out := os.Getenv("VERIF_WARM_OUT"); out != "" {
		// setup: fill the warm cache itself
		e.GoCache = out
		return e, nil
	}
	e.GoCache = filepath.Join(scratch, "gocache")
	warm := filepath.Join(VerifDir(), ".cache", "warm-gocache")
	if st, err := os.Stat(warm); err == nil && st.IsDir() {
		if out, err := exec.Command("cp", "-a", warm, e.GoCache).CombinedOutput(); err != nil {
			os.RemoveAll(e.GoCache)
			_ = out
		}
	}
	os.MkdirAll(e.GoCache, 0o755)
	return e, nil
}

func (e *Env) Close() {
	if e.Scratch != "" {
		os.RemoveAll(e.Scratch)
	}
}

// ---------------------------------------------------------------------------

type Pkg struct {
	GoName    string // Go package name (normally = Name)
	Name      string
	Dir       string
	GenOK     bool
	Exit      int
	Diag      string
	Report    string
	GenTime   time.Duration
	BuildErr  string
	Internals string // real internals.go, written after generation
	Stub      string // stub internals.go, present during generation
	Tag       any
	TimedOut  bool
}

type Batch struct {
	Env   *Env
	Dir   string
	Pkgs  []*Pkg
	Bin   string
	Race  bool
	Stubs bool // true when the build fell back to internals stubs
}

const goMod = `module batch

go 1.23.0

require github.com/dcaiafa/loxlex v0.5.0
`

func (e *Env) NewBatch() (*Batch, error) {
	e.mu.Lock()
	e.nbatch++
	n := e.nbatch
	e.mu.Unlock()
	dir := filepath.Join(e.Scratch, fmt.Sprintf("b%04d", n))
	if err := os.MkdirAll(filepath.Join(dir, "hc"), 0o755); err != nil {
		return nil, err
	}
	if err := os.WriteFile(filepath.Join(dir, "go.mod"), []byte(goMod), 0o644); err != nil {
		return nil, err
	}
	sum, err := os.ReadFile(filepath.Join(RepoDir, "go.sum"))
	if err != nil {
		return nil, err
	}
	if err := os.WriteFile(filepath.Join(dir, "go.sum"), sum, 0o644); err != nil {
		return nil, err
	}
	for name, src := range hc.Sources() {
		if err := os.WriteFile(filepath.Join(dir, "hc", name), []byte(src), 0o644); err != nil {
			return nil, err
		}
	}
	return &Batch{Env: e, Dir: dir}, nil
}

func (b *Batch) Remove() { os.RemoveAll(b.Dir) }

// Add creates package directory gNNN with the given files.
func (b *Batch) Add(files map[string]string, internals, stub string, tag any) (*Pkg, error) {
	name := fmt.Sprintf("g%03d", len(b.Pkgs))
	p := &Pkg{Name: name, Dir: filepath.Join(b.Dir, name), Internals: internals, Stub: stub, Tag: tag}
	if err := os.MkdirAll(p.Dir, 0o755); err != nil {
		return nil, err
	}
	// The Go package is named after its directory unless the pseudo file
	// "__pkgname__" asks for another name (the import path stays batch/gNNN).
	p.GoName = name
	if n, ok := files["__pkgname__"]; ok {
		p.GoName = n
	}
	for fn, src := range files {
		if fn == "__pkgname__" {
			continue
		}
		src = strings.ReplaceAll(src, "package PKGNAME", "package "+p.GoName)
		if err := os.WriteFile(filepath.Join(p.Dir, fn), []byte(src), 0o644); err != nil {
			return nil, err
		}
	}
	if stub != "" {
		s := strings.ReplaceAll(stub, "package PKGNAME", "package "+p.GoName)
		if err := os.WriteFile(filepath.Join(p.Dir, "internals.go"), []byte(s), 0o644); err != nil {
			return nil, err
		}
	}
	b.Pkgs = append(b.Pkgs, p)
	return p, nil
}

// RunLox runs the real CLI on one directory (relative to cwd) and returns
// exit status, stdout and stderr.
func (e *Env) RunLox(cwd string, timeout time.Duration, args ...string) (exit int, stdout, stderr string, timedOut bool) {
	ctx, cancel := context.WithTimeout(context.Background(), timeout)
	defer cancel()
	cmd := exec.CommandContext(ctx, e.Lox, args...)
	cmd.Dir = cwd
	// GOMAXPROCS=2: measured on this VM, lox (and the `go list` it spawns)
	// costs half the wall time and a fifth of the CPU time of the default.
	cmd.Env = append(goEnv(e.GoCache), "GOMAXPROCS=2")
	var so, se bytes.Buffer
	cmd.Stdout, cmd.Stderr = &so, &se
	err := cmd.Run()
	exit = 0
	if err != nil {
		var ee *exec.ExitError
		if errors.As(err, &ee) {
			exit = ee.ExitCode()
			if ws, ok := ee.Sys().(syscall.WaitStatus); ok && ws.Signaled() {
				exit = 128 + int(ws.Signal())
			}
		} else {
			exit = -1
			se.WriteString(err.Error())
		}
	}
	if ctx.Err() != nil {
		timedOut = true
	}
	return exit, so.String(), se.String(), timedOut
}

// GenerateCLI runs the real lox binary on every package (Env.Workers at a time).
func (b *Batch) GenerateCLI(report bool) {
	var wg sync.WaitGroup
	sem := make(chan struct{}, b.Env.Workers)
	for _, p := range b.Pkgs {
		wg.Add(1)
		sem <- struct{}{}
		go func(p *Pkg) {
			defer wg.Done()
			defer func() { <-sem }()
			t0 := time.Now()
			args := []string{p.Name}
			if report {
				args = []string{"--report", p.Name}
			}
			exit, so, se, to := b.Env.RunLox(b.Dir, 3*time.Minute, args...)
			p.Exit, p.Report, p.Diag, p.TimedOut = exit, so, se, to
			p.GenOK = exit == 0
			p.GenTime = time.Since(t0)
		}(p)
	}
	wg.Wait()
}

// GenResult is what a gen worker reports per package.
type GenResult struct {
	Name   string `json:"name"`
	OK     bool   `json:"ok"`
	Diag   string `json:"diag"`
	Report string `json:"report"`
	Panic  string `json:"panic,omitempty"`
}

// GenerateFast runs `vcheck genworker` (in-process generation through the
// verif hook) over the batch.
func (b *Batch) GenerateFast(report bool) error {
	args := []string{"genworker"}
	if report {
		args = append(args, "-report")
	}
	for _, p := range b.Pkgs {
		args = append(args, p.Name)
	}
	ctx, cancel := context.WithTimeout(context.Background(), 10*time.Minute)
	defer cancel()
	cmd := exec.CommandContext(ctx, b.Env.Self, args...)
	cmd.Dir = b.Dir
	cmd.Env = goEnv(b.Env.GoCache)
	var so, se bytes.Buffer
	cmd.Stdout, cmd.Stderr = &so, &se
	err := cmd.Run()
	byName := map[string]*Pkg{}
	for _, p := range b.Pkgs {
		byName[p.Name] = p
	}
	sc := bufio.NewScanner(&so)
	sc.Buffer(make([]byte, 1<<20), 1<<28)
	seen := 0
	for sc.Scan() {
		var r GenResult
		if json.Unmarshal(sc.Bytes(), &r) != nil {
			continue
		}
		p := byName[r.Name]
		if p == nil {
			continue
		}
		seen++
		p.GenOK, p.Diag, p.Report = r.OK, r.Diag, r.Report
		if r.Panic != "" {
			p.Diag += "\npanic: " + r.Panic
			p.Exit = 2
		} else if !r.OK {
			p.Exit = 1
		}
	}
	if err != nil || seen != len(b.Pkgs) {
		return fmt.Errorf("genworker: %v (%d/%d results)\n%s", err, seen, len(b.Pkgs), se.String())
	}
	return nil
}

var pkgErrRe = regexp.MustCompile(`(?m)^(?:\./)?(g\d{3})/`)

// Build writes the real internals, the main program and links the batch.
// Packages whose generation failed are left out. If the build fails because
// of internals.go the stubs are used instead; if a package still fails to
// compile it is marked (BuildErr) and left out.
func (b *Batch) Build(race bool) error {
	b.Race = race
	writeInternals := func(real bool) {
		for _, p := range b.Pkgs {
			if !p.GenOK || p.Stub == "" {
				continue
			}
			src := p.Stub
			if real && p.Internals != "" {
				src = p.Internals
			}
			src = strings.ReplaceAll(src, "package PKGNAME", "package "+p.GoName)
			os.WriteFile(filepath.Join(p.Dir, "internals.go"), []byte(src), 0o644)
		}
	}
	writeInternals(true)
	os.MkdirAll(filepath.Join(b.Dir, "cmd", "run"), 0o755)
	b.Bin = filepath.Join(b.Dir, "runbin")
	for attempt := 0; attempt < 6; attempt++ {
		var sb strings.Builder
		sb.WriteString("package main\n\nimport (\n\t\"batch/hc\"\n")
		n := 0
		for _, p := range b.Pkgs {
			if p.GenOK && p.BuildErr == "" {
				fmt.Fprintf(&sb, "\t%s %q\n", p.Name, "batch/"+p.Name)
				n++
			}
		}
		sb.WriteString(")\n\nfunc main() {\n\thc.Main(map[string]*hc.Entry{\n")
		for _, p := range b.Pkgs {
			if p.GenOK && p.BuildErr == "" {
				fmt.Fprintf(&sb, "\t\t%q: %s.Entry,\n", p.Name, p.Name)
			}
		}
		sb.WriteString("\t})\n}\n")
		if err := os.WriteFile(filepath.Join(b.Dir, "cmd", "run", "main.go"), []byte(sb.String()), 0o644); err != nil {
			return err
		}
		args := []string{"build", "-o", b.Bin}
		if race {
			args = append(args, "-race")
		}
		args = append(args, "./cmd/run")
		cmd := exec.Command("go", args...)
		cmd.Dir = b.Dir
		cmd.Env = goEnv(b.Env.GoCache)
		out, err := cmd.CombinedOutput()
		if err == nil {
			return nil
		}
		text := string(out)
		// Which packages are named by the compiler errors?
		bad := map[string]bool{}
		onlyInternals := true
		for _, line := range strings.Split(text, "\n") {
			m := pkgErrRe.FindStringSubmatch(line)
			if m == nil {
				continue
			}
			bad[m[1]] = true
			if !strings.Contains(line, "/internals.go:") {
				onlyInternals = false
			}
		}
		if len(bad) == 0 {
			return fmt.Errorf("batch build failed: %v\n%s", err, text)
		}
		if onlyInternals && !b.Stubs {
			b.Stubs = true
			writeInternals(false)
			continue
		}
		for _, p := range b.Pkgs {
			if bad[p.Name] {
				var mine []string
				for _, line := range strings.Split(text, "\n") {
					if strings.Contains(line, p.Name+"/") {
						mine = append(mine, line)
					}
				}
				p.BuildErr = strings.Join(mine, "\n")
			}
		}
	}
	return fmt.Errorf("batch build failed repeatedly")
}

// RawResult is one job result as received.
type RawResult struct {
	ID    int             `json:"id"`
	Error string          `json:"error,omitempty"`
	Res   json.RawMessage `json:"res,omitempty"`
}

type RunOutcome struct {
	Results   map[int]*RawResult
	Started   []int // ids whose start line was seen
	Unfinished []int // started, no result (crash / kill)
	TimedOut  bool
	ExitErr   string
	Stderr    string
}

// Run feeds jobs to the batch binary. GORACE etc. can be passed through env.
func (b *Batch) Run(jobs []hc.Job, timeout time.Duration, extraEnv ...string) (*RunOutcome, error) {
	ctx, cancel := context.WithTimeout(context.Background(), timeout)
	defer cancel()
	cmd := exec.CommandContext(ctx, b.Bin)
	cmd.Dir = b.Dir
	cmd.Env = append(os.Environ(), extraEnv...)
	var in bytes.Buffer
	enc := json.NewEncoder(&in)
	for i := range jobs {
		if err := enc.Encode(&jobs[i]); err != nil {
			return nil, err
		}
	}
	cmd.Stdin = &in
	outFile := filepath.Join(b.Dir, fmt.Sprintf("out-%d.jsonl", time.Now().UnixNano()))
	of, err := os.Create(outFile)
	if err != nil {
		return nil, err
	}
	defer os.Remove(outFile)
	var se bytes.Buffer
	cmd.Stdout, cmd.Stderr = of, &se
	runErr := cmd.Run()
	of.Close()
	oc := &RunOutcome{Results: map[int]*RawResult{}}
	if ctx.Err() != nil {
		oc.TimedOut = true
	}
	if runErr != nil {
		oc.ExitErr = runErr.Error()
	}
	oc.Stderr = se.String()
	if len(oc.Stderr) > 20000 {
		oc.Stderr = oc.Stderr[:20000]
	}
	f, err := os.Open(outFile)
	if err != nil {
		return nil, err
	}
	defer f.Close()
	sc := bufio.NewScanner(f)
	sc.Buffer(make([]byte, 1<<20), 1<<30)
	started := map[int]bool{}
	for sc.Scan() {
		line := sc.Bytes()
		if bytes.HasPrefix(line, []byte(`{"start":`)) {
			var s struct{ Start int }
			if json.Unmarshal(line, &s) == nil {
				started[s.Start] = true
				oc.Started = append(oc.Started, s.Start)
			}
			continue
		}
		var r RawResult
		if err := json.Unmarshal(line, &r); err != nil {
			continue
		}
		rc := r
		oc.Results[r.ID] = &rc
	}
	for id := range started {
		if oc.Results[id] == nil {
			oc.Unfinished = append(oc.Unfinished, id)
		}
	}
	sort.Ints(oc.Unfinished)
	return oc, nil
}

// MkJob builds a job with a JSON payload.
func MkJob(id int, pkg, kind string, payload any) hc.Job {
	j := hc.Job{ID: id, Pkg: pkg, Kind: kind}
	if payload != nil {
		raw, err := json.Marshal(payload)
		if err != nil {
			panic(err)
		}
		j.Raw = raw
	}
	return j
}

// ReadGen returns the three generated files of a package (empty if missing).
func (p *Pkg) ReadGen() map[string]string {
	out := map[string]string{}
	for _, fn := range []string{"base.gen.go", "lexer.gen.go", "parser.gen.go"} {
		data, err := os.ReadFile(filepath.Join(p.Dir, fn))
		if err == nil {
			out[fn] = string(data)
		}
	}
	return out
}

// Suspect describes a job that did not finish.
type Suspect struct {
	Job      hc.Job
	TimedOut bool   // the watchdog fired while it was running
	CPUKill  bool   // re-run alone, it exhausted its CPU-time budget (SIGXCPU/SIGKILL from RLIMIT_CPU)
	LastInput string // last input announced by the child when re-run alone with HC_TRACE=1
	Crash    string // process died while running it (stderr tail)
}

// RunAll runs all jobs, restarting the child after a crash or a watchdog
// timeout without the job that was running at that moment. Every such job is
// re-run alone under a CPU-time limit (cpuSec) to tell a real non-termination
// (CPU budget exhausted: decided on CPU time, not on wall-clock time) from a
// slow machine.
func (b *Batch) RunAll(jobs []hc.Job, timeout time.Duration, cpuSec int, extraEnv ...string) (map[int]*RawResult, []Suspect, error) {
	results := map[int]*RawResult{}
	var suspects []Suspect
	pending := jobs
	for round := 0; round < 50 && len(pending) > 0; round++ {
		oc, err := b.Run(pending, timeout, extraEnv...)
		if err != nil {
			return results, suspects, err
		}
		for id, r := range oc.Results {
			results[id] = r
		}
		if len(oc.Unfinished) == 0 && !oc.TimedOut && oc.ExitErr == "" {
			break
		}
		bad := map[int]bool{}
		for _, id := range oc.Unfinished {
			bad[id] = true
		}
		var next []hc.Job
		for _, j := range pending {
			if results[j.ID] != nil {
				continue
			}
			if bad[j.ID] {
				s := Suspect{Job: j, TimedOut: oc.TimedOut}
				if !oc.TimedOut {
					s.Crash = tail(oc.Stderr, 3000)
				}
				// confirm alone under a CPU budget
				one, _ := b.runCPULimited([]hc.Job{j}, cpuSec, extraEnv...)
				if one != nil {
					if r := one.Results[j.ID]; r != nil {
						// it finished this time: not a hang
						results[j.ID] = r
						continue
					}
					s.CPUKill = one.cpuKilled
					if i := strings.LastIndex(one.Stderr, "TRACE "); i >= 0 {
						s.LastInput = firstLineOf(one.Stderr[i+6:])
					}
					if s.Crash == "" && !one.cpuKilled {
						s.Crash = tail(one.Stderr, 3000)
					}
				}
				suspects = append(suspects, s)
				continue
			}
			next = append(next, j)
		}
		if len(next) == len(pending) {
			// no progress and nobody to blame
			return results, suspects, fmt.Errorf("child failed without a running job: %s %s", oc.ExitErr, tail(oc.Stderr, 2000))
		}
		pending = next
	}
	return results, suspects, nil
}

func tail(s string, n int) string {
	if len(s) > n {
		return s[len(s)-n:]
	}
	return s
}

type cpuOutcome struct {
	*RunOutcome
	cpuKilled bool
}

func (b *Batch) runCPULimited(jobs []hc.Job, cpuSec int, extraEnv ...string) (*cpuOutcome, error) {
	var in bytes.Buffer
	enc := json.NewEncoder(&in)
	for i := range jobs {
		enc.Encode(&jobs[i])
	}
	script := fmt.Sprintf("ulimit -t %d; exec %q", cpuSec, b.Bin)
	ctx, cancel := context.WithTimeout(context.Background(), time.Duration(cpuSec)*20*time.Second)
	defer cancel()
	cmd := exec.CommandContext(ctx, "/bin/sh", "-c", script)
	cmd.Dir = b.Dir
	cmd.Env = append(append(os.Environ(), extraEnv...), "HC_TRACE=1")
	cmd.Stdin = &in
	var so, se bytes.Buffer
	cmd.Stdout, cmd.Stderr = &so, &se
	err := cmd.Run()
	oc := &cpuOutcome{RunOutcome: &RunOutcome{Results: map[int]*RawResult{}, Stderr: se.String()}}
	if err != nil {
		var ee *exec.ExitError
		if errors.As(err, &ee) {
			if ws, ok := ee.Sys().(syscall.WaitStatus); ok && ws.Signaled() &&
				(ws.Signal() == syscall.SIGXCPU || ws.Signal() == syscall.SIGKILL) && ctx.Err() == nil {
				oc.cpuKilled = true
			}
		}
	}
	sc := bufio.NewScanner(&so)
	sc.Buffer(make([]byte, 1<<20), 1<<30)
	for sc.Scan() {
		line := sc.Bytes()
		if bytes.HasPrefix(line, []byte(`{"start":`)) {
			continue
		}
		var r RawResult
		if json.Unmarshal(line, &r) == nil {
			rc := r
			oc.Results[r.ID] = &rc
		}
	}
	return oc, nil
}

func firstLineOf(s string) string {
	if i := strings.IndexByte(s, '\n'); i >= 0 {
		return s[:i]
	}
	return s
}
