package main

import (
	"bytes"
	"encoding/json"
	"fmt"
	"go/importer"
	gotoken "go/token"
	"os"
	"runtime/debug"

	"github.com/dcaiafa/lox/verifhook"

	"verif/internal/run"
)

// genWorker runs in the batch directory (cwd) and generates every listed
// package in-process through the verif hook: the same stages as the CLI with
// packages.Load replaced by go/types + a shared source importer. One JSON
// line per package on stdout.
func genWorker(args []string) {
	report := false
	if len(args) > 0 && args[0] == "-report" {
		report = true
		args = args[1:]
	}
	imp := importer.ForCompiler(gotoken.NewFileSet(), "source", nil)
	enc := json.NewEncoder(os.Stdout)
	for _, name := range args {
		res := run.GenResult{Name: name}
		func() {
			var diag, rep bytes.Buffer
			defer func() {
				if r := recover(); r != nil {
					res.OK = false
					res.Panic = fmt.Sprintf("%v\n%s", r, debug.Stack())
				}
				res.Diag = diag.String()
				res.Report = rep.String()
			}()
			var repW *bytes.Buffer
			if report {
				repW = &rep
			}
			if repW != nil {
				res.OK = verifhook.GenerateFast(name, imp, "batch/"+name, &diag, repW)
			} else {
				res.OK = verifhook.GenerateFast(name, imp, "batch/"+name, &diag, nil)
			}
		}()
		enc.Encode(&res)
	}
}

// selfTestGen generates the given directory with both paths and compares
// (debug helper).
func selfTestGen(args []string) {
	fmt.Println("not implemented")
}
