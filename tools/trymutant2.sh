#!/bin/sh
# usage: tools/trymutant2.sh <patch.diff> <ID>...   — like trymutant.sh but on a scratch worktree of /repo
# (VERIF_REPO), so /repo itself is never touched and several trials can run side by side.
patch="$1"; shift
wt=$(mktemp -d /tmp/trial.XXXXXX)
rmdir "$wt"
git -C /repo worktree add -q --detach "$wt" HEAD || exit 2
cleanup() { git -C /repo worktree remove --force "$wt" 2>/dev/null; git -C /repo worktree prune; }
trap cleanup EXIT INT TERM
( cd "$wt" && git apply "$patch" ) || { echo "patch does not apply"; exit 2; }
cd /verif
for id in "$@"; do
  t0=$(date +%s)
  VERIF_REPO="$wt" ./check.sh $id ${TIER:-quick} > /tmp/trial.$id.$$.log 2>&1
  rc=$?
  echo "$id exit=$rc $(( $(date +%s) - t0 ))s violations=$(grep -c '^VIOLATION' /tmp/trial.$id.$$.log) | $(grep -v '^VIOLATION' /tmp/trial.$id.$$.log | grep -i 'violation kind' | head -2 | cut -c1-200 | tr '\n' ' ') | $(tail -1 /tmp/trial.$id.$$.log | cut -c1-160)"
  rm -f /tmp/trial.$id.$$.log
done
